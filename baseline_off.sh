#!/bin/sh
# Runs the repository's pinned baseline with the verification guard OFF and checks that the 222
# stable tests of /root/.vp/BASELINE.json still pass. Exit 0 iff they all pass.
unset WAVESPECTRA_VERIF WAVESPECTRA_VERIF_TRACE
OUT=${1:-/verif/.build/baseline.junit.xml}
mkdir -p "$(dirname "$OUT")"
cd /repo && /venv/bin/python -m pytest -ra -q -p no:cacheprovider --timeout=900 --continue-on-collection-errors --junitxml="$OUT" >/verif/.build/baseline.log 2>&1
/venv/bin/python - "$OUT" <<'PY'
import json, sys, xml.etree.ElementTree as ET
base = json.load(open('/root/.vp/BASELINE.json'))
want = set(base['stable_pass'])
root = ET.parse(sys.argv[1]).getroot()
ok = set()
for tc in root.iter('testcase'):
    if not any(ch.tag in ('failure', 'error', 'skipped') for ch in tc):
        ok.add('%s::%s' % (tc.get('classname'), tc.get('name')))
missing = sorted(want - ok)
print('baseline: %d/%d stable tests pass' % (len(want) - len(missing), len(want)))
for m in missing[:20]:
    print('  NOT PASSING:', m)
sys.exit(1 if missing else 0)
PY
