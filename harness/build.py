"""Build the native watershed from $VERIF_REPO's *current* sources.

 - install_specpart(): compiles specpart.c + specpart_wrap.c into /verif/.build/ext-<hash>/ and installs
   a meta-path finder so that `wavespectra.partition.specpart` resolves to that fresh module (a stale
   .so in the tree can never hide a change to the C sources).
 - driver(sanitize): standalone executable (#include "specpart.c") for bulk runs, optionally with
   ASan+UBSan.
"""
import hashlib
import importlib.abc
import importlib.machinery
import importlib.util
import os
import subprocess
import sys
import sysconfig

from harness.core import BUILD, REPO, VERIF, MachineryError

SRC = os.path.join(REPO, "wavespectra", "partition", "specpart")


def _hash(paths, extra=""):
    h = hashlib.sha256(extra.encode())
    for p in paths:
        with open(p, "rb") as fh:
            h.update(fh.read())
    return h.hexdigest()[:16]


def _run(cmd):
    p = subprocess.run(cmd, stdout=subprocess.PIPE, stderr=subprocess.STDOUT, text=True)
    if p.returncode != 0:
        raise MachineryError("build failed: %s\n%s" % (" ".join(cmd), p.stdout[-4000:]))
    return p.stdout


def build_ext():
    srcs = [os.path.join(SRC, f) for f in ("specpart.c", "specpart_wrap.c", "specpart.h")]
    tag = _hash(srcs, "ext-v1")
    out = os.path.join(BUILD, "ext-" + tag)
    so = os.path.join(out, "specpart" + sysconfig.get_config_var("EXT_SUFFIX"))
    if not os.path.exists(so):
        os.makedirs(out, exist_ok=True)
        import numpy
        inc = [sysconfig.get_paths()["include"], numpy.get_include(), SRC]
        tmp = so + ".tmp%d" % os.getpid()
        cmd = ["gcc", "-O2", "-fPIC", "-shared", "-fno-strict-aliasing", "-w"]
        for i in inc:
            cmd += ["-I", i]
        cmd += [srcs[1], srcs[0], "-lm", "-o", tmp]
        _run(cmd)
        os.replace(tmp, so)
    return so


class _Finder(importlib.abc.MetaPathFinder):
    def __init__(self, so):
        self.so = so

    def find_spec(self, fullname, path, target=None):
        if fullname == "wavespectra.partition.specpart":
            loader = importlib.machinery.ExtensionFileLoader(fullname, self.so)
            return importlib.util.spec_from_file_location(fullname, self.so, loader=loader)
        return None


_installed = None


def install_specpart():
    global _installed
    if _installed:
        return _installed
    so = build_ext()
    sys.meta_path.insert(0, _Finder(so))
    _installed = so
    return so


DRIVER_C = os.path.join(VERIF, "harness", "native", "driver.c")


def driver(sanitize=False):
    srcs = [os.path.join(SRC, "specpart.c"), os.path.join(SRC, "specpart.h"), DRIVER_C]
    tag = _hash(srcs, "drv-v1-%s" % sanitize)
    out = os.path.join(BUILD, "drv-" + tag)
    exe = os.path.join(out, "driver_asan" if sanitize else "driver")
    if not os.path.exists(exe):
        os.makedirs(out, exist_ok=True)
        tmp = exe + ".tmp%d" % os.getpid()
        if sanitize:
            cmd = ["clang", "-O1", "-g", "-fsanitize=address,undefined", "-fno-sanitize-recover=undefined",
                   "-fno-omit-frame-pointer", "-w"]
        else:
            cmd = ["gcc", "-O2", "-w"]
        cmd += ["-I", SRC, "-DSPECPART_C=\"%s\"" % srcs[0], DRIVER_C, "-lm", "-o", tmp]
        _run(cmd)
        os.replace(tmp, exe)
    return exe
