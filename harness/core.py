"""Shared machinery: context object, TLC runner, findings, evidence, violation reporting.

Every property module exposes  run(ctx)  and uses only this API:
    ctx.tlc(module, cfg, ...)          -> TlcResult (states, transitions, vectors, ok, errors)
    ctx.ok(n=1) / ctx.case(fp, nontrivial)    bookkeeping of replayed cases
    ctx.violation(key, what, detail)   a property violation observed on the real code or by TLC
    ctx.sample(obj)                    keep a few verbatim cases for the evidence file
    ctx.note(k, v)                     extra coverage keys
Exit codes (decided in main.py): 0 held / 1 violation / 2 machinery failure.
"""
import hashlib
import json
import os
import random
import re
import shutil
import subprocess
import sys
import time

VERIF = os.path.dirname(os.path.dirname(os.path.abspath(__file__)))
REPO = os.environ.get("VERIF_REPO", "/repo")
SPEC = os.path.join(VERIF, "spec")
BUILD = os.path.join(VERIF, ".build")
EVID = os.environ.get("VERIF_EVIDENCE_DIR") or os.path.join(VERIF, "evidence")
REPLAYS = os.path.join(EVID, "replays")
FINDINGS = os.path.join(VERIF, "known_findings.jsonl")
NCPU = min(16, os.cpu_count() or 4)


class MachineryError(Exception):
    """Raised when the verification machinery itself failed (exit 2, never a verdict)."""


class TlcResult:
    def __init__(self):
        self.states = 0          # distinct states
        self.transitions = 0     # states generated (TLC counts one per explored transition)
        self.vectors = []        # parsed PrintT(ToJson(..)) payloads
        self.prints = []         # other PrintT lines
        self.ok = False          # TLC finished with no error
        self.violated = []       # names of violated invariants / properties
        self.errors = []         # error text lines
        self.deadlock = False
        self.wall = 0.0
        self.cmd = ""
        self.coverage = {}       # action name -> (distinct, total) when -coverage used
        self.out = ""
        self.cex = ""            # counterexample text, when any


_JSON_LINE = re.compile(r'^"(\{.*\}|\[.*\])"$')


def _unescape_tla_string(s):
    # TLC prints strings with \" and \\ escapes
    out = []
    i = 0
    while i < len(s):
        c = s[i]
        if c == "\\" and i + 1 < len(s):
            n = s[i + 1]
            out.append({"n": "\n", "t": "\t"}.get(n, n))
            i += 2
        else:
            out.append(c)
            i += 1
    return "".join(out)


def run_tlc(module, cfg, workers=None, env=None, timeout=3600, extra=(), deadlock=False,
            coverage=False, simulate=None, depth=None, seed=None, cwd=None, heap=None):
    """Run TLC on spec/<module>.tla with spec/<cfg>. Returns TlcResult."""
    cwd = cwd or SPEC
    workers = workers or NCPU
    meta = os.path.join(BUILD, "tlc", "%s-%d-%d" % (module, os.getpid(), int(time.time() * 1e6) % 10**9))
    os.makedirs(meta, exist_ok=True)
    jopts = ["-XX:+UseParallelGC", "-XX:ParallelGCThreads=%d" % max(2, min(workers, 8)), "-Xss64m"]
    if heap:
        jopts.append("-Xmx%s" % heap)
    elif workers <= 2:
        # many small TLC processes run side by side: keep each one's memory and helper threads small
        jopts += ["-Xmx2g", "-XX:MaxDirectMemorySize=512m", "-XX:CICompilerCount=2"]
    cmd = ["java"] + jopts + ["-cp", "/opt/veriftools/tla/tla2tools.jar:/opt/veriftools/tla/CommunityModules-deps.jar",
                              "tlc2.TLC", "-workers", str(workers), "-metadir", meta, "-noGenerateSpecTE"]
    if not deadlock:
        cmd.append("-deadlock")   # -deadlock DISABLES deadlock checking
    if coverage:
        cmd += ["-coverage", "1"]
    if simulate:
        cmd += ["-simulate", simulate]
        if depth:
            cmd += ["-depth", str(depth)]
    if seed is not None:
        cmd += ["-seed", str(seed)]
    cmd += list(extra)
    cmd += ["-config", cfg, module + ".tla"]
    e = dict(os.environ)
    e.pop("JAVA_TOOL_OPTIONS", None)
    if env:
        e.update(env)
    r = TlcResult()
    r.cmd = " ".join(cmd)
    t0 = time.time()
    try:
        p = subprocess.run(cmd, cwd=cwd, env=e, stdout=subprocess.PIPE, stderr=subprocess.STDOUT,
                           timeout=timeout, text=True, errors="replace")
        out = p.stdout
        rc = p.returncode
    except subprocess.TimeoutExpired as ex:
        out = (ex.stdout or b"")
        if isinstance(out, bytes):
            out = out.decode("utf8", "replace")
        rc = -9
        r.errors.append("TLC timeout after %ss" % timeout)
    r.wall = time.time() - t0
    r.out = out
    shutil.rmtree(meta, ignore_errors=True)
    in_err = False
    cex = []
    for line in out.splitlines():
        m = _JSON_LINE.match(line.strip())
        if m:
            try:
                r.vectors.append(json.loads(_unescape_tla_string(m.group(1))))
                continue
            except Exception:
                pass
        if line.startswith("<<") or line.startswith('"'):
            r.prints.append(line)
        m = re.match(r"^(\d+) states generated, (\d+) distinct states found", line)
        if m:
            r.transitions = int(m.group(1))
            r.states = int(m.group(2))
        m = re.search(r"Invariant (\S+) is violated", line)
        if m:
            r.violated.append(m.group(1))
        m = re.search(r"(Action|Temporal) propert(y|ies) (\S+)? ?(is|were) violated", line)
        if m:
            r.violated.append(m.group(3) or "temporal")
        if "Temporal properties were violated" in line:
            r.violated.append("temporal")
        if "Deadlock reached" in line:
            r.deadlock = True
        if line.startswith("Error:"):
            in_err = True
            r.errors.append(line)
        elif in_err and line.strip() and not line.startswith("State ") and len(r.errors) < 40:
            r.errors.append(line)
        if line.startswith("State ") or cex:
            if len(cex) < 400:
                cex.append(line)
        # coverage lines look like:  <Name line 10, col 1 to line 12, col 20 of module M>: 12:34
        m = re.match(r"^<(\w+) line \d+, col \d+ to line \d+, col \d+ of module \w+>: (\d+):(\d+)", line)
        if m:
            r.coverage[m.group(1)] = (int(m.group(2)), int(m.group(3)))
    r.cex = "\n".join(cex)
    finished = "Model checking completed. No error has been found." in out or \
        ("Finished in" in out and not r.errors and not r.violated and not r.deadlock)
    if simulate and rc in (0,) and not r.errors:
        finished = True
    r.ok = bool(finished) and rc == 0
    return r


def load_findings():
    res = []
    if os.path.exists(FINDINGS):
        for line in open(FINDINGS):
            line = line.strip()
            if line:
                res.append(json.loads(line))
    return res


def _match(entry_key, key):
    for k, v in entry_key.items():
        if k not in key:
            return False
        kv = key[k]
        if isinstance(v, list):
            if kv not in v:
                return False
        elif kv != v:
            return False
    return True


class Ctx:
    def __init__(self, pid, tier, seed, replay=None):
        self.pid = pid
        self.tier = tier
        self.seed = seed
        self.replay = replay
        self.rng = random.Random(seed)
        self.t0 = time.time()
        self.states = 0
        self.transitions = 0
        self.evaluations = 0
        self.validated = 0          # vectors replayed into impl + impl traces accepted by TLC
        self.fps = set()            # distinct nontrivial case fingerprints
        self.samples = []
        self.notes = {}
        self.tlc_runs = []
        self.violations = []        # (key, what, detail)
        self.known_hits = {}        # index in findings -> count
        self.assumptions = []
        self.exhaustive = None
        self.rule = ""
        self.findings = [f for f in load_findings() if f.get("property") == pid]
        self.quick = tier == "quick"

    # ---- TLC ----
    def tlc(self, module, cfg, expect_ok=True, label=None, **kw):
        r = run_tlc(module, cfg, **kw)
        self.states += r.states
        self.transitions += r.transitions
        self.tlc_runs.append({"module": module, "cfg": cfg, "label": label or cfg, "states": r.states,
                              "transitions": r.transitions, "wall_s": round(r.wall, 2), "ok": r.ok,
                              "violated": r.violated, "vectors": len(r.vectors),
                              "coverage": {k: v[1] for k, v in r.coverage.items()} or None})
        if expect_ok and not r.ok and not r.violated and not r.deadlock:
            raise MachineryError("TLC failed on %s/%s: %s\n%s" % (module, cfg, r.errors[:10], r.out[-3000:]))
        return r

    # ---- bookkeeping ----
    def case(self, fp=None, nontrivial=True, n=1):
        self.evaluations += n
        if fp is not None and nontrivial:
            if not isinstance(fp, (str, int)):
                fp = hashlib.sha1(json.dumps(fp, sort_keys=True, default=str).encode()).hexdigest()[:16]
            self.fps.add(fp)

    def replayed(self, n=1):
        self.validated += n

    def sample(self, obj, cap=4):
        if len(self.samples) < cap:
            self.samples.append(obj)

    def note(self, k, v):
        self.notes[k] = v

    def assume(self, text):
        if text not in self.assumptions:
            self.assumptions.append(text)

    def violation(self, key, what, detail=None):
        """Record a violation. key: dict signature (op + smallest input class)."""
        for i, f in enumerate(self.findings):
            if f.get("status") == "open" and _match(f.get("key", {}), key):
                self.known_hits[i] = self.known_hits.get(i, 0) + 1
                return "known"
        self.violations.append((key, what, detail))
        return "new"

    # ---- finishing ----
    def finish(self):
        os.makedirs(REPLAYS, exist_ok=True)
        lines = []
        for i, n in sorted(self.known_hits.items()):
            f = self.findings[i]
            lines.append("KNOWN-FINDING: property=%s %s (hit %d times; key=%s)" %
                         (self.pid, f.get("what", ""), n, json.dumps(f.get("key", {}), sort_keys=True)))
        seen = set()
        nviol = 0
        for key, what, detail in self.violations:
            sig = hashlib.sha1(json.dumps(key, sort_keys=True, default=str).encode()).hexdigest()[:12]
            if sig in seen:
                continue
            seen.add(sig)
            nviol += 1
            path = os.path.join(REPLAYS, "%s-%s.json" % (self.pid, sig))
            with open(path, "w") as fh:
                json.dump({"property": self.pid, "key": key, "what": what, "detail": detail,
                           "seed": self.seed, "tier": self.tier}, fh, indent=1, default=str)
            if nviol <= 25:
                lines.append("VIOLATION property=%s replay=%s  # %s" % (self.pid, path, what))
        cov = {
            "states": self.states,
            "transitions": self.transitions,
            "traces_validated_against_impl": self.validated,
            "samples": self.samples or [{"note": "no sample recorded"}],
            "evaluations": self.evaluations,
            "distinct_nontrivial": len(self.fps),
            "rule": self.rule,
            "tlc_runs": self.tlc_runs,
            "known_findings_hit": [self.findings[i].get("what") for i in sorted(self.known_hits)],
        }
        if self.exhaustive is not None:
            cov["exhaustive"] = bool(self.exhaustive)
        cov.update(self.notes)
        ev = {
            "property_id": self.pid,
            "tier": self.tier,
            "seed": int(self.seed),
            "level": "model_checking",
            "coverage": cov,
            "assumptions": self.assumptions,
            "wall_s": round(time.time() - self.t0, 2),
            "violations": nviol,
        }
        if not self.replay:
            os.makedirs(EVID, exist_ok=True)
            tmp = os.path.join(EVID, ".%s.json.tmp" % self.pid)
            with open(tmp, "w") as fh:
                json.dump(ev, fh, indent=1, default=str)
            os.replace(tmp, os.path.join(EVID, "%s.json" % self.pid))
        for l in lines:
            print(l)
        print("SUMMARY property=%s tier=%s states=%d transitions=%d impl_cases=%d validated=%d distinct=%d "
              "violations=%d known=%d wall=%.1fs" %
              (self.pid, self.tier, self.states, self.transitions, self.evaluations, self.validated,
               len(self.fps), nviol, len(self.known_hits), time.time() - self.t0))
        return 1 if nviol else 0


def setup_repo_imports():
    """Make `import wavespectra` resolve to $VERIF_REPO with a freshly built C extension."""
    if REPO not in sys.path:
        sys.path.insert(0, REPO)
    from harness import build
    build.install_specpart()


def run_forked(func, *args, timeout=3600):
    """Run func(*args) in a forked child so that a native crash (heap corruption, segfault) in the code under
    test is reported as an outcome instead of killing the checker. Returns ("ok", value) | ("crash", description)."""
    import multiprocessing as mp
    import pickle
    ctxmp = mp.get_context("fork")
    rd, wr = ctxmp.Pipe(duplex=False)

    def child():
        try:
            val = func(*args)
            wr.send_bytes(pickle.dumps(("ok", val)))
        except BaseException as ex:  # noqa
            import traceback
            wr.send_bytes(pickle.dumps(("exc", "%s: %s\n%s" % (type(ex).__name__, ex, traceback.format_exc()[-2000:]))))
        finally:
            wr.close()
            os._exit(0)

    p = ctxmp.Process(target=child)
    p.start()
    wr.close()
    data = None
    try:
        if rd.poll(timeout):
            data = rd.recv_bytes()
    except (EOFError, OSError):
        data = None
    p.join(30)
    if p.is_alive():
        p.kill()
        return ("crash", "timeout")
    if data is None:
        return ("crash", "child died with exit code %s (negative = signal)" % p.exitcode)
    kind, val = pickle.loads(data)
    if kind == "exc":
        raise MachineryError("forked task raised: " + val)
    return ("ok", val)
