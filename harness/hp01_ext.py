"""Extension beyond the listed properties: recorded runs of the Hanson & Phillips merging validated by Hp01Trace.tla.

The harness wraps combine_partitions_hp01, _combine_last and _partition_stats (in the harness, not in the repository), identifies every
group by the watershed partitions (atoms) whose bins it holds, and writes one event per step.  Findings of this stage are reported in the
evidence notes only: HP01 is not one of the listed properties.
"""
import json
import os
import tempfile

import numpy as np

from harness import ws
from harness.core import BUILD, run_tlc


def _spectrum(rng, nk, nth):
    a = np.zeros((nk, nth))
    ii, jj = np.meshgrid(np.arange(nk), np.arange(nth), indexing="ij")
    for _ in range(rng.randint(3, 7)):
        ci, cj, amp = rng.randint(0, nk), rng.randint(0, nth), rng.randint(20, 90)
        dj = np.minimum((jj - cj) % nth, (cj - jj) % nth)
        a += np.maximum(0, amp - rng.uniform(1.5, 6.0) * (np.abs(ii - ci) + dj) ** 2)
    return a


def record(seed, nruns):
    import wavespectra.partition.hanson_and_phillips_2001 as hp
    import wavespectra.partition.partition as pmod
    rng = np.random.RandomState(seed)
    lines, meta = [], {}
    state = {}
    orig_combine, orig_last, orig_stats = hp.combine_partitions_hp01, hp._combine_last, hp._partition_stats

    def groups_of(parts):
        out = []
        for p in parts:
            nz = frozenset(np.flatnonzero(np.asarray(p)).tolist())
            out.append(sorted(k + 1 for k, s in enumerate(state["atoms"]) if s and s <= nz))
        return out

    def stats(spectrum, freq, dir):
        r = orig_stats(spectrum, freq, dir)
        if state.get("init_left", 0) > 0:
            state["fp_nan"].append(bool(np.isnan(r[1])))
            state["init_left"] -= 1
        return r

    def last(parts, index, *a, **k):
        r = orig_last(parts, index, *a, **k)
        if state.get("ok"):
            n = len(parts)
            i = int(index) % n + 1
            state["events"].append({"ev": "merge", "tid": state["tid"], "i": i, "groups": groups_of(r[0])})
        return r

    def combine(partitions, freq, dir, swells=None, k=0.5, angle_max=30, hs_min=0.2, combine_extra_swells=True):
        atoms = [frozenset(np.flatnonzero(np.asarray(p)).tolist()) for p in partitions]
        ok = all(atoms) and all(a.isdisjoint(b) for x, a in enumerate(atoms) for b in atoms[x + 1:])
        state.update(atoms=atoms, ok=ok, events=[], fp_nan=[], init_left=len(partitions))
        out = orig_combine(partitions=partitions, freq=freq, dir=dir, swells=swells, k=k, angle_max=angle_max, hs_min=hs_min,
                           combine_extra_swells=combine_extra_swells)
        if ok:
            n = len(partitions)
            d = [x + 1 for x, nan in enumerate(state["fp_nan"][:n]) if nan]
            tid = state["tid"]
            ev = [{"ev": "init", "tid": tid, "n": n, "swells": -1 if swells is None else int(swells), "combine": 1 if combine_extra_swells else 0},
                  {"ev": "drop", "tid": tid, "d": d, "groups": [[x + 1] for x in range(n) if (x + 1) not in d]}]
            ev += state["events"]
            ev.append({"ev": "final", "tid": tid, "groups": groups_of(out)})
            lines.extend(ev)
            meta[tid] = {"n": n, "dropped": len(d), "merges": len(state["events"]), "final": len(out), "swells": swells,
                         "combine": bool(combine_extra_swells), "e_in": float(sum(np.sum(p) for p in partitions)), "e_out": float(sum(np.sum(p) for p in out))}
            state["tid"] += 1
        state["ok"] = False
        return out
    state["tid"] = 0
    hp.combine_partitions_hp01, hp._combine_last, hp._partition_stats = combine, last, stats
    pmod.combine_partitions_hp01 = combine
    try:
        for _ in range(nruns):
            nk, nth = [(12, 12), (16, 12), (10, 18)][rng.randint(3)]
            freq = 0.04 + 0.02 * np.arange(nk)
            dirs = np.arange(nth) * (360.0 / nth)
            e = _spectrum(rng, nk, nth)
            mask = np.zeros((nk, nth), bool)
            mask[nk // 2:, : nth // 3] = rng.rand() < 0.5
            swells = [None, 1, 2, 3, 5][rng.randint(5)]
            try:
                pmod.np_hp01(e, e, mask, freq, dirs, wscut=0.3333, swells=swells, k=float(rng.choice([0.1, 0.5, 2.0, 50.0])),
                             angle_max=float(rng.choice([10, 30, 90, 180])), hs_min=float(rng.choice([0.0, 0.2, 5.0, 1e3])), ihmax=100,
                             combine_extra_swells=bool(rng.rand() < 0.6))
            except Exception as ex:  # noqa  (recorded as an outcome of the run, not validated)
                meta.setdefault("raised", []).append("%s: %s" % (type(ex).__name__, str(ex)[:80]))
    finally:
        hp.combine_partitions_hp01, hp._combine_last, hp._partition_stats = orig_combine, orig_last, orig_stats
        pmod.combine_partitions_hp01 = orig_combine
    return lines, meta


def stage(ctx, nruns):
    """model-check Hp01.tla, record runs of the real routine, validate them; everything goes to the evidence notes."""
    res = {}
    for name, sw, comb in (("all", "Unlimited", "TRUE"), ("2c", "2", "TRUE"), ("2t", "2", "FALSE"), ("1c", "1", "TRUE")):
        cfg = ws.write_cfg("hp01_%s.cfg" % name, "SPECIFICATION FairSpec\nCONSTANTS N = 4\n SWELLS %s %s\n COMBINE = %s\n" % ("<-" if sw == "Unlimited" else "=", sw, comb) +
                           "".join("INVARIANT %s\n" % i for i in ("TypeOK", "Disjoint", "Accounted", "CombineNeverTruncates", "CountOK")) +
                           "PROPERTY MergesConserve\nPROPERTY Shrinks\nPROPERTY Terminates\n")
        r = ctx.tlc("MC_Hp01", cfg, workers=2, label="extension HP01 merging: swells=%s combine=%s" % (sw, comb), expect_ok=False)
        res[name] = {"states": r.states, "ok": bool(r.ok), "violated": r.violated}
    lines, meta = record(ctx.seed, nruns)
    out = {"model": res, "runs_recorded": len([k for k in meta if isinstance(k, int)]), "raised": meta.get("raised", [])[:5]}
    # binding demonstration: a copy of the first run whose returned list misses one atom must be rejected at 'final'
    bad_tid = None
    first = [dict(ln) for ln in lines if ln["tid"] == 0]
    if first and first[-1]["ev"] == "final" and first[-1]["groups"]:
        bad_tid = 10 ** 6
        for ln in first:
            ln["tid"] = bad_tid
        g = [list(x) for x in first[-1]["groups"]]
        g[0] = g[0][1:] if len(g[0]) > 1 else g[0] + [first[0]["n"] + 1]
        first[-1] = dict(first[-1], groups=g)
        lines = lines + first
    if lines:
        os.makedirs(os.path.join(BUILD, "traces"), exist_ok=True)
        fd, path = tempfile.mkstemp(prefix="hp01-", suffix=".ndjson", dir=os.path.join(BUILD, "traces"))
        with os.fdopen(fd, "w") as fh:
            for ln in lines:
                fh.write(json.dumps(ln, separators=(",", ":")) + "\n")
        cfg = ws.write_cfg("hp01trace.cfg", "SPECIFICATION TSpec\nCONSTANTS N = 1\n SWELLS = 1\n COMBINE = TRUE\nINVARIANT RecDisjoint\nINVARIANT RecWithinAtoms\nPOSTCONDITION Verdict\n")
        rt = run_tlc("Hp01Trace", cfg, workers=1, env={"TRACE_FILE": path}, timeout=900)
        ctx.states += rt.states
        ctx.transitions += rt.transitions
        ctx.tlc_runs.append({"module": "Hp01Trace", "label": "extension: %d recorded HP01 runs" % out["runs_recorded"], "states": rt.states,
                             "transitions": rt.transitions, "wall_s": round(rt.wall, 2)})
        v = [x for x in rt.vectors if isinstance(x, dict) and x.get("verdict") == "Hp01Trace"]
        os.unlink(path)
        if v:
            rej = v[-1]["rejected"]
            out["accepted"] = v[-1]["accepted"]
            out["rejected"] = [r for r in rej if r["tid"] != bad_tid][:5]
            out["corrupted_copy_rejected"] = any(r["tid"] == bad_tid for r in rej) if bad_tid is not None else None
        else:
            out["trace_validation_error"] = (rt.errors[:3] or [rt.out[-300:]])
        runs = [m for k, m in meta.items() if isinstance(k, int)]
        out["runs_with_dropped_partitions"] = sum(1 for m in runs if m["dropped"])
        out["runs_with_merges"] = sum(1 for m in runs if m["merges"])
        out["runs_losing_energy_although_combine"] = sum(1 for m in runs if m["combine"] and m["e_out"] < m["e_in"] * (1 - 1e-9))
        out["runs_truncated"] = sum(1 for m in runs if not m["combine"] and m["e_out"] < m["e_in"] * (1 - 1e-9))
    ctx.note("extension_hp01", out)
    return out
