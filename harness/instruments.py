"""Independent reference ENCODERS for the instrument / model file formats that
wavespectra can read (no wavespectra import in any encoder: they are written
from the FORMAT as shown by the vendor samples in /repo/tests/sample_files).

For every format <fmt> in FORMATS:

    random_case(fmt, rng, **opts) -> case        abstract content (plain dict)
    encode_<fmt>(case, outdir)    -> arg         writes the file(s), returns what
                                                 has to be handed to the reader
                                                 (a path, or a list of paths)
    read_<fmt>(arg, case, oned=False) -> Dataset calls the REAL wavespectra reader
    expected_<fmt>(case)          -> dict        what the reader MUST return

The CASE dict
-------------
Common keys (every format):
    fmt      : format name
    label    : short human readable description of the header variants used
    times    : list of numpy datetime64[s], in FILE (= record / file) order, which
               may be shuffled; expected_* always returns them sorted ascending
    freq     : list of float, exactly representable at the digits printed
    dir      : list of float (deg, or the file's own unit for ww3_station) or None
    E        : numpy array of the energies AS PRINTED IN THE FILE (file units),
               indexed [record, (location,) freq, (dir)] in FILE order
    opts     : the options the case was built with
Format specific keys are documented next to each random_<fmt> function.
All numbers are built as n / 10**k so that printing with k decimals and parsing
back gives the same double: `expected_*` is therefore exact up to the float
round-off of the unit conversion the reader has to make, and "tol" can be tight.

The EXPECTED dict
-----------------
    time : datetime64[s] array sorted ascending (None: file carries no time)
    freq : Hz
    dir  : deg, nautical coming-from (None for 1-D). Order is not significant:
           `compare` sorts both sides by direction.
    efth : (time, freq[, dir]) m2/Hz[/deg]   for readers returning the file content
           (swan: (time, loc, freq, dir), NaN for NODATA)
    ef   : (time, freq) m2/Hz                for readers RECONSTRUCTING a 2-D
           spectrum (ndbc 2-D, spotter, datawell): sum(efth*dd) must equal ef
    lon, lat : when the file (or the call) carries a position
    tol  : relative tolerance
    notes: list of strings (things the user must know)

Units / conventions, per format (details in the section of each format):
    triaxys      DIRSPEC is m2/Hz/deg (checked against NONDIRSPEC of the sample),
                 columns 0..360 INCLUSIVE (0 and 360 both present); DATE is local
                 time, reader subtracts `toff` hours.
    ndbc_ascii   spec m2/Hz; alpha1/alpha2 deg coming-from; r1,r2 dimensionless in
                 the realtime files but in HUNDREDTHS in the history files.
                 D(theta) = 1/pi (0.5 + r1 cos(th-a1) + r2 cos(2(th-a2))) per rad.
    spotter      varianceDensity m2/Hz, direction deg coming-from, spread deg.
    datawell     column 2 is S(f)/Smax; Smax (m2/Hz) is header line 4.
    obscape      m2/Hz/rad in the file -> * pi/180.
    ww3_station  m2/Hz/rad; directions are radians, nautical GOING-TO
                 (ww3_outp writes MOD(2.5 pi - TH, 2 pi) with TH the model's
                 cartesian going-to angle) -> dir_from = (deg(th) + 180) % 360.
    swan         VaDens m2/Hz/deg, EnDens J/m2/Hz/deg (/ (1025*9.81));
                 CDIR cartesian going-to -> (270 - cdir) % 360.
    xwaves       spec2d m2/Hz/rad -> * pi/180 (no vendor sample: layout from reader).
    octopus      cell = E(f,th) * df * dd in m2, df = central differences with
                 HALF widths at both ends (from the `den` row of the sample).
"""
import datetime as _dt
import gzip
import json
import math
import os
import random
import tempfile

import numpy as np

FORMATS = [
    "triaxys",
    "ndbc_ascii",
    "spotter_csv",
    "spotter_json",
    "datawell",
    "obscape",
    "ww3_station",
    "swan",
    "xwaves",
    "octopus",
]

D2R = math.pi / 180.0
RHO_G = 1025 * 9.81  # SWAN default rho * g used for EnDens


# =====================================================================================
# helpers
# =====================================================================================
def dec(n, k):
    """n * 10**-k as the double closest to that decimal (k >= 0)."""
    return n / 10**k if k >= 0 else float(n * 10 ** (-k))


def _tok(fmt, value):
    """Format `value` and make sure the token parses back to the same double."""
    s = fmt.format(value)
    if float(s) != value:
        raise ValueError(f"value {value!r} not representable as {fmt!r} -> {s!r}")
    return s


def _times(rng, n, step_choices_s, second_res=False, shuffle=False):
    """n distinct times, ascending; returned (sorted, file_order)."""
    base = np.datetime64("2001-01-01T00:00:00", "s") + np.timedelta64(
        rng.randrange(0, 25 * 365 * 24 * 60) * 60, "s"
    )
    if second_res:
        base = base + np.timedelta64(rng.randrange(0, 60), "s")
    out = [base]
    for __ in range(n - 1):
        out.append(out[-1] + np.timedelta64(rng.choice(step_choices_s), "s"))
    order = list(range(n))
    if shuffle and n > 1:
        while order == sorted(order):
            rng.shuffle(order)
    return out, [out[i] for i in order]


def _py(t):
    """numpy datetime64[s] -> datetime.datetime"""
    return t.astype("datetime64[s]").astype(_dt.datetime)


def _freqs(rng, n, k, lo=30, hi=60, steps=(5, 7, 10, 13, 20)):
    """n increasing frequencies that are multiples of 10**-k around 0.03-0.6 Hz."""
    scale = 10 ** (k - 3)
    f = [rng.randrange(lo, hi)]
    for __ in range(n - 1):
        f.append(f[-1] + rng.choice(steps))
    return [dec(v * scale, k) for v in f]


def _ints(rng, shape, hi, pzero=0.2):
    a = np.zeros(shape, dtype=np.int64)
    for idx in np.ndindex(*shape):
        a[idx] = 0 if rng.random() < pzero else rng.randrange(1, hi)
    return a


def _sorted_idx(times):
    return np.argsort(np.array(times, dtype="datetime64[s]"), kind="stable")


def _exp_base(case, **kw):
    idx = _sorted_idx(case["times"])
    out = {
        "time": np.array(case["times"], dtype="datetime64[s]")[idx],
        "freq": np.array(case["freq"], dtype=float),
        "dir": None,
        "tol": 1e-9,
        "notes": [],
    }
    out.update(kw)
    return out, idx


# =====================================================================================
# 1. TRIAXYS  (one file per time; DIRSPEC / NONDIRSPEC)
# =====================================================================================
# Layout (sample triaxys.DIRSPEC / triaxys.NONDIRSPEC):
#   13 header lines "KEY = value" (TYPE and ROWS use a TAB before '='), then one row
#   per frequency. DIRSPEC: NDIR = 360/ddir + 1 columns " d.dddddE-ee" for 0..360 deg
#   inclusive, unit m2/Hz/deg. NONDIRSPEC: "f.fff  d.dddddddE-ee" (m2/Hz).
#   Frequencies are f0 + i*df from the header. DATE is buoy-local time.
# case keys: directional, f0, df (floats, 3 decimals), ddir (int deg), toff (hours),
#            E[record, freq, dir(0..360 incl.)] or E[record, freq]
def random_triaxys(rng, ntimes=None, nfreq=None, directional=None, ddir=None,
                   toff=None, shuffle=True, **_):
    ntimes = ntimes or rng.randint(1, 4)
    nfreq = nfreq or rng.randint(2, 6)
    directional = rng.random() < 0.6 if directional is None else directional
    ddir = ddir or rng.choice([30, 45, 60, 90, 120])
    toff = rng.choice([0, 0, 10, -5]) if toff is None else toff
    f0 = dec(rng.randrange(0, 12) * 5, 3)
    dfi = rng.choice([5, 10, 20, 25])
    df = dec(dfi, 3)
    freq = [dec(int(round(f0 * 1000)) + i * dfi, 3) for i in range(nfreq)]
    __, times = _times(rng, ntimes, [1200, 1800, 3600, 10800], shuffle=shuffle)
    if directional:
        nd = 360 // ddir + 1
        m = _ints(rng, (ntimes, nfreq, nd), 900000)
        m[m > 0] += 100000
        ex = np.array([[[rng.randrange(2, 8) for _k in range(nd)] for _j in range(nfreq)]
                       for _i in range(ntimes)])
        E = np.vectorize(lambda a, b: dec(int(a), int(b) + 5))(m, ex).astype(float)
        E[..., -1] = E[..., 0]  # the 360 column repeats the 0 column
        dirs = [float(d) for d in range(0, 361, ddir)]
    else:
        m = _ints(rng, (ntimes, nfreq), 90000000)
        m[m > 0] += 10000000
        ex = np.array([[rng.randrange(0, 4) for _j in range(nfreq)] for _i in range(ntimes)])
        E = np.vectorize(lambda a, b: dec(int(a), int(b) + 7))(m, ex).astype(float)
        dirs = None
    return dict(fmt="triaxys", times=times, freq=freq, dir=dirs, E=E, f0=f0, df=df,
                ddir=ddir, toff=toff, directional=directional, names=rng.choice(("time", "seq")),
                lat=-(48 + 57.6668 / 60), lon=-(166 + 31.6837 / 60),
                label=f"{'DIRSPEC' if directional else 'NONDIRSPEC'} toff={toff}")


def encode_triaxys(case, outdir):
    paths = []
    nf = len(case["freq"])
    nf_all = nf
    case0 = case
    for it, t in enumerate(case0["times"]):
        case = case0
        # later files may resolve fewer frequencies than the first one (same initial frequency and spacing)
        nf = (case.get("nf_per_time") or [nf_all] * len(case["times"]))[it]
        # ... or start at a later frequency: the same number of frequencies and the same spacing, initial frequency k spacings higher
        kshift = (case.get("shift_per_time") or [0] * len(case["times"]))[it]
        fstep = float(case["df"])
        case = dict(case, freq=[round(f + kshift * fstep, 6) for f in case["freq"]], f0=round(float(case["f0"]) + kshift * fstep, 6)) if kshift else case
        local = _py(t) + _dt.timedelta(hours=case["toff"])
        zone = "UTC" if case["toff"] == 0 else "LOCAL"
        rows = case["E"][it]
        nz = [i for i in range(nf) if np.any(rows[i] > 0)] or [0]
        L = ["TRIAXYS BUOY DATA REPORT - TAS01970 - TAB01401 - 4857.6668S16631.6837W"]
        if case["directional"]:
            L += [
                "VERSION = WV (NDS)",
                "TYPE\t= DIRECTIONAL SPECTRUM",
                f"DATE    = {local:%Y-%m-%d %H:%M}({zone})",
                f"NUMBER OF FREQUENCIES              = {nf:7d}",
                f"NUMBER OF RESOLVABLE FREQUENCIES   = {nz[-1] - nz[0] + 1:7d}",
                "INITIAL FREQUENCY (Hz)             = " + _tok("{:7.3f}", case["f0"]),
                "FREQUENCY SPACING (Hz)             = " + _tok("{:7.3f}", case["df"]),
                "RESOLVABLE FREQUENCY RANGE (Hz)    = "
                + f"{case['freq'][nz[0]]:7.3f}  TO {case['freq'][nz[-1]]:6.3f}",
                f"NUMBER OF DIRECTIONS               = {len(case['dir']):7d}",
                f"DIRECTION SPACING (DEG)            = {case['ddir']:7d}",
                "COLUMNS = 0.00 TO 360.00 DEG",
                f"ROWS\t= {case['freq'][0]:.2f} TO {case['freq'][-1]:6.2f} Hz",
            ]
            for i in range(nf):
                L.append("".join(" " + _tok("{:.5E}", float(v)) for v in rows[i]))
            ext = "DIRSPEC"
        else:
            L += [
                "VERSION = WV",
                "TYPE    = NON-DIRECTIONAL SPECTRUM",
                f"DATE    = {local:%Y-%m-%d %H:%M}({zone})",
                f"NUMBER OF FREQUENCIES              = {nf:4d}",
                "INITIAL FREQUENCY (Hz)             = " + _tok("{:7.3f}", case["f0"]),
                "FREQUENCY SPACING (Hz)             = " + _tok("{:7.3f}", case["df"]),
                "COLUMN 1 = FREQUENCY (Hz)",
                "COLUMN 2 = SPECTRAL DENSITY (M^2/Hz)",
            ]
            for i in range(nf):
                L.append(_tok("{:.3f}", case["freq"][i]) + "  " + _tok("{:.7E}", float(rows[i])))
            ext = "NONDIRSPEC"
        # vendor style names carry the time stamp (name order is time order); "seq" names number the files in the order they were
        # written, which is the record order of the case and need not be time order
        p = os.path.join(outdir, (f"rec{it:03d}.{ext}" if case.get("names") == "seq" else f"{_py(t):%Y%m%d%H%M}.{ext}"))
        with open(p, "w") as f:
            f.write("\n".join(L) + "\n")
        paths.append(p)
    return paths


def read_triaxys(arg, case, oned=False):
    from wavespectra import read_triaxys as rd

    return rd(arg, toff=case["toff"])


def expected_triaxys(case):
    exp, idx = _exp_base(case)
    exp["efth"] = np.asarray(case["E"])[idx]
    if case["directional"]:
        exp["dir"] = np.array(case["dir"])
        exp["notes"].append("dir holds both 0 and 360 (file columns 0..360 inclusive)")
    exp["lon"], exp["lat"] = case["lon"], case["lat"]
    return exp


# =====================================================================================
# 2. NDBC ASCII (realtime and history; 1-D from spec, 2-D from spec/alpha1/alpha2/r1/r2)
# =====================================================================================
# realtime (samples 41010.data_spec/.swdir/.swdir2/.swr1/.swr2):
#   header '#YY  MM DD hh mm Sep_Freq  < spec_1 (freq_1) ... >'  (ends with '>')
#   rows NEWEST FIRST: 'YYYY MM DD hh mm sep spec (freq) spec (freq) ... '
#   spec %.3f m2/Hz, alpha %.1f deg, r %.2f (dimensionless), 999.0/999.00 = missing
# history (samples 41010[wdijk]2019part.txt.gz, 44004w2000.txt):
#   header '#YY  MM DD hh mm  .0200  .0325 ...' or 'YYYY MM DD hh   .030 ...'
#   rows oldest first; swden %.2f, alpha integer deg, r1 r2 INTEGER HUNDREDTHS
#   (NDBC: "R1 and R2 in the historical files are scaled by 100").
# case keys: style ('realtime'|'history'), minutes (bool), directional (bool), gz,
#   E[record,freq] (m2/Hz), a1,a2 (deg), r1,r2 (TRUE dimensionless value), sep (realtime)
def random_ndbc_ascii(rng, ntimes=None, nfreq=None, style=None, minutes=None,
                      directional=None, shuffle=None, gz=None, missing=None, **_):
    ntimes = ntimes or rng.randint(1, 4)
    nfreq = nfreq or rng.randint(2, 6)
    style = style or rng.choice(["realtime", "history"])
    directional = rng.random() < 0.6 if directional is None else directional
    if style == "realtime":
        minutes = True
        gz = False
        kf, ke = 3, 3
    else:
        minutes = rng.random() < 0.5 if minutes is None else minutes
        gz = rng.random() < 0.5 if gz is None else gz
        kf, ke = (4, 2) if minutes else (3, 2)
    freq = _freqs(rng, nfreq, kf)
    step = [3600, 7200, 10800] if not minutes else [1800, 3600, 600]
    asc, times = _times(rng, ntimes, step, shuffle=False)
    if not minutes:
        asc = [t.astype("datetime64[h]").astype("datetime64[s]") for t in asc]
    if shuffle is None:
        shuffle = rng.random() < 0.5
    if shuffle:
        order = list(range(ntimes))
        rng.shuffle(order)
        times = [asc[i] for i in order]
    else:  # vendor order
        times = asc[::-1] if style == "realtime" else list(asc)
    E = np.vectorize(lambda n: dec(int(n), ke))(_ints(rng, (ntimes, nfreq), 5000)).astype(float)
    a1 = np.array([[float(rng.randrange(0, 360)) for _ in range(nfreq)] for _ in range(ntimes)])
    a2 = np.array([[float(rng.randrange(0, 360)) for _ in range(nfreq)] for _ in range(ntimes)])
    r1 = np.array([[dec(rng.randrange(5, 95), 2) for _ in range(nfreq)] for _ in range(ntimes)])
    r2 = np.array([[dec(rng.randrange(2, 60), 2) for _ in range(nfreq)] for _ in range(ntimes)])
    sep = [dec(rng.randrange(100, 300), 3) for _ in range(ntimes)]
    missing = (rng.random() < 0.5) if missing is None else missing
    return dict(fmt="ndbc_ascii", times=times, freq=freq, dir=None, E=E, a1=a1, a2=a2,
                r1=r1, r2=r2, sep=sep, style=style, minutes=minutes, gz=gz,
                directional=directional, missing=missing and style == "realtime",
                station="41010",
                label=f"{style} {'2D' if directional else '1D'} "
                      f"{'mm' if minutes else 'no-mm'}{' gz' if gz else ''}"
                      f"{' shuffled' if shuffle else ''}")


def _ndbc_date(t, minutes):
    d = _py(t)
    s = f"{d:%Y %m %d %H}"
    return s + f" {d:%M}" if minutes else s


def encode_ndbc_ascii(case, outdir):
    nt, nf = case["E"].shape
    st = case["station"]
    freq = case["freq"]
    files = []
    if case["style"] == "realtime":
        specs = [
            ("data_spec", "spec", case["E"], "{:.3f}", None),
            ("swdir", "alpha1", case["a1"], "{:.1f}", "999.0"),
            ("swdir2", "alpha2", case["a2"], "{:.1f}", "999.0"),
            ("swr1", "r1", case["r1"], "{:.2f}", "999.00"),
            ("swr2", "r2", case["r2"], "{:.2f}", "999.00"),
        ]
        for ext, nm, arr, fm, miss in specs:
            hd = "#YY  MM DD hh mm "
            if nm == "spec":
                hd += "Sep_Freq  < "
            hd += " ".join(f"{nm}_{i} (freq_{i})" for i in (1, 2, 3)) + " ... >"
            L = [hd]
            for it, t in enumerate(case["times"]):
                row = _ndbc_date(t, True) + " "
                if nm == "spec":
                    row += _tok("{:.3f}", case["sep"][it]) + " "
                for i in range(nf):
                    if miss and case["missing"] and case["E"][it, i] == 0:
                        v = miss
                    else:
                        v = _tok(fm, float(arr[it, i]))
                    row += v + " (" + _tok("{:.3f}", freq[i]) + ") "
                L.append(row)
            p = os.path.join(outdir, f"{st}.{ext}")
            with open(p, "w") as f:
                f.write("\n".join(L) + "\n")
            files.append(p)
            if not case["directional"]:
                break
    else:
        mm = case["minutes"]
        if mm:
            hd = "#YY  MM DD hh mm" + "".join("  " + _tok("{:.4f}", f)[1:] for f in freq)
        else:
            hd = "YYYY MM DD hh" + "".join("   " + _tok("{:.3f}", f)[1:] for f in freq)
        specs = [
            ("w", case["E"], "f"),
            ("d", case["a1"], "i"),
            ("i", case["a2"], "i"),
            ("j", case["r1"] * 100, "i"),
            ("k", case["r2"] * 100, "i"),
        ]
        year = _py(min(case["times"])).year
        for letter, arr, kind in specs:
            L = [hd + "  "]
            for it, t in enumerate(case["times"]):
                row = _ndbc_date(t, mm)
                for i in range(nf):
                    if kind == "f":
                        s = _tok("{:7.2f}", float(arr[it, i]))
                        if not mm:  # old files print ' .12' without the leading zero
                            s = s.replace(" 0.", "  .")
                        row += s
                    else:
                        row += f"{int(round(float(arr[it, i]))):7d}"
                L.append(row + ("  " if mm else ""))
            name = f"{st}{letter}{year}.txt" + (".gz" if case["gz"] else "")
            p = os.path.join(outdir, name)
            data = "\n".join(L) + "\n"
            if case["gz"]:
                with gzip.open(p, "wt") as f:
                    f.write(data)
            else:
                with open(p, "w") as f:
                    f.write(data)
            files.append(p)
            if not case["directional"]:
                break
    return files if case["directional"] else files[0]


def read_ndbc_ascii(arg, case, oned=False):
    from wavespectra import read_ndbc_ascii as rd

    if oned and isinstance(arg, list):
        arg = arg[0]
    return rd(arg)


def expected_ndbc_ascii(case):
    exp, idx = _exp_base(case)
    E = np.asarray(case["E"])[idx]
    exp["notes"].append("reader returns freq as float32 and keeps a dummy dir=[0.] for 1-D")
    if not case["directional"]:
        exp["efth"] = E
        return exp
    dirs = np.arange(0, 360, 10.0)
    a1, a2 = case["a1"][idx][..., None], case["a2"][idx][..., None]
    r1, r2 = case["r1"][idx][..., None], case["r2"][idx][..., None]
    th = dirs[None, None, :]
    D = (0.5 + r1 * np.cos(D2R * (th - a1)) + r2 * np.cos(2 * D2R * (th - a2))) / np.pi
    efth = E[..., None] * D * D2R
    efth = np.where(E[..., None] == 0, 0.0, efth)  # 999 = missing only where spec is 0
    exp.update(dir=dirs, ef=E, efth=efth, oned=True)
    exp["notes"].append("efth = NDBC formula with r1,r2 dimensionless (history files: /100)")
    return exp


# =====================================================================================
# 3. SPOTTER (CSV and JSON)
# =====================================================================================
# CSV (samples spotter_20210929*.csv): one header row 'Name (unit) ,' then one row per
#   record, NEWEST FIRST. Columns: 13 bulk parameters (Epoch Time = unix seconds UTC),
#   f_i, df_i, a1_i, b1_i, a2_i, b2_i, varianceDensity_i (m2/Hz), direction_i
#   (deg, coming from = 270 - atan2(b1,a1)), directionalSpread_i (deg =
#   sqrt(2(1-sqrt(a1^2+b1^2)))), then wind / temperature / partition columns ('-').
# JSON (sample spotter_20180214.json): {"data": {"spotterId","limit","waves":[...],
#   "frequencyData":[{frequency, df, a1, b1, a2, b2, varianceDensity, direction,
#   directionalSpread, timestamp, latitude, longitude}]}}; every spectrum carries ITS
#   OWN timestamp (in the sample it is one hour before the bulk `waves` timestamp).
# case keys: E[record,freq] m2/Hz, a1,b1,a2,b2, dmf, dsprf, lat[record], lon[record],
#   files (list of lists of record indices: several files concatenated in time),
#   spec_time_offset (JSON: seconds between frequencyData and waves timestamps)
def _random_spotter(rng, fmt, ntimes=None, nfreq=None, nfiles=None, shuffle=True,
                    spec_time_offset=0, **_):
    nfiles = nfiles or rng.choice([1, 1, 2])
    ntimes = ntimes or rng.randint(max(1, nfiles), 4)
    ntimes = max(ntimes, nfiles)
    nfreq = nfreq or rng.randint(2, 6)
    freq = _freqs(rng, nfreq, 5, lo=3000, hi=6000, steps=(977, 1954, 2930))
    asc, __ = _times(rng, ntimes, [1800, 3600, 10800], second_res=True)
    # consecutive blocks of the ascending times go to consecutive files
    cuts = sorted(rng.sample(range(1, ntimes), nfiles - 1)) if nfiles > 1 else []
    blocks = [list(b) for b in np.split(np.arange(ntimes), cuts)]
    order = []
    files = []
    for b in blocks:
        b = b[::-1]  # vendor: newest first
        if shuffle and len(b) > 1:
            rng.shuffle(b)
        files.append(list(range(len(order), len(order) + len(b))))
        order += [int(i) for i in b]
    times = [asc[i] for i in order]
    shp = (ntimes, nfreq)
    E = np.vectorize(lambda n: dec(int(n), 8))(_ints(rng, shp, 90000000, 0.1)).astype(float)
    a1 = np.vectorize(lambda n: dec(int(n), 6))(_ints(rng, shp, 600000, 0) - 300000)
    b1 = np.vectorize(lambda n: dec(int(n), 6))(_ints(rng, shp, 600000, 0) - 300000)
    a2 = np.vectorize(lambda n: dec(int(n), 6))(_ints(rng, shp, 600000, 0) - 300000)
    b2 = np.vectorize(lambda n: dec(int(n), 6))(_ints(rng, shp, 600000, 0) - 300000)
    dmf = (270.0 - np.degrees(np.arctan2(b1, a1))) % 360.0
    dsprf = np.degrees(np.sqrt(2 * (1 - np.sqrt(a1**2 + b1**2))))
    lat = [dec(3673000 + rng.randrange(0, 2000), 5) for _ in range(ntimes)]
    lon = [-dec(12188000 + rng.randrange(0, 2000), 5) for _ in range(ntimes)]
    return dict(fmt=fmt, times=times, freq=freq, dir=None, E=E, a1=a1, b1=b1, a2=a2,
                b2=b2, dmf=dmf, dsprf=dsprf, lat=lat, lon=lon, files=files,
                spec_time_offset=spec_time_offset,
                label=f"{nfiles} file(s){' shuffled' if shuffle else ''}"
                      + (f" spec-timestamp{spec_time_offset:+d}s" if spec_time_offset else ""))


def random_spotter_csv(rng, **opts):
    opts.pop("spec_time_offset", None)
    return _random_spotter(rng, "spotter_csv", **opts)


def random_spotter_json(rng, **opts):
    return _random_spotter(rng, "spotter_json", **opts)


def _df_of(freq):
    f = np.asarray(freq)
    if len(f) == 1:
        return np.array([0.00977])
    d = np.gradient(f)
    return np.round(d, 5)


def encode_spotter_csv(case, outdir):
    nf = len(case["freq"])
    df = _df_of(case["freq"])
    head = ["Battery Voltage (V) ", "Power (W) ", "Humidity (%rel) ", "Epoch Time ",
            "Significant Wave Height (m) ", "Peak Period (s) ", "Mean Period (s) ",
            "Peak Direction (deg) ", "Peak Directional Spread (deg) ",
            "Mean Direction (deg) ", "Mean Directional Spread (deg) ",
            "Latitude (deg) ", "Longitude (deg) "]
    for nm, w in (("f", 7), ("df", 8), ("a1", 10), ("b1", 10), ("a2", 10), ("b2", 10),
                  ("varianceDensity", 22), ("direction", 21), ("directionalSpread", 20)):
        head += [f"{nm}_{i}".ljust(w) + " " for i in range(nf)]
    head += ["Wind Speed (m/s) ", "Wind Direction (deg) ", "Surface Temperature (°C) "]
    for p in (0, 1):
        head += [f"Partition{p} Start Frequency (hz) ", f"Partition{p} End Frequency (hz) ",
                 f"Partition{p} Significant Wave Height (m) ", f"Partition{p} Mean Period (s) ",
                 f"Partition{p} Mean Direction (deg) ",
                 f"Partition{p} Mean Directional Spread (deg) "]
    head[-1] = head[-1].rstrip()
    paths = []
    for k, recs in enumerate(case["files"]):
        L = [",".join(head)]
        for r in recs:
            E = case["E"][r]
            m0 = float(np.sum(E * df))
            epoch = int(case["times"][r].astype("datetime64[s]").astype("int64"))
            ip = int(np.argmax(E))
            row = ["4.07", "-0.33", "56.8", str(epoch), f"{4 * math.sqrt(m0):.3f}",
                   f"{1 / case['freq'][ip]:.3f}", "8.113", f"{case['dmf'][r][ip]:.3f}",
                   f"{case['dsprf'][r][ip]:.3f}", "290.361", "28.026",
                   _tok("{:.5f}", case["lat"][r]), _tok("{:.5f}", case["lon"][r])]
            row += [repr(float(v)) for v in case["freq"]]
            row += [repr(float(v)) for v in df]
            for key in ("a1", "b1", "a2", "b2", "E", "dmf", "dsprf"):
                row += [repr(float(v)) for v in case[key][r]]
            row += ["4.80", "285.71", "15.38"] + ["-"] * 12
            # pad every cell to the width of its header cell, trailing blank as vendor
            cells = [c.rjust(len(h) - 1) + " " if i < 13 else c.ljust(len(h) - 1) + " "
                     for i, (c, h) in enumerate(zip(row, head))]
            cells[-1] = cells[-1].rstrip()
            L.append(",".join(cells))
        t0 = _py(min(case["times"][r] for r in recs))
        p = os.path.join(outdir, f"spotter_{t0:%Y%m%d%H%M%S}_{k}.csv")
        with open(p, "w", encoding="utf-8") as f:
            f.write("\n".join(L) + "\n")
        paths.append(p)
    return sorted(paths)


def _iso(t):
    return f"{_py(t):%Y-%m-%dT%H:%M:%S}.000Z"


def encode_spotter_json(case, outdir):
    df = _df_of(case["freq"])
    paths = []
    for k, recs in enumerate(case["files"]):
        waves, fdata = [], []
        for r in recs:
            E = case["E"][r]
            ip = int(np.argmax(E))
            tspec = case["times"][r]
            twave = tspec - np.timedelta64(int(case["spec_time_offset"]), "s")
            waves.append({
                "significantWaveHeight": round(4 * math.sqrt(float(np.sum(E * df))), 2),
                "peakPeriod": round(1 / case["freq"][ip], 2), "meanPeriod": 8.73,
                "peakDirection": round(float(case["dmf"][r][ip]), 2),
                "peakDirectionalSpread": round(float(case["dsprf"][r][ip]), 2),
                "meanDirection": 349.21, "meanDirectionalSpread": 69.95,
                "timestamp": _iso(twave), "latitude": case["lat"][r],
                "longitude": case["lon"][r]})
            fdata.append({
                "frequency": [float(v) for v in case["freq"]],
                "df": [float(v) for v in df],
                "a1": [float(v) for v in case["a1"][r]],
                "b1": [float(v) for v in case["b1"][r]],
                "a2": [float(v) for v in case["a2"][r]],
                "b2": [float(v) for v in case["b2"][r]],
                "varianceDensity": [float(v) for v in E],
                "direction": [float(v) for v in case["dmf"][r]],
                "directionalSpread": [float(v) for v in case["dsprf"][r]],
                "timestamp": _iso(tspec), "latitude": case["lat"][r],
                "longitude": case["lon"][r]})
        doc = {"data": {"spotterId": "SPOT-0070", "limit": 100, "waves": waves,
                        "frequencyData": fdata}}
        t0 = _py(min(case["times"][r] for r in recs))
        p = os.path.join(outdir, f"spotter_{t0:%Y%m%d%H%M%S}_{k}.json")
        with open(p, "w") as f:
            json.dump(doc, f, separators=(",", ":"))
        paths.append(p)
    return sorted(paths)


def _read_spotter(arg, case, oned=False):
    from wavespectra import read_spotter as rd

    return rd(arg, dd=None if oned else 5.0)


read_spotter_csv = _read_spotter
read_spotter_json = _read_spotter


def _expected_spotter(case):
    exp, idx = _exp_base(case)
    exp.update(ef=np.asarray(case["E"])[idx], dir=np.arange(0, 360, 5.0), oned=True,
               lat=np.array(case["lat"])[idx], lon=np.array(case["lon"])[idx])
    if case["fmt"] == "spotter_json":
        exp["notes"].append("time = timestamp of each frequencyData entry (its own field)")
    return exp


expected_spotter_csv = _expected_spotter
expected_spotter_json = _expected_spotter


# =====================================================================================
# 4. DATAWELL SPT  (one file per time; site and time come from the FILE NAME)
# =====================================================================================
# Layout (samples datawell/buoy}2024-09-09T01h15Z.spt), CRLF line ends:
#   12 header lines: tn, Hs[cm], Tz[s], Smax[m2/Hz] (d.ddddE-e), Tref, Tsea, Bat, Av,
#   Ax, Ay, Ori, Incli; then one row per frequency:
#   f[Hz] %.3f, S(f)/Smax d.ddddE-e, Dir[deg] %.1f, Spread[deg] %.1f, Skew, Kurt %.2f
#   File name '<site>}YYYY-MM-DDTHHhMMZ.spt' (UTC, whole minutes).
# case keys: smax[record], N[record,freq] (normalised), E = N*smax, dmf, dsprf,
#            site, lon, lat (passed to the reader as keyword: not in the file)
def _sci(v, nd=4):
    """Datawell style exponent: 5.4183E-1, 1.0000E+0"""
    m, e = f"{v:.{nd}E}".split("E")
    return f"{m}E{'+' if int(e) >= 0 else '-'}{abs(int(e))}"


def random_datawell(rng, ntimes=None, nfreq=None, shuffle=True, **_):
    ntimes = ntimes or rng.randint(1, 4)
    nfreq = nfreq or rng.randint(2, 6)
    freq = _freqs(rng, nfreq, 3, lo=25, hi=60, steps=(5, 10))
    __, times = _times(rng, ntimes, [1740, 1800, 3600], shuffle=shuffle)
    smax = [dec(rng.randrange(10000, 99999), 4 + rng.randrange(0, 3)) for _ in range(ntimes)]
    N = np.zeros((ntimes, nfreq))
    for i in range(ntimes):
        for j in range(nfreq):
            N[i, j] = dec(rng.randrange(10000, 99999), 4 + rng.randrange(1, 5))
        N[i, rng.randrange(nfreq)] = 1.0
    dmf = np.array([[dec(rng.randrange(0, 3600), 1) for _ in range(nfreq)] for _ in range(ntimes)])
    dsprf = np.array([[dec(rng.randrange(100, 790), 1) for _ in range(nfreq)] for _ in range(ntimes)])
    E = N * np.array(smax)[:, None]
    return dict(fmt="datawell", times=times, freq=freq, dir=None, E=E, N=N, smax=smax,
                dmf=dmf, dsprf=dsprf, site="buoy" + str(rng.randrange(10, 99)),
                lon=dec(rng.randrange(-1800, 1800), 1), lat=dec(rng.randrange(-800, 800), 1),
                label=f"{ntimes} file(s){' shuffled list' if shuffle else ''}")


def encode_datawell(case, outdir):
    paths = []
    for it, t in enumerate(case["times"]):
        sm = case["smax"][it]
        assert float(_sci(sm)) == sm
        m0 = float(np.sum(case["E"][it] * np.gradient(case["freq"]))) if len(case["freq"]) > 1 else 0.0
        L = ["10", f"{400 * math.sqrt(max(m0, 0)):.1f}", "4.545", _sci(sm), "25.05", "19.65",
             "7", "-0.17625", "0.37500", "0.26250", "213.8", "68.203"]
        for j, f in enumerate(case["freq"]):
            n = float(case["N"][it, j])
            assert float(_sci(n)) == n
            L.append(",".join([_tok("{:.3f}", f), _sci(n),
                               _tok("{:.1f}", float(case["dmf"][it, j])),
                               _tok("{:.1f}", float(case["dsprf"][it, j])), "0.11", "2.17"]))
        d = _py(t)
        p = os.path.join(outdir, f"{case['site']}}}{d:%Y-%m-%dT%Hh%MZ}.spt")
        with open(p, "w", newline="") as f:
            f.write("\r\n".join(L) + "\r\n")
        paths.append(p)
    return paths


def read_datawell(arg, case, oned=False):
    from wavespectra import read_datawell as rd

    return rd(arg, dd=None if oned else 5.0, lon=case["lon"], lat=case["lat"])


def expected_datawell(case):
    exp, idx = _exp_base(case)
    exp.update(ef=np.asarray(case["E"])[idx], dir=np.arange(0, 360, 5.0), oned=True,
               lon=case["lon"], lat=case["lat"], site=case["site"])
    exp["notes"].append("ef = column2 * Smax; lon/lat are reader keywords, not file content")
    return exp


# =====================================================================================
# 5. OBSCAPE CSV (one file per time)
# =====================================================================================
# Layout (samples obscape/*.csv): '# key = value' header lines, among them
#   '# Timestamp = <unix seconds UTC>', '# Timestring' (LOCAL time of '# Timezone'),
#   '# Columns [deg] = 0,3,6,... 357' (abbreviated), '# Rows [Hz] = f1,f2,...' (%.6f),
#   '# Variance-density [m2/Hz/rad]', then one CSV row per frequency, one column per
#   direction, %.4f, PER RADIAN.
# case keys: E[record,freq,dir] (m2/Hz/rad), dd, lat, lon, tz_hours
def random_obscape(rng, ntimes=None, nfreq=None, ndir=None, shuffle=True, **_):
    ntimes = ntimes or rng.randint(1, 4)
    nfreq = nfreq or rng.randint(2, 6)
    ndir = ndir or rng.choice([4, 6, 8, 12])
    dd = 360 // ndir
    freq = _freqs(rng, nfreq, 6, lo=40000, hi=60000, steps=(6104, 12207, 18311))
    __, times = _times(rng, ntimes, [1800, 3600], second_res=True, shuffle=shuffle)
    E = np.vectorize(lambda n: dec(int(n), 4))(_ints(rng, (ntimes, nfreq, ndir), 50000)).astype(float)
    return dict(fmt="obscape", times=times, freq=freq, dir=[float(i * dd) for i in range(ndir)],
                E=E, dd=dd, lat=dec(rng.randrange(-800000, 800000), 4),
                lon=dec(rng.randrange(-1800000, 1800000), 4), tz_hours=rng.choice([0, 1, 2]),
                label=f"{ntimes} file(s) dd={dd}{' shuffled list' if shuffle else ''}")


def encode_obscape(case, outdir):
    paths = []
    d = [int(v) for v in case["dir"]]
    cols = f"{d[0]},{d[1]},{d[2]},... {d[-1]}"
    tzname = {0: "UTC", 1: "Etc/GMT-1", 2: "Etc/GMT-2"}[case["tz_hours"]]
    for it, t in enumerate(case["times"]):
        utc = _py(t)
        local = utc + _dt.timedelta(hours=case["tz_hours"])
        epoch = int(t.astype("datetime64[s]").astype("int64"))
        L = [f"# Downloaded at {utc + _dt.timedelta(days=3):%Y-%m-%d %H:%M:%S} [UTC]",
             "# Station name = Reference encoder", "# Device type = Wavebuoy",
             "# Device serial = 123456",
             "# Latitude [deg] = " + _tok("{:.4f}", case["lat"]),
             "# Longitude [deg] = " + _tok("{:.4f}", case["lon"]),
             f"# Timestamp = {epoch}", f"# Timestring = {local:%Y-%m-%d %H:%M:%S}",
             f"# Timezone = {tzname}", "# Magnetic declination (corrected) [deg] = 3.14",
             "# Directions = True North", "# ", f"# Columns [deg] = {cols}",
             "# Rows [Hz] = " + ",".join(_tok("{:.6f}", f) for f in case["freq"]),
             "# Variance-density [m2/Hz/rad]"]
        for j in range(len(case["freq"])):
            L.append(",".join(_tok("{:.4f}", float(v)) for v in case["E"][it, j]))
        p = os.path.join(outdir, f"{utc:%Y%m%d_%H%M%S}_Obscape2d_ref.csv")
        with open(p, "w") as f:
            f.write("\n".join(L) + "\n")
        paths.append(p)
    return paths


def read_obscape(arg, case, oned=False):
    from wavespectra import read_obscape as rd

    return rd(arg)


def expected_obscape(case):
    exp, idx = _exp_base(case)
    exp.update(efth=np.asarray(case["E"])[idx] * D2R, dir=np.array(case["dir"]),
               lon=case["lon"], lat=case["lat"])
    exp["notes"].append("position is only returned as string attributes 'Latitude [deg]' ...")
    return exp


# =====================================================================================
# 6. WW3 STATION (ww3_outp spectral point output, type 1)
# =====================================================================================
# Layout (sample ww3station.spec):
#   'WAVEWATCH III SPECTRA' NK NTH NP 'spectral resolution for points'
#   NK frequencies, 8 per line, Fortran E10.3 (' 0.350E-01')
#   NTH directions, 7 per line, E11.3, RADIANS. ww3_outp writes MOD(2.5*PI-TH,2*PI)
#   with TH the model's cartesian "going to" angle, i.e. the file holds NAUTICAL
#   GOING-TO directions; wavespectra's coming-from = (deg(th) + 180) % 360.
#   (derived from the reader: abs((th-2.5pi) % 2pi) -> deg + 270 == deg(th) + 180.)
#   per time : 'YYYYMMDD HHMMSS'
#   per point: "'name      '" lat lon depth wspd wdir cspd cdir  (A10,2F7.2,F10.1,2(F7.2,F6.1))
#              then ((E(ik,ith),ik=1,NK),ith=1,NTH), 7 per line E11.3, m2/Hz/rad
# case keys: E[record,loc,freq,dir] m2/Hz/rad (file order of dirs), dir = RADIANS as
#            printed, locs = [(name, lat, lon, depth)], wspd/wdir[record,loc]
def _fe(v, w, nd=3):
    """Fortran Ew.d : 0.dddE+ee"""
    if v == 0:
        s = "0." + "0" * nd + "E+00"
    else:
        m, e = f"{v:.{nd - 1}E}".split("E")
        s = "0." + m.replace(".", "").replace("-", "") + f"E{int(e) + 1:+03d}"
        if v < 0:
            s = "-" + s
    if float(s) != v:
        raise ValueError(f"{v!r} not representable as E{w}.{nd}: {s}")
    return s.rjust(w)


def _e3(rng, emin, emax, pzero=0.1):
    if rng.random() < pzero:
        return 0.0
    return float(f"0.{rng.randrange(100, 1000)}E{rng.randrange(emin, emax):+03d}")


def random_ww3_station(rng, ntimes=None, nfreq=None, ndir=None, nloc=1, shuffle=False, **_):
    ntimes = ntimes or rng.randint(1, 4)
    nfreq = nfreq or rng.randint(2, 6)
    ndir = ndir or rng.choice([4, 6, 8, 12])
    f = [rng.randrange(350, 500)]
    for __ in range(nfreq - 1):
        f.append(int(f[-1] * 1.1) + 1)
    freq = [float(f"0.{v}E-01") if v < 1000 else float(f"0.{v // 10}E+00") for v in f]
    off = rng.choice([0.0, 180.0 / ndir])
    th_cart = [off + i * 360.0 / ndir for i in range(ndir)]
    rad = [float(f"{math.radians((450.0 - t) % 360.0):.2E}") for t in th_cart]
    __, times = _times(rng, ntimes, [3600, 10800], shuffle=shuffle)
    E = np.array([[[[_e3(rng, -6, 1) for _d in range(ndir)] for _f in range(nfreq)]
                   for _l in range(nloc)] for _t in range(ntimes)])
    locs = []
    for i in range(nloc):
        locs.append((str(44001 + rng.randrange(0, 98)), dec(rng.randrange(-8000, 8000), 2),
                     dec(rng.randrange(-9900, 9900), 2), dec(rng.randrange(50, 5000), 1)))
    return dict(fmt="ww3_station", times=times, freq=freq, dir=rad, E=E, locs=locs,
                wspd=np.array([[dec(rng.randrange(0, 3000), 2) for _ in range(nloc)] for _ in range(ntimes)]),
                wdir=np.array([[dec(rng.randrange(0, 3600), 1) for _ in range(nloc)] for _ in range(ntimes)]),
                label=f"nloc={nloc}{' shuffled records' if shuffle else ''}")


def encode_ww3_station(case, outdir):
    nk, nth, npnt = len(case["freq"]), len(case["dir"]), len(case["locs"])
    L = [f"'WAVEWATCH III SPECTRA'{nk:6d}{nth:6d}{npnt:6d} 'spectral resolution for points'"]
    fr = [_fe(v, 10) for v in case["freq"]]
    L += ["".join(fr[i:i + 8]) for i in range(0, nk, 8)]
    dr = [_fe(v, 11) for v in case["dir"]]
    L += ["".join(dr[i:i + 7]) for i in range(0, nth, 7)]
    for it, t in enumerate(case["times"]):
        L.append(f"{_py(t):%Y%m%d %H%M%S}")
        for il, (name, lat, lon, dep) in enumerate(case["locs"]):
            L.append(f"'{name:<10s}'{lat:7.2f}{lon:7.2f}{dep:10.1f}"
                     f"{case['wspd'][it, il]:7.2f}{case['wdir'][it, il]:6.1f}{0.18:7.2f}{94.1:6.1f}")
            vals = [_fe(float(case["E"][it, il, ik, ith]), 11)
                    for ith in range(nth) for ik in range(nk)]  # frequency runs fastest
            L += ["".join(vals[i:i + 7]) for i in range(0, len(vals), 7)]
    p = os.path.join(outdir, "ww3station_ref.spec")
    with open(p, "w") as f:
        f.write("\n".join(L) + "\n")
    return p


def read_ww3_station(arg, case, oned=False):
    from wavespectra import read_ww3_station as rd

    return rd(arg)


def expected_ww3_station(case):
    exp, idx = _exp_base(case)
    E = np.asarray(case["E"])[idx] * D2R
    exp.update(dir=(np.degrees(np.array(case["dir"])) + 180.0) % 360.0,
               lon=np.array([l[2] for l in case["locs"]]),
               lat=np.array([l[1] for l in case["locs"]]))
    exp["efth"] = E[:, 0] if len(case["locs"]) == 1 else E
    exp["nloc"] = len(case["locs"])
    exp["notes"].append("dir printed with 3 significant digits in radians (+-0.3 deg)")
    return exp


# =====================================================================================
# 7. SWAN ASCII (SPECOUT ... SPEC2D) variants
# =====================================================================================
# Layout (SWAN user manual, appendix "Spectrum files"; sample swanfile.spec):
#   SWAN   1 / $ comment lines / [TIME + '1 time coding option'] /
#   LONLAT | LOCATIONS + n + n lines 'x y' /
#   AFREQ | RFREQ + n + n lines / NDIR | CDIR + n + n lines /
#   QUANT 1 / VaDens|EnDens / m2/Hz/degr | J/m2/Hz/degr / exception value /
#   per time: ['yyyymmdd.hhmmss'] then per location one of
#       NODATA | ZERO | FACTOR <factor> <nfreq rows of ndir integers (1X,I4)>
#   NDIR = nautical coming-from; CDIR = cartesian going-to: ndir = (270-cdir)%360.
#   SWAN lists directions as it stores them (e.g. 265, 255, ..., -85 for NDIR).
#   EnDens = rho*g*VaDens with SWAN's default rho=1025, g=9.81.
# case keys: E[record,loc,freq,dir] = integer table entries, fac[record][loc] (float or
#   'ZERO'/'NODATA'), dir = values as printed (NDIR or CDIR), x, y, time (bool), loc_kw,
#   freq_kw, dir_kw, quant ('VaDens'|'EnDens')
def random_swan(rng, ntimes=None, nfreq=None, ndir=None, nloc=None, time=None,
                loc_kw=None, freq_kw=None, dir_kw=None, quant=None, blocks=None,
                dir_style=None, shuffle=False, **_):
    time = rng.random() < 0.75 if time is None else time
    ntimes = (ntimes or rng.randint(1, 4)) if time else 1
    nfreq = nfreq or rng.randint(2, 6)
    ndir = ndir or rng.choice([4, 6, 8, 12])
    nloc = nloc or rng.randint(1, 3)
    loc_kw = loc_kw or rng.choice(["LONLAT", "LOCATIONS"])
    freq_kw = freq_kw or rng.choice(["AFREQ", "RFREQ"])
    dir_kw = dir_kw or rng.choice(["NDIR", "CDIR"])
    quant = quant or rng.choice(["VaDens", "EnDens"])
    dir_style = dir_style or rng.choice(["ascending", "swan", "rolled", "shuffled"])
    blocks = blocks or rng.choice(["FACTOR", "mixed"])
    freq = _freqs(rng, nfreq, 4, lo=300, hi=600, steps=(52, 59, 66, 75))
    dd = 360.0 / ndir
    if dir_style == "ascending":
        dirs = [dec(int(round((dd / 2 + i * dd) * 10000)), 4) for i in range(ndir)]
    elif dir_style == "rolled":  # ascending, but the list starts somewhere else on the circle (e.g. 90 ... 330, 0 ... 60)
        k = rng.randrange(1, ndir)
        base = [dec(int(round((dd / 2 + i * dd) * 10000)), 4) for i in range(ndir)]
        dirs = base[k:] + base[:k]
    elif dir_style == "shuffled":  # any order is a legal header: each column is labelled by its own line
        dirs = [dec(int(round((dd / 2 + i * dd) * 10000)), 4) for i in range(ndir)]
        rng.shuffle(dirs)
    else:  # as SWAN prints: starts near 270-dd/2 and decreases through negative values
        dirs = [dec(int(round((270 - dd / 2 - i * dd) * 10000)), 4) for i in range(ndir)]
    __, times = _times(rng, ntimes, [1800, 3600, 10800], second_res=True, shuffle=shuffle)
    E = _ints(rng, (ntimes, nloc, nfreq, ndir), 9999, 0.3).astype(float)
    fac = []
    for it in range(ntimes):
        row = []
        for il in range(nloc):
            kind = "FACTOR" if blocks == "FACTOR" else rng.choice(["FACTOR", "FACTOR", "ZERO", "NODATA"])
            if kind == "FACTOR":
                row.append(float(f"0.{rng.randrange(10000000, 99999999)}E{rng.randrange(-8, 0):+03d}"))
            else:
                row.append(kind)
                E[it, il] = 0.0 if kind == "ZERO" else np.nan
        fac.append(row)
    if loc_kw == "LONLAT":
        x = rng.sample([dec(n, 4) for n in range(1100000, 1790000, 12345)], nloc)
        y = rng.sample([dec(-n, 4) for n in range(100000, 600000, 12345)], nloc)
    else:
        x = rng.sample([dec(n, 2) for n in range(0, 5000000, 123457)], nloc)
        y = rng.sample([dec(n, 2) for n in range(0, 5000000, 123457)], nloc)
    return dict(fmt="swan", times=times, freq=freq, dir=dirs, E=E, fac=fac, x=x, y=y,
                time=time, loc_kw=loc_kw, freq_kw=freq_kw, dir_kw=dir_kw, quant=quant,
                name="swanref",
                label=f"{'TIME' if time else 'noTIME'} {loc_kw} {freq_kw} {dir_kw}"
                      f"({dir_style}) {quant} blocks={blocks} nloc={nloc}"
                      f"{' shuffled records' if shuffle else ''}")


def encode_swan(case, outdir):
    L = [f"{'SWAN   1':40}Swan standard spectral file, version",
         "$   Data produced by SWAN version 41.31",
         "$   Project: reference encoder  ;  run number: 01"]
    if case["time"]:
        L += [f"{'TIME':40}time-dependent data", f"{1:6d}{'':34}time coding option"]
    if case["loc_kw"] == "LONLAT":
        L.append(f"{'LONLAT':40}locations in spherical coordinates")
        L.append(f"{len(case['x']):6d}{'':34}number of locations")
        L += [_tok("{:12.4f}", x) + _tok("{:12.4f}", y) for x, y in zip(case["x"], case["y"])]
    else:
        L.append(f"{'LOCATIONS':40}locations in x-y-space")
        L.append(f"{len(case['x']):6d}{'':34}number of locations")
        L += [_tok("{:13.2f}", x) + _tok("{:13.2f}", y) for x, y in zip(case["x"], case["y"])]
    if case["freq_kw"] == "AFREQ":
        L.append(f"{'AFREQ':40}absolute frequencies in Hz")
    else:
        L.append(f"{'RFREQ':40}relative frequencies in Hz")
    L.append(f"{len(case['freq']):6d}{'':34}number of frequencies")
    L += [_tok("{:10.4f}", f) for f in case["freq"]]
    if case["dir_kw"] == "NDIR":
        L.append(f"{'NDIR':40}spectral nautical directions in degr")
    else:
        L.append(f"{'CDIR':40}spectral Cartesian directions in degr")
    L.append(f"{len(case['dir']):6d}{'':34}number of directions")
    L += [_tok("{:10.4f}", d) for d in case["dir"]]
    L += ["QUANT", f"{1:6d}{'':34}number of quantities in table"]
    if case["quant"] == "VaDens":
        L += [f"{'VaDens':40}variance densities in m2/Hz/degr", f"{'m2/Hz/degr':40}unit"]
    else:
        L += [f"{'EnDens':40}energy densities in J/m2/Hz/degr", f"{'J/m2/Hz/degr':40}unit"]
    L.append(f"{'   -0.9900E+02':40}exception value")
    for it, t in enumerate(case["times"]):
        if case["time"]:
            L.append(f"{format(_py(t), '%Y%m%d.%H%M%S'):40}date and time")
        for il in range(len(case["x"])):
            fac = case["fac"][it][il]
            if isinstance(fac, str):
                L.append(fac)
                continue
            L.append("FACTOR")
            L.append("    " + _fe(fac, 15, 8))
            for row in case["E"][it, il]:
                L.append("".join(f" {int(v):4d}" for v in row))
    p = os.path.join(outdir, case["name"] + ".spec")
    with open(p, "w") as f:
        f.write("\n".join(L) + "\n")
    return p


def read_swan(arg, case, oned=False):
    from wavespectra import read_swan as rd

    return rd(arg, **case.get("read_kw", {}))


def expected_swan(case):
    exp, idx = _exp_base(case)
    nt, nl = len(case["times"]), len(case["x"])
    E = np.array(case["E"], dtype=float)
    for it in range(nt):
        for il in range(nl):
            fac = case["fac"][it][il]
            if not isinstance(fac, str):
                E[it, il] = E[it, il] * fac
    if case["quant"] == "EnDens":
        E = E / RHO_G
    d = np.array(case["dir"])
    d = d % 360.0 if case["dir_kw"] == "NDIR" else (270.0 - d) % 360.0
    exp.update(efth=E[idx], dir=d, lon=np.array(case["x"]), lat=np.array(case["y"]), nloc=nl,
               per_loc=True)
    if not case["time"]:
        exp["time"] = None
        exp["notes"].append("file has no TIME: reader invents 'now' as time stamp")
    return exp


# =====================================================================================
# 8. XWAVES MAT  (no vendor sample in the repository: layout taken from the reader)
# =====================================================================================
#   td     (nt, 6)  date vectors [Y M D h m s]
#   fd     (nf, 1)  Hz ; thetad (1, nd) deg ; spec2d (nt, nf, nd) m2/Hz/RAD
# case keys: E[record,freq,dir] m2/Hz/rad, td_dtype ('int32' | 'double': MATLAB's
#            datevec is double unless cast)
def random_xwaves(rng, ntimes=None, nfreq=None, ndir=None, shuffle=False, td_dtype="int32", **_):
    ntimes = ntimes or rng.randint(1, 4)
    nfreq = nfreq or rng.randint(2, 6)
    ndir = ndir or rng.choice([4, 6, 8, 12])
    freq = _freqs(rng, nfreq, 4, lo=300, hi=600, steps=(50, 100, 125))
    dd = 360 // ndir
    __, times = _times(rng, ntimes, [1800, 3600], second_res=True, shuffle=shuffle)
    E = np.vectorize(lambda n: dec(int(n), 5))(_ints(rng, (ntimes, nfreq, ndir), 500000)).astype(float)
    return dict(fmt="xwaves", times=times, freq=freq, dir=[float(i * dd) for i in range(ndir)],
                E=E, td_dtype=td_dtype,
                label=f"td={td_dtype}{' shuffled records' if shuffle else ''}")


def encode_xwaves(case, outdir):
    from scipy.io import savemat

    td = np.array([[d.year, d.month, d.day, d.hour, d.minute, d.second]
                   for d in map(_py, case["times"])],
                  dtype=np.int32 if case["td_dtype"] == "int32" else np.float64)
    p = os.path.join(outdir, "xwaves_ref.mat")
    savemat(p, {"td": td, "fd": np.array(case["freq"])[:, None],
                "thetad": np.array(case["dir"])[None, :], "spec2d": np.asarray(case["E"])})
    return p


def read_xwaves(arg, case, oned=False):
    from wavespectra import read_xwaves as rd

    return rd(arg)


def expected_xwaves(case):
    exp, idx = _exp_base(case)
    exp.update(efth=np.asarray(case["E"])[idx] * D2R, dir=np.array(case["dir"]))
    return exp


# =====================================================================================
# 9. OCTOPUS
# =====================================================================================
# Layout (sample octopusfile.oct):
#   'Forecast valid for dd-Mon-YYYY HH:MM:SS' / nfreqs,N / ndir,N / nrecs,N /
#   'Latitude, %.4f' / 'Longitude, %.4f' / 'Depth,%.6f' / blank, then per record:
#     CCYYMM,DDHHmm,LPoint,WD,WS,ETot,TZ,...,Tau                (column names)
#     YYYYMM,'DDHHMM,name,wd,ws,etot,...                         (20 fields)
#     freq,f1,...,fN,anspec
#     one row per direction: dir,c1,...,cN,anspec,   c = E(f,th)*df*dd in m2, %.5f
#     fSpec,s1,...,sN,     s = sum over directions (m2)
#     den,d1,...,dN,       d = s/df (m2/Hz)
#     blank line (not after the last record)
#   The `den`/`fSpec` ratio of the sample gives df: central differences in the interior
#   and HALF the first / last difference at the two ends.
# case keys: C[record,dir,freq] cell values (m2), dfs (bin widths), wd, ws, lat, lon
def _oct_df(freq):
    f = np.asarray(freq, dtype=float)
    return np.hstack(((f[1] - f[0]) / 2, (f[2:] - f[:-2]) / 2, (f[-1] - f[-2]) / 2))


def random_octopus(rng, ntimes=None, nfreq=None, ndir=None, shuffle=False, edge_zero=None, **_):
    ntimes = ntimes or rng.randint(1, 4)
    nfreq = nfreq or rng.randint(2, 6)
    ndir = ndir or rng.choice([4, 6, 8, 12])
    edge_zero = rng.random() < 0.5 if edge_zero is None else edge_zero
    freq = _freqs(rng, nfreq, 5, lo=4000, hi=6000, steps=(520, 590, 660, 750))
    dd = 360 // ndir
    dirs = [float(dd // 2 + i * dd) for i in range(ndir)] if dd % 2 == 0 else \
        [float(i * dd) for i in range(ndir)]
    __, times = _times(rng, ntimes, [3600, 10800, 86400], shuffle=shuffle)
    C = np.vectorize(lambda n: dec(int(n), 5))(_ints(rng, (ntimes, ndir, nfreq), 3000)).astype(float)
    if edge_zero:
        C[:, :, 0] = 0.0
        C[:, :, -1] = 0.0
    return dict(fmt="octopus", times=times, freq=freq, dir=dirs, E=C, dd=float(dd),
                lat=dec(rng.randrange(-800000, 800000), 4), lon=dec(rng.randrange(0, 3590000), 4),
                wd=[rng.randrange(0, 360) for _ in range(ntimes)],
                ws=[dec(rng.randrange(0, 3000), 2) for _ in range(ntimes)],
                label=f"{'edge bins empty' if edge_zero else 'energy in edge bins'}"
                      f"{' shuffled records' if shuffle else ''}")


def encode_octopus(case, outdir):
    nf, nd, nt = len(case["freq"]), len(case["dir"]), len(case["times"])
    df = _oct_df(case["freq"])
    t0 = _py(min(case["times"]))
    L = [f"Forecast valid for {t0:%d-%b-%Y %H:%M:%S}", f"nfreqs,{nf}", f"ndir,{nd}",
         f"nrecs,{nt}", "Latitude, " + _tok("{:.4f}", case["lat"]),
         "Longitude, " + _tok("{:.4f}", case["lon"]), "Depth,102.328500"]
    for it, t in enumerate(case["times"]):
        d = _py(t)
        C = case["E"][it]
        fs = C.sum(axis=0)
        etot = float(fs.sum())
        L.append("")
        L.append("CCYYMM,DDHHmm,LPoint,WD,WS,ETot,TZ,VMD,ETotSe,TZSe,VMDSe,ETotSw,TZSw,"
                 "VMDSw,Mo1,Mo2,HSig,DomDr,AngSpr,Tau")
        L.append(f"{d:%Y%m},'{d:%d%H%M},ref_{d:%Y%m%d_%Hz},{case['wd'][it]:d},"
                 + _tok("{:.2f}", case["ws"][it])
                 + f",{etot:.4f},6.54,239.2,0.0287,3.87,221.1,0.0473,10.98,242.5,0.01146,"
                 f"0.00265,{4 * math.sqrt(etot):.4f},240,48,{it * 24}")
        L.append("freq," + ",".join(_tok("{:.5f}", f) for f in case["freq"]) + ",anspec")
        for i in range(nd):
            L.append(f"{case['dir'][i]:.0f}," + ",".join(_tok("{:.5f}", float(v)) for v in C[i])
                     + f",{C[i].sum():.5f},")
        L.append("fSpec," + ",".join(f"{v:.5f}" for v in fs) + ",")
        L.append("den," + ",".join(f"{v:.5f}" for v in fs / df) + ",")
    p = os.path.join(outdir, "octopus_ref.oct")
    with open(p, "w") as f:
        f.write("\n".join(L) + "\n")
    return p


def read_octopus(arg, case, oned=False):
    from wavespectra import read_octopus as rd

    return rd(arg)


def expected_octopus(case):
    exp, idx = _exp_base(case)
    df = _oct_df(case["freq"])
    C = np.asarray(case["E"])[idx]  # (time, dir, freq)
    efth = np.swapaxes(C, 1, 2) / (df[None, :, None] * case["dd"])
    exp.update(efth=efth, dir=np.array(case["dir"]), lon=case["lon"], lat=case["lat"],
               ef_den=C.sum(axis=1) / df)
    exp["notes"].append("df has HALF width at the first / last frequency (sample's den row)")
    return exp


# =====================================================================================
# case construction / dispatch
# =====================================================================================
def random_case(fmt, rng, **opts):
    """Build an abstract case for `fmt`. Options (all optional):
    ntimes (1..4), nfreq (2..6), ndir, shuffle (records / file list in arbitrary time
    order), nfiles (spotter: several files concatenated in time) and the header
    variants of each format (see the random_<fmt> signatures)."""
    if fmt not in FORMATS:
        raise ValueError(f"unknown format {fmt!r}")
    case = globals()["random_" + fmt](rng, **opts)
    case["opts"] = dict(opts)
    return case


def encode(case, outdir):
    return globals()["encode_" + case["fmt"]](case, outdir)


def read(arg, case, **kw):
    return globals()["read_" + case["fmt"]](arg, case, **kw)


def expected(case):
    return globals()["expected_" + case["fmt"]](case)


# =====================================================================================
# comparison of a dataset returned by a reader with an `expected` dict
# =====================================================================================
def _first_bad(g, e, rtol):
    g = np.asarray(g, dtype=float)
    e = np.asarray(e, dtype=float)
    if g.shape != e.shape:
        return f"shape {g.shape} != expected {e.shape}"
    bad = ~np.isclose(g, e, rtol=rtol, atol=1e-300, equal_nan=True)
    if not bad.any():
        return None
    i = tuple(int(k) for k in np.argwhere(bad)[0])
    return f"{int(bad.sum())}/{bad.size} values differ, first at {i}: got {g[i]!r} expected {e[i]!r}"


def _loc_slices(da, exp):
    """DataArray(s) of efth, one per expected location, dims (time,freq[,dir])."""
    n = exp.get("nloc", 1)
    out = []
    lon = np.atleast_1d(exp.get("lon", [None] * n))
    lat = np.atleast_1d(exp.get("lat", [None] * n))
    for j in range(n):
        d = da
        if exp.get("per_loc") or n > 1:
            if "site" in d.dims:
                d = d.isel(site=j)
            if "lat" in d.dims:
                d = d.sel(lat=float(lat[j]), lon=float(lon[j]), method="nearest", tolerance=1e-9)
        for dim in list(d.dims):
            if dim not in ("time", "freq", "dir") and d.sizes[dim] == 1:
                d = d.isel({dim: 0})
        out.append(d)
    return out


def compare(ds, exp, ds1d=None):
    """Return (fails, notes): lists of strings, empty `fails` means agreement."""
    fails, notes = [], list(exp.get("notes", []))
    # ---- time
    t = ds["time"].values
    if t.dtype.kind != "M":
        fails.append(f"time dtype {t.dtype}")
    else:
        tus = t.astype("datetime64[us]")
        if np.any(tus != tus.astype("datetime64[s]")):
            fails.append("time has sub-second part")
        ts = tus.astype("datetime64[s]")
        if exp["time"] is None:
            if ts.size != 1:
                fails.append(f"{ts.size} times for a file without time")
        elif ts.size != exp["time"].size:
            fails.append(f"{ts.size} times returned, {exp['time'].size} in file")
        elif not np.array_equal(ts, exp["time"]):
            if np.array_equal(np.sort(ts), exp["time"]):
                fails.append(f"times not sorted ascending (returned in file order): {ts}")
            else:
                i = int(np.argmax(ts != exp["time"]))
                fails.append(f"time[{i}] = {ts[i]} expected {exp['time'][i]}")
    # ---- freq
    f = np.asarray(ds["freq"].values, dtype=float)
    if f.shape != exp["freq"].shape:
        fails.append(f"{f.size} frequencies returned, {exp['freq'].size} in file: {f}")
    elif not np.allclose(f, exp["freq"], rtol=1e-6, atol=0):
        fails.append(f"freq {f} expected {exp['freq']}")
    # ---- dir
    da = ds["efth"]
    og = oe = None
    if exp["dir"] is None:
        if "dir" in da.dims:
            if da.sizes["dir"] == 1:
                notes.append("1-D spectrum returned with a dummy dir dimension of size 1")
                da = da.isel(dir=0)
            else:
                fails.append(f"1-D file returned with {da.sizes['dir']} directions")
    else:
        if "dir" not in da.dims:
            fails.append("no dir dimension returned")
        else:
            gd = np.asarray(ds["dir"].values, dtype=float)
            og, oe = np.argsort(gd, kind="stable"), np.argsort(exp["dir"], kind="stable")
            if gd.size != exp["dir"].size:
                fails.append(f"{gd.size} directions returned, expected {exp['dir'].size}")
            elif not np.allclose(gd[og], exp["dir"][oe], rtol=0, atol=1e-8):
                fails.append(f"dir {gd[og]} expected {exp['dir'][oe]}")
    if fails and any(("frequencies" in x or "directions" in x or "dir dimension" in x) for x in fails):
        return fails, notes
    # ---- energies
    dims = ("time", "freq") + (("dir",) if exp["dir"] is not None else ())
    try:
        slices = _loc_slices(da, exp)
    except Exception as exc:  # noqa
        fails.append(f"cannot select locations: {type(exc).__name__}: {exc}")
        slices = []
    for j, d in enumerate(slices):
        extra = [x for x in d.dims if x not in dims]
        if extra:
            fails.append(f"unexpected dims {d.dims}")
            break
        g = d.transpose(*dims).values
        if og is not None:
            g = g[..., og]
        tag = f"loc {j}: " if len(slices) > 1 else ""
        if "efth" in exp:
            e = exp["efth"] if exp.get("nloc", 1) == 1 and not exp.get("per_loc") else exp["efth"][:, j]
            if oe is not None:
                e = e[..., oe]
            msg = _first_bad(g, e, exp["tol"])
            if msg:
                fails.append(f"{tag}efth [time,freq,dir sorted]: {msg}")
        if "ef" in exp:
            dd = 360.0 / exp["dir"].size
            msg = _first_bad(g.sum(axis=-1) * dd, exp["ef"], 1e-6)
            if msg:
                fails.append(f"{tag}sum(efth*dd) vs file E(f): {msg}")
    if "ef" in exp and exp.get("oned") and ds1d is not None:
        d1 = ds1d["efth"]
        for dim in list(d1.dims):
            if dim not in ("time", "freq") and d1.sizes[dim] == 1:
                d1 = d1.isel({dim: 0})
        if set(d1.dims) != {"time", "freq"}:
            fails.append(f"1-D read has dims {d1.dims}")
        else:
            msg = _first_bad(d1.transpose("time", "freq").values, exp["ef"], exp["tol"])
            if msg:
                fails.append(f"1-D read vs file E(f): {msg}")
    # ---- position
    for key, attr in (("lon", "Longitude [deg]"), ("lat", "Latitude [deg]")):
        if key not in exp:
            continue
        e = np.atleast_1d(np.asarray(exp[key], dtype=float)).ravel()
        if key in ds.variables:
            g = np.asarray(ds[key].values, dtype=float).ravel()
            if exp.get("per_loc") or exp.get("nloc", 1) > 1:
                g, e = np.sort(np.unique(g)), np.sort(np.unique(e))
            if e.size == 1:
                e = np.full(g.shape, e[0])
            if g.shape != e.shape or not np.allclose(g, e, rtol=0, atol=1e-9):
                fails.append(f"{key} {g} expected {e}")
        elif attr in ds.attrs:
            if abs(float(ds.attrs[attr]) - e[0]) > 1e-9:
                fails.append(f"attrs[{attr!r}] = {ds.attrs[attr]} expected {e[0]}")
        else:
            notes.append(f"{key} carried by the file is not returned")
    if "site" in exp and ds.attrs.get("location") != exp["site"]:
        fails.append(f"attrs['location'] = {ds.attrs.get('location')!r} expected {exp['site']!r}")
    return fails, notes


def run_case(case, outdir=None):
    """encode -> real reader -> compare. Returns (fails, notes)."""
    tmp = None
    if outdir is None:
        tmp = tempfile.TemporaryDirectory()
        outdir = tmp.name
    try:
        arg = encode(case, outdir)
        exp = expected(case)
        try:
            ds = read(arg, case)
            if hasattr(ds, "load"):
                ds = ds.load()
        except Exception as exc:  # noqa
            return [f"reader raised {type(exc).__name__}: {exc}"], exp.get("notes", [])
        ds1d = None
        extra = []
        if exp.get("oned"):
            try:
                ds1d = read(arg, case, oned=True).load()
            except Exception as exc:  # noqa
                extra.append(f"1-D read raised {type(exc).__name__}: {exc}")
        fails, notes = compare(ds, exp, ds1d)
        return fails + extra, notes
    finally:
        if tmp is not None:
            tmp.cleanup()


# =====================================================================================
# self test
# =====================================================================================
VARIANTS = {
    "triaxys": [dict(directional=True, toff=0), dict(directional=False, toff=0),
                dict(directional=True, toff=10, ntimes=3),
                dict(directional=False, toff=-5, ntimes=4), dict(directional=True, ntimes=1),
                dict(), dict()],
    "ndbc_ascii": [dict(style="realtime", directional=False, shuffle=False),
                   dict(style="realtime", directional=True, shuffle=False, missing=True),
                   dict(style="realtime", directional=True, shuffle=True, missing=False),
                   dict(style="history", minutes=True, directional=False, gz=True, shuffle=False),
                   dict(style="history", minutes=True, directional=True, gz=True, shuffle=False),
                   dict(style="history", minutes=False, directional=False, gz=False, shuffle=True),
                   dict(style="history", minutes=False, directional=True, gz=False, shuffle=False)],
    "spotter_csv": [dict(nfiles=1), dict(nfiles=2, ntimes=4), dict(ntimes=1, nfiles=1),
                    dict(nfiles=1, shuffle=False), dict(), dict()],
    "spotter_json": [dict(nfiles=1), dict(nfiles=2, ntimes=4), dict(ntimes=1, nfiles=1),
                     dict(nfiles=1, shuffle=False), dict(),
                     dict(nfiles=1, spec_time_offset=-3600)],
    "datawell": [dict(ntimes=1), dict(ntimes=2), dict(ntimes=3), dict(ntimes=4),
                 dict(shuffle=False), dict()],
    "obscape": [dict(ntimes=1), dict(ntimes=2), dict(ntimes=3), dict(ntimes=4),
                dict(shuffle=False), dict()],
    "ww3_station": [dict(ntimes=1), dict(ntimes=4, nfreq=6, ndir=12), dict(), dict(), dict(),
                    dict(nloc=2, ntimes=2), dict(ntimes=3, shuffle=True)],
    "swan": [dict(time=True, loc_kw="LONLAT", freq_kw="AFREQ", dir_kw="NDIR", quant="VaDens",
                  blocks="FACTOR", dir_style="ascending"),
             dict(time=True, loc_kw="LOCATIONS", freq_kw="AFREQ", dir_kw="NDIR", quant="VaDens",
                  blocks="FACTOR", dir_style="ascending"),
             dict(time=True, loc_kw="LONLAT", freq_kw="RFREQ", dir_kw="NDIR", quant="VaDens",
                  blocks="FACTOR", dir_style="swan"),
             dict(time=True, loc_kw="LONLAT", freq_kw="AFREQ", dir_kw="CDIR", quant="VaDens",
                  blocks="FACTOR", dir_style="ascending"),
             dict(time=True, loc_kw="LONLAT", freq_kw="AFREQ", dir_kw="NDIR", quant="EnDens",
                  blocks="FACTOR", dir_style="ascending"),
             dict(time=False, loc_kw="LONLAT", freq_kw="AFREQ", dir_kw="NDIR", quant="VaDens",
                  blocks="FACTOR", dir_style="ascending"),
             dict(time=True, ntimes=4, nloc=3, blocks="mixed"),
             dict(time=False, loc_kw="LOCATIONS", freq_kw="RFREQ", dir_kw="CDIR",
                  quant="EnDens", blocks="mixed", dir_style="swan"),
             dict(), dict(), dict(time=True, ntimes=3, shuffle=True)],
    "xwaves": [dict(ntimes=1), dict(ntimes=4), dict(), dict(), dict(),
               dict(td_dtype="double"), dict(ntimes=3, shuffle=True)],
    "octopus": [dict(edge_zero=True, ntimes=1), dict(edge_zero=True, ntimes=4),
                dict(edge_zero=True), dict(edge_zero=False, ntimes=1), dict(edge_zero=False),
                dict(edge_zero=True, ntimes=3, shuffle=True)],
}


def selftest(formats=None, verbose=True, samples=True):
    """For each format: random cases over all header variants (>= 5 per format),
    encode, read with the real reader, compare. Prints one PASS/FAIL line per format
    (with the first discrepancy) followed by one line per failing case."""
    results = {}
    for fmt in formats or FORMATS:
        rows, allnotes = [], []
        for i, opts in enumerate(VARIANTS[fmt]):
            rng = random.Random(f"{fmt}-{i}")
            try:
                case = random_case(fmt, rng, **opts)
                fails, notes = run_case(case)
                label = case["label"]
            except Exception as exc:  # encoder problem: always our fault
                import traceback

                fails, notes, label = [f"ENCODER ERROR {type(exc).__name__}: {exc}"], [], str(opts)
                if verbose:
                    traceback.print_exc()
            rows.append((i, label, opts, fails))
            for n in notes:
                if n not in allnotes:
                    allnotes.append(n)
        bad = [r for r in rows if r[3]]
        results[fmt] = rows
        if not bad:
            print(f"{fmt:13s} PASS  ({len(rows)} cases)")
        else:
            i, label, opts, fails = bad[0]
            print(f"{fmt:13s} FAIL  ({len(bad)}/{len(rows)} cases) first: case {i} [{label}] {fails[0]}")
            if verbose:
                for i, label, opts, fails in bad:
                    print(f"{'':13s}   - case {i} [{label}] opts={opts}")
                    for x in fails[:3]:
                        print(f"{'':13s}       {x[:400]}")
        if verbose:
            for n in allnotes:
                print(f"{'':13s}   note: {n}")
    if samples:
        check_samples()
    return results


# =====================================================================================
# vendor samples: decode with a few lines of independent parsing, compare with reader
# =====================================================================================
SAMPLES = "/repo/tests/sample_files"


def _cmp(name, pairs):
    """pairs: list of (what, got, want, rtol). Prints one line."""
    bad = []
    for what, got, want, rtol in pairs:
        if isinstance(want, np.ndarray) and want.dtype.kind == "M":
            ok = np.array_equal(np.asarray(got).astype("datetime64[s]"), want.astype("datetime64[s]"))
            msg = None if ok else f"got {np.asarray(got).astype('datetime64[s]')[:3]} file says {want[:3]}"
        else:
            msg = _first_bad(got, want, rtol)
        if msg:
            bad.append(f"{what}: {msg}")
    print(f"SAMPLE {name:38s} " + ("OK" if not bad else "DISAGREE  " + " | ".join(bad))[:900])
    return not bad


def _ndbc_parse(path):
    op = gzip.open if str(path).endswith(".gz") else open
    with op(path, "rt") as f:
        lines = [l for l in f.read().split("\n") if l.strip()]
    hd = lines[0].split()
    nd = 5 if hd[4] == "mm" else 4
    t, rows, freq = [], [], None
    for l in lines[1:]:
        p = l.split()
        d = [int(x) for x in p[:nd]] + ([0] if nd == 4 else [])
        t.append(np.datetime64(_dt.datetime(*d), "s"))
        p = p[nd:]
        if lines[0].rstrip().endswith(">"):
            if "Sep_Freq" in lines[0]:
                p = p[1:]
            rows.append([float(x) for x in p[0::2]])
            freq = [float(x.strip("()")) for x in p[1::2]]
        else:
            rows.append([float(x) for x in p])
            freq = [float(x) for x in hd[nd:]]
    i = np.argsort(np.array(t), kind="stable")
    return np.array(t)[i], np.array(freq), np.array(rows)[i]


def _swan_parse(path):
    """Minimal independent SWAN 2-D spectral file decoder (all header variants)."""
    with open(path) as f:
        L = f.read().split("\n")
    k = 0

    def block():
        nonlocal k
        n = int(L[k + 1].split()[0])
        vals = [L[k + 2 + i].split() for i in range(n)]
        k += 2 + n
        return vals

    k = 1
    while L[k].startswith("$"):
        k += 1
    timed = L[k].startswith("TIME")
    if timed:
        k += 2
    xy = np.array(block(), dtype=float)
    freq = np.array(block(), dtype=float).ravel()
    cdir = L[k].startswith("CDIR")
    dirs = np.array(block(), dtype=float).ravel()
    dirs = (270 - dirs) % 360 if cdir else dirs % 360
    k += 2  # QUANT, number
    scale = RHO_G if L[k + 1].split()[0].upper().startswith("J") else 1.0
    k += 3
    times, specs = [], []
    while k < len(L) and L[k].strip():
        if timed:
            times.append(np.datetime64(_dt.datetime.strptime(L[k][:15], "%Y%m%d.%H%M%S"), "s"))
            k += 1
        rec = []
        for __ in range(len(xy)):
            kw = L[k].split()[0]
            k += 1
            if kw == "NODATA":
                rec.append(np.full((freq.size, dirs.size), np.nan))
            elif kw == "ZERO":
                rec.append(np.zeros((freq.size, dirs.size)))
            else:
                fac = float(L[k])
                a = np.array([L[k + 1 + i].split() for i in range(freq.size)], dtype=float)
                rec.append(a * fac / scale)
                k += 1 + freq.size
        specs.append(rec)
    o = np.argsort(dirs, kind="stable")
    return np.array(times), xy, freq, dirs[o], np.array(specs)[..., o]


def check_samples():
    """Decode every vendor sample independently and compare with the real reader."""
    import wavespectra as ws

    S = SAMPLES
    # ---- triaxys
    for name, nh in (("triaxys.DIRSPEC", 13), ("triaxys.NONDIRSPEC", 9)):
        L = open(f"{S}/{name}").read().split("\n")
        hd = {l.split("=")[0].strip(): l.split("=")[1].strip() for l in L[:nh] if "=" in l}
        nf = int(hd["NUMBER OF FREQUENCIES"])
        A = np.array([l.split() for l in L[nh:nh + nf]], dtype=float)
        freq = float(hd["INITIAL FREQUENCY (Hz)"]) + float(hd["FREQUENCY SPACING (Hz)"]) * np.arange(nf)
        t = np.array([np.datetime64(hd["DATE"].split("(")[0].replace(" ", "T"), "s")])
        ds = ws.read_triaxys(f"{S}/{name}")
        want = A[None] if "NON" not in name else A[None, :, 1]
        _cmp(name, [("time", ds.time.values, t, 0), ("freq", ds.freq.values, freq, 1e-9),
                    ("efth", ds.efth.values, want, 1e-12)])
    # ---- ndbc
    N = f"{S}/ndbc/"
    t, f, E = _ndbc_parse(N + "41010.data_spec")
    ds = ws.read_ndbc_ascii(N + "41010.data_spec")
    _cmp("ndbc/41010.data_spec (1-D)", [("time", ds.time.values, t, 0), ("freq", ds.freq.values, f, 1e-6),
                                        ("efth", ds.efth.values[..., 0], E, 1e-12)])
    for tag, files, scale in (
        ("ndbc/41010 realtime 5 files (2-D)",
         ["41010.data_spec", "41010.swdir", "41010.swdir2", "41010.swr1", "41010.swr2"], 1.0),
        ("ndbc/41010[wdijk]2019 history (2-D)",
         [f"41010{c}2019part.txt.gz" for c in "wdijk"], 0.01),
    ):
        P = [_ndbc_parse(N + x) for x in files]
        t, f, E = P[0]
        a1, a2, r1, r2 = (p[2][..., None] for p in P[1:])
        th = np.arange(0, 360, 10.0)[None, None, :]
        D = (0.5 + scale * r1 * np.cos(D2R * (th - a1)) + scale * r2 * np.cos(2 * D2R * (th - a2))) / np.pi
        ds = ws.read_ndbc_ascii([N + x for x in files])
        ok = _cmp(tag, [("time", ds.time.values, t, 0), ("freq", ds.freq.values, f, 1e-6),
                        ("efth vs NDBC formula", ds.efth.values, E[..., None] * D * D2R, 1e-9)])
        if not ok:
            print(f"{'':45s} reader efth range [{float(ds.efth.min()):.3g}, {float(ds.efth.max()):.3g}]"
                  f", file r1 range [{r1.min():g}, {r1.max():g}] (hundredths)")
    for name in ("41010w2019part.txt.gz", "44004w2000.txt"):
        t, f, E = _ndbc_parse(N + name)
        ds = ws.read_ndbc_ascii(N + name)
        _cmp("ndbc/" + name, [("time", ds.time.values, t, 0), ("freq", ds.freq.values, f, 1e-6),
                              ("efth", ds.efth.values[..., 0], E, 1e-12)])
    # ---- spotter
    for name in ("spotter_20210929.csv", "spotter_20210929b.csv"):
        L = open(f"{S}/{name}", encoding="utf-8").read().strip().split("\n")
        hd = [h.split("(")[0].strip() for h in L[0].split(",")]
        rows = [l.split(",") for l in L[1:]]
        ie = [i for i, h in enumerate(hd) if h.startswith("varianceDensity_")]
        jf = [i for i, h in enumerate(hd) if h.startswith("f_")]
        t = np.array([int(r[hd.index("Epoch Time")]) for r in rows]).astype("datetime64[s]")
        o = np.argsort(t, kind="stable")
        E = np.array([[float(r[i]) for i in ie] for r in rows])[o]
        ds = ws.read_spotter(f"{S}/{name}", dd=None)
        ds2 = ws.read_spotter(f"{S}/{name}", dd=5.0)
        _cmp(name, [("time", ds.time.values, t[o], 0),
                    ("freq", ds.freq.values, np.array([float(rows[0][i]) for i in jf]), 1e-12),
                    ("efth 1-D", ds.efth.values, E, 1e-12),
                    ("sum(efth*dd) 2-D", ds2.efth.transpose("time", "freq", "dir").values.sum(-1) * 5, E, 1e-6)])
    d = json.load(open(f"{S}/spotter_20180214.json"))["data"]["frequencyData"]
    t = np.array([np.datetime64(x["timestamp"][:19], "s") for x in d])
    ds = ws.read_spotter(f"{S}/spotter_20180214.json", dd=None)
    _cmp("spotter_20180214.json", [("time (frequencyData.timestamp)", ds.time.values, t, 0),
                                   ("efth 1-D", ds.efth.values, np.array([x["varianceDensity"] for x in d]), 1e-12)])
    # ---- datawell
    import glob

    for p in sorted(glob.glob(f"{S}/datawell/*.spt")):
        L = open(p, newline="").read().split("\r\n")
        smax = float(L[3])
        A = np.array([l.split(",") for l in L[12:] if l], dtype=float)
        stem = os.path.basename(p)[:-4].split("}")[1]
        t = np.array([np.datetime64(stem.replace("h", ":").rstrip("Z"), "s")])
        ds = ws.read_datawell(p, dd=None)
        ds2 = ws.read_datawell(p, dd=5.0)
        _cmp("datawell/" + os.path.basename(p), [
            ("time", ds.time.values, t, 0), ("freq", ds.freq.values, A[:, 0], 1e-12),
            ("efth 1-D", ds.efth.values, A[None, :, 1] * smax, 1e-12),
            ("sum(efth*dd) 2-D", ds2.efth.transpose("time", "freq", "dir").values.sum(-1) * 5, A[None, :, 1] * smax, 1e-6)])
    # ---- obscape
    for p in sorted(glob.glob(f"{S}/obscape/*.csv")):
        L = open(p).read().strip().split("\n")
        hd = {l[1:].split("=")[0].strip(): l.split("=")[1].strip() for l in L if l.startswith("#") and "=" in l}
        A = np.array([l.split(",") for l in L if not l.startswith("#")], dtype=float)
        t = np.array([int(hd["Timestamp"])]).astype("datetime64[s]")
        ds = ws.read_obscape(p)
        _cmp("obscape/" + os.path.basename(p)[:30], [
            ("time", ds.time.values, t, 0),
            ("freq", ds.freq.values, np.array(hd["Rows [Hz]"].split(","), dtype=float), 1e-12),
            ("efth", ds.efth.values, A[None] * D2R, 1e-12)])
    # ---- ww3 station
    L = open(f"{S}/ww3station.spec").read().strip().split("\n")
    nk, nth, npnt = (int(x) for x in L[0].split("'")[2].split()[:3])
    body = L[1:]
    flat, k = [], 0
    while len(flat) < nk + nth:
        flat += body[k].split()
        k += 1
    freq, th = np.array(flat[:nk], dtype=float), np.array(flat[nk:], dtype=float)
    t, E = [], []
    while k < len(body):
        t.append(np.datetime64(_dt.datetime.strptime(body[k].strip(), "%Y%m%d %H%M%S"), "s"))
        pos = body[k + 1].split("'")[2].split()
        k += 2
        v = []
        while len(v) < nk * nth:
            v += body[k].split()
            k += 1
        E.append(np.array(v, dtype=float).reshape(nth, nk).T)
    ds = ws.read_ww3_station(f"{S}/ww3station.spec")
    wd = (np.degrees(th) + 180) % 360
    _cmp("ww3station.spec", [("time", ds.time.values, np.array(t), 0), ("freq", ds.freq.values, freq, 1e-12),
                             ("dir", ds.dir.values, wd, 1e-9),
                             ("efth", ds.efth.values[:, 0, 0], np.array(E) * D2R, 1e-12),
                             ("lat", ds.lat.values, np.array([float(pos[0])]), 1e-12),
                             ("lon", ds.lon.values, np.array([float(pos[1])]), 1e-12)])
    # ---- swan (file written by the library's own writer; layout check only)
    t, xy, freq, dirs, E = _swan_parse(f"{S}/swanfile.spec")
    ds = ws.read_swan(f"{S}/swanfile.spec")
    _cmp("swanfile.spec", [("time", ds.time.values, t, 0), ("freq", ds.freq.values, freq, 1e-12),
                           ("dir", ds.dir.values, dirs, 1e-12),
                           ("efth", ds.efth.values.reshape(E[:, 0].shape), E[:, 0], 1e-12)])
    # ---- octopus
    L = open(f"{S}/octopusfile.oct").read().split("\n")
    nf, nd, nr = (int(L[i].split(",")[1]) for i in (1, 2, 3))
    k, t, C, den = 7, [], [], []
    for __ in range(nr):
        p = L[k + 2].split(",")
        t.append(np.datetime64(_dt.datetime.strptime(p[0] + p[1].lstrip("'"), "%Y%m%d%H%M"), "s"))
        freq = np.array(L[k + 3].split(",")[1:1 + nf], dtype=float)
        A = np.array([l.split(",")[:nf + 1] for l in L[k + 4:k + 4 + nd]], dtype=float)
        den.append(np.array(L[k + 5 + nd].split(",")[1:1 + nf], dtype=float))
        C.append(A[:, 1:].T)
        dirs = A[:, 0]
        k += 6 + nd
    C, den = np.array(C), np.array(den)
    ds = ws.read_octopus(f"{S}/octopusfile.oct")
    g = ds.efth.isel(site=0).transpose("time", "freq", "dir").values
    dd = 360.0 / nd
    _cmp("octopusfile.oct (cells / half-edge df)", [
        ("time", ds.time.values, np.array(t), 0), ("freq", ds.freq.values, freq, 1e-12),
        ("efth", g, C / (_oct_df(freq)[None, :, None] * dd), 1e-9)])
    # the file's own density row (5 decimals) against the integrated reader output
    Ef = g.sum(-1) * dd
    tol_abs = 0.5e-5 * (1 + nd) / _oct_df(freq)  # print precision of den and of the cells
    bad = np.abs(Ef - den) > tol_abs[None, :] + 1e-5
    where = sorted(set(int(j) for j in np.argwhere(bad)[:, 1]))
    msg = "OK" if not where else (
        f"DISAGREE  at freq indices {where} (of 0..{nf - 1}); e.g. record 0: reader "
        f"{[round(float(Ef[0, j]), 5) for j in where]} file {[float(den[0, j]) for j in where]}")
    print(f"SAMPLE {'octopusfile.oct den row vs sum(efth*dd)':38s} {msg}")


if __name__ == "__main__":
    selftest()
