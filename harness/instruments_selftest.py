"""Run the self test of harness.instruments:
    cd /verif && PYTHONPATH=/verif:/repo /venv/bin/python -W ignore harness/instruments_selftest.py
"""
from harness import instruments

if __name__ == "__main__":
    instruments.selftest()
