"""Lattice <-> xarray objects, and the evaluator for the exact expression trees emitted by the TLA+ specs.

The evaluator knows arithmetic and a handful of transcendental functions only; every formula about waves
lives in spec/*.tla.
"""
import math

import numpy as np

NAN = float("nan")


def ev(t):
    """Evaluate an expression tree (nested lists) to a float."""
    if isinstance(t, (int, float)):
        return float(t)
    op = t[0]
    if op == "q":
        return t[1] / t[2]
    if op == "nan":
        return NAN
    if op == "add":
        return ev(t[1]) + ev(t[2])
    if op == "sub":
        return ev(t[1]) - ev(t[2])
    if op == "mul":
        return ev(t[1]) * ev(t[2])
    if op == "div":
        a, b = ev(t[1]), ev(t[2])
        if b == 0:
            return NAN if a == 0 or math.isnan(a) else math.copysign(math.inf, a)
        return a / b
    if op == "sqrt":
        a = ev(t[1])
        if math.isnan(a):
            return NAN
        return math.sqrt(a) if a >= 0 else NAN
    if op == "pi2":
        return math.pi ** 2
    if op == "pi":
        return math.pi
    if op == "atan2d":
        return math.degrees(math.atan2(ev(t[1]), ev(t[2])))
    if op == "wsum":
        f = math.sin if t[1] == "sin" else math.cos
        return math.fsum(w * f(math.radians(a)) for w, a in t[2])
    if op == "mod360":
        return ev(t[1]) % 360.0
    if op == "spread":
        ws = t[1]
        s = math.fsum(w for w, _ in ws)
        if s == 0:
            return NAN
        a = math.fsum(w * math.sin(math.radians(x)) for w, x in ws)
        b = math.fsum(w * math.cos(math.radians(x)) for w, x in ws)
        r = 1.0 - math.hypot(a, b) / s
        return math.degrees(math.sqrt(2.0 * max(r, 0.0)))
    if op == "exp":
        return math.exp(ev(t[1]))
    if op == "ln":
        a = ev(t[1])
        return NAN if math.isnan(a) or a <= 0 else math.log(a)
    if op == "round":
        a = ev(t[1])
        return NAN if math.isnan(a) or math.isinf(a) else float(round(a))
    if op == "powi":
        return ev(t[1]) ** t[2]
    if op == "sumseq":
        return math.fsum(ev(x) for x in t[1])
    raise ValueError("unknown expression node %r" % (op,))


def spread_margin(ws):
    """1 - |sum w e^{ia}|/sum w: how far the spread radicand is from zero (rounding sensitivity)."""
    s = math.fsum(w for w, _ in ws)
    if s == 0:
        return NAN
    a = math.fsum(w * math.sin(math.radians(x)) for w, x in ws)
    b = math.fsum(w * math.cos(math.radians(x)) for w, x in ws)
    return 1.0 - math.hypot(a, b) / s


def close(x, y, rel=1e-9, abs_=1e-11, circular=False):
    if isinstance(x, float) and isinstance(y, float) and math.isnan(x) and math.isnan(y):
        return True
    if math.isnan(x) or math.isnan(y):
        return False
    if circular:
        d = abs((x - y + 180.0) % 360.0 - 180.0)
        return d <= max(abs_, rel * 360.0)
    return abs(x - y) <= max(abs_, rel * max(abs(x), abs(y)))


def freqs(F):
    return np.array([f / 20.0 for f in F], dtype="float64")


def build(F, D, E, dtype="float64", name="efth"):
    """One spectrum as a DataArray (dims freq[,dir])."""
    import xarray as xr
    f = freqs(F)
    a = np.array(E, dtype=dtype)
    if D:
        return xr.DataArray(a, coords={"freq": f, "dir": np.array(D, dtype="float64")}, dims=("freq", "dir"), name=name)
    return xr.DataArray(a, coords={"freq": f}, dims=("freq",), name=name)


def build_batch(F, D, Es, dtype="float64", dim="site"):
    """Many spectra on one grid stacked along a leading dimension."""
    import xarray as xr
    f = freqs(F)
    a = np.array(Es, dtype=dtype)
    coords = {dim: np.arange(a.shape[0]), "freq": f}
    dims = (dim, "freq")
    if D:
        coords["dir"] = np.array(D, dtype="float64")
        dims = (dim, "freq", "dir")
    return xr.DataArray(a, coords=coords, dims=dims, name="efth")
