"""SWAN ASCII text <-> integer records (no semantics: keywords and numbers only; which block belongs to which position,
what the factor means, the order of locations are all in spec/formats/Swan.tla)."""
import datetime

BASE = datetime.datetime(2020, 1, 1)
UNIT = 1e-3          # energy lattice unit (m2/Hz/deg)


def lex(text):
    """-> list of records (dicts with integer fields), or raises ValueError with the offending line."""
    recs = []
    lines = text.splitlines()
    i = 0
    section = None
    remaining = 0
    nf = nd = None
    while i < len(lines):
        line = lines[i]
        s = line.strip()
        head = s.split()[0] if s else ""
        if remaining > 0:
            vals = s.split()
            if section == "LONLAT":
                recs.append({"k": "LOC", "x": int(round(float(vals[0]) * 1e6)), "y": int(round(float(vals[1]) * 1e6))})
            elif section == "AFREQ":
                recs.append({"k": "NUM", "v": int(round(float(vals[0]) * 1e5))})
            elif section == "NDIR":
                recs.append({"k": "NUM", "v": int(round(float(vals[0]) * 1e4))})
            remaining -= 1
            i += 1
            continue
        if head == "SWAN":
            recs.append({"k": "SWAN"})
        elif head.startswith("$"):
            recs.append({"k": "COMMENT"})
        elif head == "TIME":
            recs.append({"k": "TIME"})
            i += 1
            recs.append({"k": "TIMEOPT", "v": int(lines[i].split()[0])})
        elif head in ("LONLAT", "AFREQ", "NDIR"):
            recs.append({"k": head})
            i += 1
            n = int(lines[i].split()[0])
            recs.append({"k": "COUNT", "v": n})
            section, remaining = head, n
            if head == "AFREQ":
                nf = n
            if head == "NDIR":
                nd = n
        elif head == "QUANT":
            recs.append({"k": "QUANT"})
            i += 1
            recs.append({"k": "COUNT", "v": int(lines[i].split()[0])})
            i += 1
            recs.append({"k": "VADENS" if lines[i].split()[0] == "VaDens" else "OTHERQUANT"})
            i += 1
            recs.append({"k": "UNIT" if lines[i].split()[0] == "m2/Hz/degr" else "OTHERUNIT"})
            i += 1
            recs.append({"k": "EXC", "v": int(float(lines[i].split()[0]))})
        elif head == "NODATA":
            recs.append({"k": "NODATA"})
        elif head == "ZERO":
            recs.append({"k": "ZERO"})
        elif head == "FACTOR":
            i += 1
            fac = float(lines[i].split()[0])
            mx = fac * 9998.0 / UNIT
            rows = []
            for _ in range(nf):
                i += 1
                row = lines[i]
                rows.append([int(float(row[5 * j:5 * j + 5])) for j in range(nd)])      # %5.0f with empty delimiter: fixed 5-character fields
            if abs(mx - round(mx)) > 1e-3 * max(1.0, mx * 1e-6):
                recs.append({"k": "FACTOR", "max": -1, "m": rows, "offlattice": 1})
            else:
                recs.append({"k": "FACTOR", "max": int(round(mx)), "m": rows})
        elif len(head) == 15 and head[8] == ".":
            t = datetime.datetime.strptime(head, "%Y%m%d.%H%M%S")
            recs.append({"k": "T", "v": int((t - BASE).total_seconds())})
        elif s == "":
            pass
        else:
            raise ValueError("cannot lex line %d: %r" % (i + 1, line))
        i += 1
    return recs


def render(recs, nf, nd):
    """records -> SWAN ASCII text (reference encoder used to feed the real reader)."""
    out = []
    section = None
    for r in recs:
        k = r["k"]
        if k == "SWAN":
            out.append("{:40}{}".format("SWAN   1", "Swan standard spectral file"))
        elif k == "COMMENT":
            out.append("$   rendered by the verification harness")
        elif k == "TIME":
            out.append("{:40}{}".format("TIME", "time-dependent data"))
        elif k == "TIMEOPT":
            out.append("{:>6d}{:34}{}".format(r["v"], "", "time coding option"))
        elif k in ("LONLAT", "AFREQ", "NDIR", "LOCATIONS", "RFREQ", "CDIR"):
            section = k
            out.append("{:40}{}".format(k, ""))
        elif k == "COUNT":
            out.append("{:>6d}{:34}{}".format(r["v"], "", "number"))
        elif k == "LOC":
            out.append("  {:<0.6f}  {:<0.6f}".format(r["x"] / 1e6, r["y"] / 1e6))
        elif k == "NUM":
            out.append("{:>11.5f}".format(r["v"] / 1e5) if section in ("AFREQ", "RFREQ") else "{:>11.4f}".format(r["v"] / 1e4))
        elif k == "QUANT":
            out.append("QUANT")
        elif k == "VADENS":
            out.append("{:40}{}".format("VaDens", "variance densities in m2/Hz/degr"))
        elif k == "UNIT":
            out.append("{:40}{}".format("m2/Hz/degr", "unit"))
        elif k == "EXC":
            out.append("{:3}{:<37g}{}".format("", r["v"], "exception value"))
        elif k == "T":
            t = BASE + datetime.timedelta(seconds=r["v"])
            out.append("{:40}{}".format(t.strftime("%Y%m%d.%H%M%S"), "date and time"))
        elif k in ("NODATA", "ZERO"):
            out.append(k)
        elif k == "FACTOR":
            out.append("FACTOR")
            out.append("    {:0.8E}".format(r["max"] * UNIT / 9998.0))
            for row in r["m"]:
                out.append("".join("%5.0f" % x for x in row))
    return "\n".join(out) + "\n"
