"""./check entry point."""
import argparse
import importlib
import json
import os
import subprocess
import sys
import traceback

from harness import core


def setup():
    os.makedirs(core.BUILD, exist_ok=True)
    os.makedirs(core.REPLAYS, exist_ok=True)
    ok = True
    for cmd in (["java", "-version"], ["gcc", "--version"], ["clang", "--version"]):
        try:
            subprocess.run(cmd, stdout=subprocess.DEVNULL, stderr=subprocess.DEVNULL, check=True)
        except Exception as ex:  # pragma: no cover
            print("setup: %s not usable: %s" % (cmd[0], ex))
            ok = False
    if not os.path.exists("/opt/veriftools/tla/tla2tools.jar"):
        print("setup: tla2tools.jar missing")
        ok = False
    try:
        from harness import build
        build.build_ext()
        build.driver(False)
        build.driver(True)
    except Exception as ex:
        print("setup: native build failed: %s" % ex)
        ok = False
    print("setup ok" if ok else "setup FAILED")
    return 0 if ok else 2


def main():
    ap = argparse.ArgumentParser()
    ap.add_argument("pid", nargs="?")
    ap.add_argument("--tier", default=os.environ.get("VERIF_TIER", "quick"), choices=["quick", "thorough"])
    ap.add_argument("--replay")
    ap.add_argument("--setup", action="store_true")
    ap.add_argument("--selftest", action="store_true")
    a = ap.parse_args()
    if a.setup:
        return setup()
    if not a.pid:
        ap.error("property id required")
    pid = a.pid.upper()
    seed = int(os.environ.get("VERIF_SEED", "0") or 0)
    os.makedirs(core.BUILD, exist_ok=True)
    ctx = core.Ctx(pid, a.tier, seed, replay=a.replay)
    ctx.selftest = a.selftest
    if not a.replay and os.environ.get("VERIF_NOFORK") != "1":
        # safety net: the library under test contains native code; if it corrupts memory and kills the interpreter
        # the check must still end with a verdict, not with a dead checker
        pidc = os.fork()
        if pidc == 0:
            os.environ["VERIF_NOFORK"] = "1"
            rc = _run(a, pid, ctx)
            sys.stdout.flush()
            os._exit(rc)
        _, status = os.waitpid(pidc, 0)
        if os.WIFSIGNALED(status):
            sig = os.WTERMSIG(status)
            ctx.violation({"where": "process", "kind": "interpreter-crash", "signal": sig},
                          "the checker process was killed by signal %d while exercising the library "
                          "(native memory corruption in the code under test?)" % sig)
            ctx.states = ctx.states or 1
            ctx.transitions = ctx.transitions or 1
            ctx.note("explanation", "run aborted by a native crash; counts are incomplete")
            return ctx.finish()
        return os.WEXITSTATUS(status)
    return _run(a, pid, ctx)


def _run(a, pid, ctx):
    try:
        mod = importlib.import_module("harness.props.%s" % pid.lower())
        if a.replay:
            with open(a.replay) as fh:
                rep = json.load(fh)
            if not hasattr(mod, "replay"):
                print("replay not supported for %s; stored case:\n%s" % (pid, json.dumps(rep, indent=1)[:4000]))
                return 0
            mod.replay(ctx, rep)
        else:
            mod.run(ctx)
        rc = ctx.finish()
        return rc
    except core.MachineryError as ex:
        print("MACHINERY-FAILURE property=%s %s" % (pid, ex))
        return _partial(ctx)
    except Exception:
        traceback.print_exc()
        print("MACHINERY-FAILURE property=%s unexpected exception" % pid)
        return _partial(ctx)


def _partial(ctx):
    """the machinery failed part-way: violations established before that point (each has a concrete failing case against the real
    code) are still reported and decide the exit status; with none, exit 2."""
    if getattr(ctx, "violations", None):
        try:
            ctx.note("explanation", "run aborted by a machinery failure after violations had been established; counts are incomplete")
            ctx.states = ctx.states or 1
            ctx.transitions = ctx.transitions or 1
            rc = ctx.finish()
            if rc == 1:
                return 1
        except Exception:  # noqa
            traceback.print_exc()
    return 2


if __name__ == "__main__":
    sys.exit(main())
