/* Standalone driver for the watershed routine: #includes the repository's specpart.c verbatim
 * (path given by -DSPECPART_C) so that static buffers and helpers are exactly the library's.
 * Protocol (binary, native endianness), repeated until EOF on stdin:
 *   in : int32 nk, nth, ihmax ; float32 spec[nk*nth]   (C order: spec[ifreq*nth + iang])
 *   out: int32 ipart[nk*nth] (as the Python wrapper returns it, flat) ; int32 npart
 */
#include SPECPART_C
#include <string.h>

int main(void) {
  int hdr[3];
  while (fread(hdr, sizeof(int), 3, stdin) == 3) {
    int nk = hdr[0], nth = hdr[1], ihmax = hdr[2];
    int n = nk * nth;
    float *spec = (float *) malloc(n * sizeof(float));
    int *ipart = (int *) calloc(n, sizeof(int));
    if (fread(spec, sizeof(float), n, stdin) != (size_t) n) return 3;
    partition(spec, ipart, nk, nth, ihmax);
    fwrite(ipart, sizeof(int), n, stdout);
    fwrite(&npart, sizeof(int), 1, stdout);
    free(spec);
    free(ipart);
  }
  fflush(stdout);
  return 0;
}
