"""C01 - integrated wave parameters equal their defining spectral integrals.

Stats.tla transcribes the published definitions over an exact lattice (frequencies in 0.05 Hz, whole degrees,
integer energies) with the dataset's own bin widths; MC_Stats enumerates every spectrum over an alphabet on a family
of grids (log-like / irregular / uniform / single frequency, top frequency either side of the tail threshold; 1-D,
1, 2, 3, 4, 6 directions, full and partial circle, offset starts), checks the algebraic consequences as invariants
and emits the exact expected value (rational or expression tree) of every statistic.  Every vector is replayed through
the DataArray and the Dataset accessor (float64 and float32; batched along a leading dimension; 1-D spectrum obtained
with oned()) and compared with the exact value.  The dispersion-relation clause is transcendental and is evaluated
by the harness against the relation itself on the library's wavenumber.
"""
import math

import numpy as np

from harness import lattice as L
from harness import stats_common as sc
from harness.core import setup_repo_imports

SCALAR_OPS = ["hs", "hs_notail", "hrms", "hrms_notail", "hmax", "tm01", "tm02", "swe", "sw", "gw", "goda", "mss",
              "dm", "dspr", "uss", "uss_x", "uss_y", "mom0", "mom1", "mom2", "mom3", "mom4"]
DIRECTIONAL = {"dm", "dspr", "uss", "uss_x", "uss_y"}
CIRCULAR = {"dm"}


def configs(ctx):
    if ctx.quick:
        return [((0, 1, 3), (2, 3), (0, 4), True), ((0, 2), (1,), (0, 2, 3), False), ((0, 5), (5,), (0, 3, 4), False),
                ((0, 1, 3), (4,), (0, 1, 2, 3, 4, 7), True), ((0, 1), (2,), (5, 6), False)]
    return [((0, 1, 3), (2, 3), (0, 2, 4, 5), True), ((0, 2), (1,), (0, 1, 2, 3, 4), False), ((0, 5), (5,), (0, 3, 4, 5), False),
            ((0, 1, 3), (4,), (0, 1, 2, 3, 4, 5, 6, 7), True), ((0, 1), (2, 3), (1, 5, 6), False), ((0, 3), (6,), (0, 3, 4), False),
            ((0, 1), (1,), (6,), False)]


def call(acc, op):
    if op == "hs_notail":
        return acc.hs(tail=False)
    if op == "hrms_notail":
        return acc.hrms(tail=False)
    if op.startswith("mom"):
        return acc.momf(int(op[3]))
    return getattr(acc, op)()


def expected(v, op):
    if op.startswith("mom"):
        return L.ev(v["mom"][int(op[3])])
    return L.ev(v[op])


def resultant(dirtree):
    """|sum w e^{ia}| / sum w of a DirOf tree (1 = one direction, 0 = no net direction)."""
    ws = dirtree[1][2][1][2]
    return 1.0 - L.spread_margin(ws) if sum(w for w, _ in ws) else 0.0


def compare(ctx, v, op, got, rel, how, dtype):
    exp = expected(v, op)
    got = float(got)
    ok = L.close(exp, got, rel=rel, abs_=1e-9 if rel < 1e-7 else 2e-5, circular=op in CIRCULAR)
    if ok:
        return True
    zero = all(x == 0 for row in v["E"] for x in (row if isinstance(row, list) else [row]))
    if op == "swe" and not math.isnan(exp) and exp < 0.001 and got == 1.0:
        return True     # documented clamp: widths below 0.001 are reported as 1.0
    if op in ("dspr",) and not math.isnan(exp) and math.isnan(got) and L.spread_margin(v["dspr"][1]) < 1e-9:
        return True     # zero spread: the radicand is 0 +- rounding
    if op == "dspr" and not math.isnan(exp) and exp < 1e-3 and (math.isnan(got) or abs(got) < 1e-3):
        return True
    if op == "sw" and not math.isnan(exp) and exp < 1e-6 and (math.isnan(got) or abs(got) < 1e-6):
        return True     # single-frequency energy: sqrt(0 +- rounding)
    if op == "swe" and math.isnan(exp) and got == 1.0:
        return True     # zero energy: 0/0, reported through the same clamp
    if op == "gw" and v["gw"][0] == "sqrt":
        rad = L.ev(v["gw"][1])
        scale = abs(L.ev(v["gw"][1][1])) + 1e-300
        if abs(rad) <= 1e-9 * scale and (math.isnan(got) or abs(got) <= 1e-3 * math.sqrt(scale)):
            return True  # radicand is zero up to rounding
    if op == "dm" and (zero or resultant(v["dm"]) < 1e-9):
        return True     # no net direction: atan2(0 +- rounding, 0 +- rounding) is arbitrary
    key = {"op": op, "via": how, "dtype": dtype}
    if op == "dm":
        alt = L.ev(v["dm_nodf"])
        nodf = L.close(alt, got, rel=rel, abs_=1e-6, circular=True) or resultant(v["dm_nodf"]) < 1e-9
        key["class"] = "sum-over-frequency-without-df" if nodf else "other"
        key["uniform_df"] = bool(v["uniform_df"])
    ctx.violation(key, "%s via %s (%s): expected %.12g from the defining integral, library returned %.12g" % (op, how, dtype, exp, got),
                  {"F": v["F"], "D": v["D"], "E": v["E"], "expected": exp, "got": got})
    return False


def tail_threshold(ctx):
    """TailRule off the lattice: the tail 0.25 E(fmax) fmax is added exactly when fmax > 0.333 Hz.  Grids ending either side of the
    threshold by less than the lattice can express (0.3329 ... 0.3334, among them 1/3, the end of a period-defined grid): the
    difference Hs(tail)^2 - Hs(no tail)^2 must be 16 x the closed form above the threshold and zero at or below it (Hrms: 8 x)."""
    import xarray as xr
    for fmax in (0.3329, 0.333, 0.33300000000000007, 0.33305, 0.3332, 1.0 / 3.0, 0.33334, 0.34):
        for nd in (0, 4):
            F = np.array([0.1, 0.2, 0.28, fmax])
            e = np.array([1.0, 5.0, 3.0, 2.0])
            da = xr.DataArray(e, coords={"freq": F}, dims=("freq",), name="efth")
            if nd:
                D = np.arange(nd) * (360.0 / nd)
                da = (da * xr.DataArray(np.array([0.5, 1.0, 2.0, 0.25]), coords={"dir": D}, dims=("dir",))).rename("efth")
            sf_top = float(da.spec.oned().isel(freq=-1)) if nd else float(da.isel(freq=-1))
            want = 0.25 * sf_top * fmax if fmax > 0.333 else 0.0
            for how, acc in (("DataArray", da.spec), ("Dataset", da.to_dataset(name="efth").spec)):
                for op, c in (("hs", 16.0), ("hrms", 8.0)):
                    ctx.case(("tail-threshold", fmax, nd, how, op), True)
                    got = float(getattr(acc, op)(tail=True)) ** 2 - float(getattr(acc, op)(tail=False)) ** 2
                    if abs(got - c * want) <= 1e-9 * max(1.0, c * want):
                        ctx.replayed()
                    else:
                        ctx.violation({"op": op, "clause": "TailRule", "via": how},
                                      "%s on a grid ending at %.17g Hz: tail contribution %.6g, defining integral says %.6g (threshold 0.333 Hz)" %
                                      (op, fmax, got / c, want), {"freq": F.tolist(), "nd": nd})


def dispersion(ctx):
    """finite-depth wavenumber / celerity / wavelength satisfy w^2 = g k tanh(k d) within 0.1 %; deep water exact."""
    from wavespectra.core import utils
    g = 9.81
    n = 0
    for F in range(1, 13):
        f = F / 20.0
        c, wl = float(utils.celerity(np.array([f]))[0]), float(utils.wavelen(np.array([f]))[0])
        if not L.close(c, 1.56 / f, rel=1e-12) or not L.close(wl, 1.56 / f ** 2, rel=1e-12):
            ctx.violation({"op": "deepwater", "f": f}, "deep-water celerity/wavelength are not 1.56/f, 1.56/f^2", {"c": c, "L": wl})
        w2 = (2 * math.pi * f) ** 2
        # fixed depths, and depths placed at given values of k0 h = w^2 h / g across the intermediate range - among them just above
        # pi, where water counts as "deep" by the half-wavelength rule although tanh(kh) is still 0.996
        for depth in (0.5, 2.0, 10.0, 50.0, 500.0, 5000.0) + tuple(x * g / w2 for x in (0.4, 0.8, 1.5, 2.5, 3.2, 3.5, 3.8, 6.0)):
            k = float(utils.wavenuma(np.array([f]), depth)[0])
            res = abs(w2 - g * k * math.tanh(k * depth)) / w2
            kex = w2 / g                                   # the root of w^2 = g k tanh(k d) by Newton's iteration
            for _ in range(60):
                t = math.tanh(kex * depth)
                kex -= (g * kex * t - w2) / (g * t + g * kex * depth * (1 - t * t))
            if abs(k - kex) > 1.0e-3 * kex:
                res = max(res, 1.0)
            c2 = float(utils.celerity(np.array([f]), depth)[0])
            l2 = float(utils.wavelen(np.array([f]), depth)[0])
            n += 1
            ctx.case(("disp", F, round(depth, 6)), True)
            if res > 2.5e-3 or not L.close(c2, 2 * math.pi * f / k, rel=1e-9) or not L.close(l2, 2 * math.pi / k, rel=1e-9):
                ctx.violation({"op": "dispersion", "f": f, "depth": depth}, "finite-depth wavenumber off the dispersion relation",
                              {"residual": res, "k": k})
            else:
                ctx.replayed()
    # the same on whole frequency grids (one call for all frequencies), the lowest frequency sitting just inside "deep" water
    fr = np.arange(1, 13) / 20.0
    for x in (0.5, 2.0, 3.2, 3.6, 5.0):
        depth = x * g / (2 * math.pi * fr[0]) ** 2
        ks = np.asarray(utils.wavenuma(fr, depth), float)
        cs, ls = np.asarray(utils.celerity(fr, depth), float), np.asarray(utils.wavelen(fr, depth), float)
        ctx.case(("disp-grid", x), True)
        worst = 0.0
        for f, k, c_, l_ in zip(fr, ks, cs, ls):
            w2 = (2 * math.pi * f) ** 2
            kex = w2 / g
            for _ in range(60):
                t = math.tanh(kex * depth)
                kex -= (g * kex * t - w2) / (g * t + g * kex * depth * (1 - t * t))
            worst = max(worst, abs(k - kex) / kex, abs(c_ - 2 * math.pi * f / kex) / (2 * math.pi * f / kex), abs(l_ - 2 * math.pi / kex) / (2 * math.pi / kex))
        if worst > 1.0e-3:
            ctx.violation({"op": "dispersion", "grid": True, "k0h_min": x}, "wavenumber / celerity / wavelength of a whole frequency grid are %.3g off the dispersion relation "
                          "(0.1 %% allowed)" % worst, {"depth": depth})
        else:
            ctx.replayed()
    ctx.note("dispersion_cases", n)


def depth_terms(ctx, vectors):
    """depth-dependent drift / slope = sum of exact weights x (library wavenumber)."""
    from wavespectra.core import utils
    done = 0
    for v in vectors:
        if not v["D"] or done >= (40 if ctx.quick else 400):
            continue
        da = L.build(v["F"], v["D"], v["E"])
        f = L.freqs(v["F"])
        for depth in (3.0, 30.0):
            k = np.asarray(utils.wavenuma(f, depth))
            df = np.gradient(f) if len(f) > 1 else np.array([1.0])
            E = np.array(v["E"], float)
            dd = float(v["dd"])
            exp_mss = float(np.sum(k ** 2 * E.sum(1) * dd * df))
            exp_uss = float(np.sum((4 * math.pi * f * k * df)[:, None] * E * dd))
            for name, exp, got in (("mss", exp_mss, float(da.spec.mss(depth=depth))), ("uss", exp_uss, float(da.spec.uss(depth=depth)))):
                ctx.case(("depth", name, depth, sc.fp_of(v)), True)
                if not L.close(exp, got, rel=1e-9):
                    ctx.violation({"op": name + "_depth"}, "%s(depth=%g) is not the k-weighted integral" % (name, depth),
                                  {"F": v["F"], "D": v["D"], "E": v["E"], "expected": exp, "got": got})
                else:
                    ctx.replayed()
        done += 1


def run(ctx):
    setup_repo_imports()
    import xarray as xr
    import wavespectra  # noqa
    ctx.rule = ("TLC enumerates every spectrum over the alphabet on each (frequency grid, direction grid) of MC_Stats; each state is "
                "one vector with exact expected values; all are replayed (quick: seeded sample per grid) through DataArray and "
                "Dataset accessors in float64/float32, batched along a leading dimension, and as 1-D spectra via oned(). "
                "distinct_nontrivial = distinct non-constant spectra replayed.")
    vectors = sc.run_configs(ctx, configs(ctx))
    ctx.exhaustive = not ctx.quick
    ctx.note("lattice_vectors", len(vectors))
    groups = sc.group_by_grid(vectors)
    per_grid = 260 if ctx.quick else 10**9
    for (F, D), vs in groups.items():
        if len(vs) > per_grid:
            ctx.rng.shuffle(vs)
            vs = vs[:per_grid]
        for dtype, rel in (("float64", 1e-9), ("float32", 3e-6)):
            if dtype == "float32" and ctx.quick and len(vs) > 60:
                sub = vs[:60]
            else:
                sub = vs
            batch = L.build_batch(list(F), list(D), [v["E"] for v in sub], dtype=dtype)
            ds = batch.to_dataset(name="efth")
            one = batch.spec.oned() if D else None
            for op in SCALAR_OPS:
                if not D and op in DIRECTIONAL:
                    continue
                for how, acc in (("DataArray", batch.spec), ("Dataset", ds.spec)) + ((("oned", one.spec),) if one is not None and op not in DIRECTIONAL else ()):
                    try:
                        res = np.asarray(call(acc, op).values, dtype=float)
                    except Exception as ex:  # noqa
                        ctx.violation({"op": op, "via": how, "raised": type(ex).__name__},
                                      "%s via %s raised %s" % (op, how, type(ex).__name__), {"F": F, "D": D, "err": str(ex)[:300]})
                        continue
                    for v, got in zip(sub, res):
                        if compare(ctx, v, op, got, rel, how, dtype):
                            ctx.replayed()
            # oned / to_energy bin-wise
            if D:
                got = np.asarray(batch.spec.oned().values, dtype=float)
                for v, g in zip(sub, got):
                    if not np.allclose(g, np.array(v["oned"], float), rtol=rel, atol=1e-9):
                        ctx.violation({"op": "oned", "dtype": dtype}, "oned() is not dd * sum over directions",
                                      {"F": v["F"], "D": v["D"], "E": v["E"], "expected": v["oned"], "got": g.tolist()})
            for v in sub:
                ctx.case(sc.fp_of(v) + dtype, sc.nontrivial(v))
        ctx.sample({"kind": "lattice vector", "F": vs[0]["F"], "D": vs[0]["D"], "E": vs[0]["E"], "hs": vs[0]["hs"],
                    "tm01": vs[0]["tm01"]}, cap=3)
    # single spectra embedded in (lat, lon, time)-like blocks at a random position, other positions differ
    some = [v for v in vectors if v["D"]]
    ctx.rng.shuffle(some)
    for v in some[: (30 if ctx.quick else 300)]:
        same = [w for w in groups[(tuple(v["F"]), tuple(v["D"]))]]
        block = [ctx.rng.choice(same)["E"] for _ in range(6)]
        pos = ctx.rng.randrange(6)
        block[pos] = v["E"]
        arr = np.array(block, float).reshape(2, 3, len(v["F"]), len(v["D"]))
        da = xr.DataArray(arr, coords={"lat": [0.0, 1.0], "lon": [10.0, 11.0, 12.0], "freq": L.freqs(v["F"]), "dir": np.array(v["D"], float)},
                          dims=("lat", "lon", "freq", "dir"), name="efth")
        i, j = divmod(pos, 3)
        for op in ("hs", "tm02", "dspr", "uss_x", "goda"):
            got = float(call(da.spec, op).values[i, j])
            ctx.case(("block", op, sc.fp_of(v)), True)
            if compare(ctx, v, op, got, 1e-9, "DataArray(lat,lon)", "float64"):
                ctx.replayed()
    # ---- hmax with a time axis: k = sqrt(ln(N)/2), N = round(mean time step / Tm02). The records are 5400 s apart on average
    # but not uniformly (the first step is longer), so the mean step is not any single step
    for (F, D), vs in list(groups.items()):
        sub = [v for v in vs if v["hmax_t"] != ["nan"]][: (12 if ctx.quick else 200)]
        if len(sub) < 3:
            continue
        n = len(sub)
        t = np.arange(n) * 5400
        t[1:-1] += np.where(np.arange(1, n - 1) % 2 == 1, 1200, -900)
        batch = L.build_batch(list(F), list(D), [v["E"] for v in sub], dim="time").assign_coords(
            time=np.datetime64("2020-01-01T00:00:00") + t.astype("timedelta64[s]"))
        for how, acc in (("DataArray", batch.spec), ("Dataset", batch.to_dataset(name="efth").spec)):
            res = np.asarray(acc.hmax().values, dtype=float)
            for v, got in zip(sub, res):
                ratio = 5400.0 / L.ev(v["tm02"])
                if abs(ratio - math.floor(ratio) - 0.5) < 1e-6:
                    continue        # the wave count sits on a rounding tie
                ctx.case(("hmax_t", how, sc.fp_of(v)), True)
                exp = L.ev(v["hmax_t"])
                if L.close(exp, got, rel=1e-9, abs_=1e-9):
                    ctx.replayed()
                else:
                    ctx.violation({"op": "hmax", "via": how, "time_axis": "non-uniform"},
                                  "hmax via %s on a non-uniform time axis (mean step 5400 s): expected %.12g = sqrt(ln(N)/2) hs with N = round(5400 / Tm02), "
                                  "library returned %.12g" % (how, exp, got), {"F": v["F"], "D": v["D"], "E": v["E"], "steps_s": np.diff(t).tolist()})
    # ---- a series of ONE record has no time step (Stats!HmaxSeries): a length-1 time dimension left by a selection, a scalar time
    # coordinate, a time dimension without a coordinate - hmax is 1.86 hs there
    for (F, D), vs in list(groups.items()):
        sub = vs[: (6 if ctx.quick else 60)]
        if len(sub) < 3:
            continue
        stamps = np.datetime64("2020-01-01T00:00:00") + (np.arange(len(sub)) * 5400).astype("timedelta64[s]")
        batch = L.build_batch(list(F), list(D), [v["E"] for v in sub], dim="time").assign_coords(time=stamps)
        for i, v in enumerate(sub):
            variants = {"time dimension of length one": batch.isel(time=[i]), "scalar time coordinate": batch.isel(time=i),
                        "time dimension without a coordinate": batch.isel(time=[i]).drop_vars("time")}
            for name, obj in variants.items():
                for how, acc in (("DataArray", obj.spec), ("Dataset", obj.to_dataset(name="efth").spec)):
                    ctx.case(("hmax_one_record", name, how, sc.fp_of(v)), True)
                    try:
                        got = float(np.asarray(acc.hmax().values, dtype=float).ravel()[0])
                    except Exception as ex:  # noqa
                        ctx.violation({"op": "hmax", "via": how, "time_axis": name, "raised": type(ex).__name__}, "hmax via %s raised %s with a %s" % (how, type(ex).__name__, name))
                        continue
                    exp = L.ev(v["hmax"])
                    if L.close(exp, got, rel=1e-9, abs_=1e-9):
                        ctx.replayed()
                    else:
                        ctx.violation({"op": "hmax", "via": how, "time_axis": name},
                                      "hmax via %s of a one-record series (%s): expected 1.86 hs = %.12g, library returned %.12g" % (how, name, exp, got),
                                      {"F": v["F"], "D": v["D"], "E": v["E"]})
    # ---- the drift components for any reference angle theta follow from the two default ones (checked above against the
    # defining integrals): uss_x(theta) = A sin(theta) + B cos(theta), uss_y(theta) = B sin(theta) - A cos(theta) with
    # A = uss_x(90), B = uss_y(90); the same for the directional moments momd(1, theta)
    for (F, D), vs in list(groups.items()):
        if not D or len(D) < 2:
            continue
        sub = vs[: (20 if ctx.quick else 300)]
        batch = L.build_batch(list(F), list(D), [v["E"] for v in sub])
        for how, acc in (("DataArray", batch.spec), ("Dataset", batch.to_dataset(name="efth").spec)):
            for depth in (None, 12.0):
                A = np.asarray(acc.uss_x(depth=depth).values, float)
                B = np.asarray(acc.uss_y(depth=depth).values, float)
                for theta in (0.0, 37.0, 180.0, 270.0):
                    th = math.radians(theta)
                    gx = np.asarray(acc.uss_x(depth=depth, theta=theta).values, float)
                    gy = np.asarray(acc.uss_y(depth=depth, theta=theta).values, float)
                    ex, ey = A * math.sin(th) + B * math.cos(th), B * math.sin(th) - A * math.cos(th)
                    scale = np.abs(np.asarray(acc.uss(depth=depth).values, float)) + 1e-3     # the speed: components may cancel to rounding
                    ctx.case(("uss-theta", how, depth, theta, tuple(F), tuple(D)), True)
                    bad = (np.abs(gx - ex) > 1e-9 * scale + 1e-15) | (np.abs(gy - ey) > 1e-9 * scale + 1e-15)
                    if bad.any():
                        k = int(np.argmax(bad))
                        ctx.violation({"op": "uss_y" if abs(gy[k] - ey[k]) > abs(gx[k] - ex[k]) else "uss_x", "via": how, "theta": theta},
                                      "Stokes drift components at theta=%g (depth=%s) via %s: got (%.9g, %.9g), the defining integral gives (%.9g, %.9g)" %
                                      (theta, depth, how, gx[k], gy[k], ex[k], ey[k]), {"F": sub[k]["F"], "D": sub[k]["D"], "E": sub[k]["E"]})
                    else:
                        ctx.replayed(len(sub))
    # ---- the stats() dispatcher: every keyword dictionary reaches its method, names rename, fmin/fmax equal an explicit split
    for (F, D), vs in list(groups.items())[:: (3 if ctx.quick else 1)]:
        if not D or len(D) < 2 or len(F) < 3:
            continue
        sub = vs[: (10 if ctx.quick else 100)]
        batch = L.build_batch(list(F), list(D), [v["E"] for v in sub])
        req = {"hs": {"tail": False}, "hrms": {"tail": False}, "tp": {"smooth": False}, "uss_x": {"theta": 37.0, "depth": 12.0},
               "uss_y": {"theta": 200.0}, "tm02": {}, "alpha": {"smooth": False}, "gamma": {"scaled": False, "smooth": False}}
        names = ["n_%s" % k for k in req]
        for how, acc in (("DataArray", batch.spec), ("Dataset", batch.to_dataset(name="efth").spec)):
            ctx.case(("stats-dispatch", how, tuple(F), tuple(D)), True)
            try:
                out = acc.stats(req, names=names)
                probs = [k for k, n in zip(req, names) if not np.allclose(np.asarray(out[n].values, float), np.asarray(getattr(acc, k)(**req[k]).values, float),
                                                                         rtol=1e-12, atol=0, equal_nan=True)]
                fmin, fmax = L.freqs(list(F))[0] * 1.02, L.freqs(list(F))[-1] * 0.98
                a = acc.stats(["hs", "tm01"], fmin=fmin, fmax=fmax)
                b = batch.spec.split(fmin=fmin, fmax=fmax).spec.stats(["hs", "tm01"])
                if not all(np.allclose(a[k].values, b[k].values, rtol=1e-12, equal_nan=True) for k in ("hs", "tm01")):
                    probs.append("fmin/fmax")
            except Exception as ex:  # noqa
                probs = ["raised %s: %s" % (type(ex).__name__, str(ex)[:120])]
            if probs:
                ctx.violation({"op": "stats", "via": how, "clause": "keyword-forwarded", "which": probs[:3]},
                              "stats() via %s does not give what the methods give with the same keywords: %s" % (how, probs[:3]), {"F": list(F), "D": list(D)})
            else:
                ctx.replayed()
    tail_threshold(ctx)
    dispersion(ctx)
    depth_terms(ctx, some)
    ctx.assume("exactness holds on the lattice (frequencies multiples of 0.05 Hz, whole degrees, integer energies); float32 compared at 3e-6")
    ctx.assume("hmax is checked without a time axis (k = 1.86) and with a non-uniform one (mean step); swe's documented clamp (<0.001 -> 1.0) is accepted")


def replay(ctx, rep):
    setup_repo_imports()
    import wavespectra  # noqa
    d = rep.get("detail") or {}
    print("stored violation:", rep["what"])
    if "E" in d:
        da = L.build(d["F"], d["D"], d["E"])
        op = rep["key"].get("op")
        try:
            print("now:", float(call(da.spec, op)), "expected:", d.get("expected"))
        except Exception as ex:
            print("now raises", type(ex).__name__, ex)
