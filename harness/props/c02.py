"""C02 - peak parameters are taken at the true spectral peak.

Stats.tla: PeakSet = interior strict local maxima of the direction-integrated spectrum, TopPeaks = the largest of
them (a set when exactly tied), discrete Tp = 1/f_peak, smooth Tp = vertex of the parabola through the peak bin and
its neighbours (TLC checks on every lattice spectrum that the vertex lies strictly between the neighbours), Dpm /
Dpspr from the peak row only, Dp = argmax set of the frequency-summed spectrum, alpha over the exactly-decided tail
window, gamma from the peak value.  MC_Stats enumerates all spectra over an alphabet on grids with 3..7 frequencies
(multi-modal, flat-topped, monotone, all-zero are all in the enumeration) and emits the expectations; they are
replayed through tp(smooth=True/False), fp, dp, dpm, dpspr, alpha, gamma at every position of batched datasets.
"""
import math

import numpy as np

from harness import lattice as L
from harness import stats_common as sc
from harness.core import setup_repo_imports

REL32 = 3e-6   # peak statistics are returned as float32


def configs(ctx):
    if ctx.quick:
        return [((0, 1, 2, 3), (2, 3), (0,), False), ((0, 1, 3), (5,), (0,), False), ((0, 2), (6,), (0,), False),
                ((0, 1, 3), (2,), (4, 3), False), ((0, 2), (1,), (2,), False)]
    return [((0, 1, 2, 3), (1, 2, 3), (0,), False), ((0, 1, 2, 3), (5,), (0,), False), ((0, 1, 2), (6,), (0,), False),
            ((0, 1, 3), (2, 3), (4, 3, 2), False), ((0, 2), (1,), (2, 1), False), ((0, 3), (5,), (4,), False)]


def window_margin(v, pk):
    """distance of f/fp from the window bounds 1.35 and 2 (float32 casts make near-boundary cases undecidable)."""
    fp = L.ev(pk["fp_smooth"])
    m = 1e9
    for F in v["F"]:
        r = (F / 20.0) / fp
        m = min(m, abs(r - 1.35), abs(r - 2.0))
    return m


def check_vector(ctx, v, got, how):
    """got: dict op -> float for this spectrum."""
    peaks = v["peaks"]
    E_key = {"F": v["F"], "D": v["D"], "E": v["E"]}

    def bad(op, exp, g, extra=None):
        k = {"op": op, "via": how, "haspeak": bool(peaks)}
        if extra:
            k.update(extra)
        ctx.violation(k, "%s via %s: expected %s at the true peak, library returned %.9g" % (op, how, exp, g),
                      dict(E_key, expected=exp, got=g, peaks=[p["p"] for p in peaks]))

    if not peaks:
        for op in ("tp", "tp_raw", "fp", "dpm", "dpspr"):
            if op in got and not math.isnan(got[op]):
                bad(op, "NaN (no interior local maximum)", got[op])
            elif op in got:
                ctx.replayed()
        return
    # any of the exactly tied top peaks is acceptable
    def anyof(op, field, rel, circular=False, transform=None):
        if op not in got:
            return
        exps = []
        for pk in peaks:
            e = L.ev(pk[field])
            exps.append(transform(e) if transform else e)
        if any(L.close(e, got[op], rel=rel, abs_=2e-5, circular=circular) for e in exps):
            ctx.replayed()
        else:
            bad(op, exps, got[op])
    anyof("tp_raw", "tp_raw", REL32)
    anyof("tp", "fp_smooth", REL32, transform=lambda f: 1.0 / f)
    anyof("fp", "fp_smooth", REL32)
    if v["D"]:
        # mean direction / spread at the peak are undefined when the peak row has no net direction / zero spread
        for op, field, circ in (("dpm", "dpm", True), ("dpspr", "dpspr", False)):
            if op not in got:
                continue
            oks = []
            for pk in peaks:
                if pk[field][0] == "nan":
                    oks.append(math.isnan(got[op]))
                    continue
                ws = pk["dpm"][1][2][1][2]
                res = 1.0 - L.spread_margin(ws)
                if op == "dpm" and res < 1e-6:
                    oks.append(True)
                    continue
                if op == "dpspr" and L.spread_margin(ws) < 1e-6:
                    oks.append(math.isnan(got[op]) or abs(got[op]) < 0.2)
                    continue
                oks.append(L.close(L.ev(pk[field]), got[op], rel=REL32, abs_=5e-4 if op == "dpm" else 5e-4, circular=circ))
            if any(oks):
                ctx.replayed()
            else:
                bad(op, [L.ev(pk[field]) for pk in peaks], got[op])
        if "dp" in got:
            if any(abs(got["dp"] - d) < 1e-4 for d in v["dp"]):
                ctx.replayed()
            else:
                bad("dp", v["dp"], got["dp"])
    # alpha / gamma: only when the peak is unique and the window decisions have a margin
    if len(peaks) == 1:
        pk = peaks[0]
        if window_margin(v, pk) > 2e-3:
            if "alpha" in got:
                e = L.ev(pk["alpha"])
                if L.close(e, got["alpha"], rel=2e-5, abs_=1e-9):
                    ctx.replayed()
                else:
                    bad("alpha", e, got["alpha"], {"npos": len(pk["pos"]), "nwin": len(pk["win"])})
        else:
            ctx.notes["skipped_by_margin"] = ctx.notes.get("skipped_by_margin", 0) + 1
        # smooth=False: everything is evaluated at the discrete peak frequency
        fraw = v["F"][pk["p"] - 1] / 20.0
        mraw = min(min(abs((F / 20.0) / fraw - 1.35), abs((F / 20.0) / fraw - 2.0)) for F in v["F"])
        if mraw > 2e-3 and "alpha_raw" in got:
            e = L.ev(pk["alpha_raw"])
            if L.close(e, got["alpha_raw"], rel=2e-5, abs_=1e-9):
                ctx.replayed()
            else:
                bad("alpha(smooth=False)", e, got["alpha_raw"], {"at_smooth_fp": L.close(L.ev(pk["alpha"]), got["alpha_raw"], rel=2e-5, abs_=1e-9)})
        if "gamma_noscale_raw" in got:
            e = max(1.0, L.ev(pk["gamma_noscale_raw"]))
            if L.close(e, got["gamma_noscale_raw"], rel=2e-5, abs_=1e-6):
                ctx.replayed()
            else:
                bad("gamma(smooth=False)", e, got["gamma_noscale_raw"])
        if "gamma_raw" in got:
            e = max(1.0, L.ev(pk["gamma_raw"]))
            e2 = max(1.0, L.ev(pk["gamma_raw_at_max"]))
            if L.close(e, got["gamma_raw"], rel=2e-5, abs_=1e-6):
                ctx.replayed()
            else:
                bad("gamma", e, got["gamma_raw"], {"class": "uses-global-maximum" if L.close(e2, got["gamma_raw"], rel=2e-5) else "other"})


def run(ctx):
    setup_repo_imports()
    import wavespectra  # noqa
    ctx.rule = ("TLC enumerates every spectrum over the alphabet on grids with 3..7 frequencies (1-D and 1-3 directions); each vector "
                "carries the set of admissible peaks and the exact peak statistics; replay through the accessor on batched datasets "
                "(every position). distinct_nontrivial = distinct non-constant spectra replayed.")
    vectors = sc.run_configs(ctx, configs(ctx))
    ctx.exhaustive = not ctx.quick
    ctx.note("lattice_vectors", len(vectors))
    groups = sc.group_by_grid(vectors)
    cap = 700 if ctx.quick else 10**9
    for (F, D), vs in groups.items():
        if len(vs) > cap:
            ctx.rng.shuffle(vs)
            vs = vs[:cap]
        for dtype in ("float64", "float32"):
            batch = L.build_batch(list(F), list(D), [v["E"] for v in vs], dtype=dtype)
            ds = batch.to_dataset(name="efth")
            for how, acc in (("DataArray", batch.spec), ("Dataset", ds.spec)):
                res = {}
                calls = {"tp": lambda a: a.tp(), "tp_raw": lambda a: a.tp(smooth=False), "fp": lambda a: a.fp(),
                         "alpha": lambda a: a.alpha(), "gamma_raw": lambda a: a.gamma(scaled=False),
                         "alpha_raw": lambda a: a.alpha(smooth=False), "gamma_noscale_raw": lambda a: a.gamma(smooth=False, scaled=False)}
                if D:
                    calls.update({"dp": lambda a: a.dp(), "dpm": lambda a: a.dpm(), "dpspr": lambda a: a.dpspr()})
                for op, fn in calls.items():
                    try:
                        res[op] = np.asarray(fn(acc).values, dtype=float)
                    except Exception as ex:  # noqa
                        ctx.violation({"op": op, "via": how, "raised": type(ex).__name__},
                                      "%s via %s raised %s: %s" % (op, how, type(ex).__name__, str(ex)[:200]), {"F": F, "D": D})
                for i, v in enumerate(vs):
                    check_vector(ctx, v, {op: float(a[i]) for op, a in res.items()}, how + "/" + dtype)
            for v in vs:
                ctx.case(sc.fp_of(v) + dtype, sc.nontrivial(v))
        ctx.sample({"kind": "lattice vector", "F": vs[0]["F"], "D": vs[0]["D"], "E": vs[0]["E"],
                    "peaks": [p["p"] for p in vs[0]["peaks"]], "dp": vs[0]["dp"]}, cap=3)
    # ---- the peak direction is a COORDINATE of the grid, whatever labels the grid uses: north written as 360, or the -180..180
    # convention (the labels are not reduced modulo 360)
    for (F, D), vs in groups.items():
        if not D:
            continue
        for name, relabel in (("north=360", lambda d: 360 if d == 0 else d), ("-180..180", lambda d: d - 360 if d > 180 else d)):
            D2 = [relabel(d) for d in D]
            if D2 == list(D):
                continue
            sub = vs[:150]
            batch = L.build_batch(list(F), list(D), [v["E"] for v in sub]).assign_coords(dir=np.array(D2, float))
            for how, acc in (("DataArray", batch.spec), ("Dataset", batch.to_dataset(name="efth").spec)):
                try:
                    got = np.asarray(acc.dp().values, float)
                except Exception as ex:  # noqa
                    ctx.violation({"op": "dp", "via": how, "raised": type(ex).__name__, "labels": name}, "dp raised %s on a grid labelled %s" % (type(ex).__name__, name), {"D": D2})
                    continue
                for v, g in zip(sub, got):
                    ctx.case(("dp-labels", name, how, sc.fp_of(v)), True)
                    if any(abs(g - relabel(d)) < 1e-4 for d in v["dp"]):
                        ctx.replayed()
                    else:
                        ctx.violation({"op": "dp", "via": how, "labels": name},
                                      "dp = %g on a grid labelled %s (%s): not the coordinate of the largest frequency-summed bin %s" % (g, name, D2, [relabel(d) for d in v["dp"]]),
                                      {"F": v["F"], "D": D2, "E": v["E"]})
    # ---- the frequency axis stored from high to low (a file ordered by period, sortby(freq, ascending=False)): the peak is a property
    # of the labelled spectrum, so the peak statistics that are defined bin-wise (they involve no integration width) are what they are on
    # the ascending axis.  (Integrated statistics assume ascending frequencies in this library - hs is NaN there - and are not compared.)
    for (F, D), vs in groups.items():
        sub = vs[:120]
        batch = L.build_batch(list(F), list(D), [v["E"] for v in sub])
        rev = batch.isel(freq=slice(None, None, -1))
        calls = {"tp": lambda a: a.tp(), "tp_raw": lambda a: a.tp(smooth=False), "fp": lambda a: a.fp()}
        if D:
            calls.update({"dp": lambda a: a.dp(), "dpm": lambda a: a.dpm()})
        for how, (a0, a1) in (("DataArray", (batch.spec, rev.spec)), ("Dataset", (batch.to_dataset(name="efth").spec, rev.to_dataset(name="efth").spec))):
            for op, fn in calls.items():
                try:
                    x, y = np.asarray(fn(a0).values, float), np.asarray(fn(a1).values, float)
                except Exception as ex:  # noqa
                    ctx.violation({"op": op, "via": how, "freq_stored": "descending", "raised": type(ex).__name__}, "%s via %s raised %s with the frequencies stored descending" % (op, how, type(ex).__name__))
                    continue
                for v, p, q in zip(sub, x, y):
                    if len(v["peaks"]) > 1 and op != "dp":
                        continue          # exactly tied peaks: any of them (the choice may follow the storage order)
                    ctx.case(("desc-freq", op, how, sc.fp_of(v)), True)
                    same = (np.isnan(p) and np.isnan(q)) or (abs(p - q) <= 3e-6 * max(1.0, abs(p))) or (op in ("dp", "dpm") and abs((p - q + 180) % 360 - 180) < 1e-3)
                    if same or (op == "dp" and len(v["dp"]) > 1):
                        ctx.replayed()
                    else:
                        ctx.violation({"op": op, "via": how, "freq_stored": "descending"},
                                      "%s via %s is %.9g with the frequencies stored descending, %.9g ascending" % (op, how, q, p), {"F": v["F"], "D": v["D"], "E": v["E"]})
    ctx.assume("peak statistics are float32 in the library: compared at 3e-6 relative; alpha only where every f/fp is at least 2e-3 away "
               "from 1.35 and 2; among exactly tied peaks / directions any is accepted")
