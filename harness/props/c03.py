"""C03 - PTM1/2/3 partitions are a sound, ordered, energy-conserving split.

Partition.tla models the pipeline the code runs after the watershed (Mask -> Classify -> Order -> Fit) and,
independently, restates the property clause by clause (Valid*).  MC_Partition: TLC checks Outputs \\subseteq Valid over
every spectrum x every label map (canonical numbering) x every wave-age mask of one wind x cutoffs x requested counts.
Binding:
 * spec -> code: each state is replayed into np_ptm1/2/3 with the watershed stubbed to return the state's label map
   (so label maps the real watershed never produces are covered too); the result must be one of Outputs.
 * code -> spec: random spectra go through the real watershed and np_ptm*/the accessor methods on datasets with
   leading dimensions; the recorded (spectrum, label map, mask, output) is validated by PartitionTrace (Valid*).
"""
import json
import math
import os
import tempfile

import numpy as np

from harness import ws
from harness.core import BUILD, MachineryError, run_tlc, setup_repo_imports

AGEFAC = 1.7
DEPTH = 5000.0


def mc_cfg(nk, nth, fname, vals, nlab, aopts, wdopts, cuts, reqs, emit):
    txt = ("SPECIFICATION Spec\nCONSTANTS NK = %d\n NTH = %d\n F <- %s\n Vals = {%s}\n NLAB = %d\n AOPTS = {%s}\n WDOPTS = {%s}\n"
           " CUTS <- %s\n REQS = {%s}\n EMIT = %s\n" % (nk, nth, fname, ",".join(map(str, vals)), nlab, ",".join(map(str, aopts)),
                                                     ",".join(map(str, wdopts)), cuts, ",".join(map(str, reqs)),
                                                     "TRUE" if emit else "FALSE"))
    txt += "INVARIANT Ptm1Valid\nINVARIANT Ptm2Valid\nINVARIANT Ptm3Valid\nINVARIANT NonEmptyOutcome\n"
    if emit:
        txt += "INVARIANT EmitInv\n"
    return ws.write_cfg("part_%d_%d_%s_%s_%d_%d.cfg" % (nk, nth, fname, "".join(map(str, vals)), nlab, emit), txt)


class StubSpecpart:
    """stands in for the C extension inside partition.py: returns the label map chosen by the spec."""
    def __init__(self):
        self.L = None

    def partition(self, arr, ihmax):
        return np.array(self.L, dtype="int32").reshape(arr.shape)


def float_mask(F, D, A, wd):
    """wave-age mask with a margin check: None if any bin is within 0.5 % of the decision."""
    c = np.array([1.56 / (f / 20.0) for f in F])
    up = A * np.cos(np.radians(np.array(D, float) - wd))
    m = up[None, :] > c[:, None]
    rel = np.abs(up[None, :] - c[:, None]) / c[:, None]
    if (rel < 5e-3).any():
        return None
    return m


def replay_vectors(ctx, vectors, pmod):
    stub = StubSpecpart()
    real = pmod.specpart
    pmod.specpart = stub
    skipped = 0
    try:
        for v in vectors:
            nk, nth, F = v["nk"], v["nth"], v["F"]
            D = [j * (360 // nth) for j in range(nth)]
            freq = np.array([f / 20.0 for f in F])
            dirs = np.array(D, float)
            E = np.array(v["E"], float).reshape(nk, nth)
            fm = float_mask(F, D, v["A"], v["wd"])
            W = np.zeros((nk, nth), bool)
            for n in v["W"]:
                W[n // nth, n % nth] = True
            ctx.case(("v", json.dumps([v["E"], v["L"], v["A"], v["wd"], v["cutn"], v["req"]])), len(set(v["E"])) > 1)
            # wsfrac = wscut exactly: floating point decides only when the cutoff is not exactly representable; with a cutoff of
            # 0 or 1 the fraction 0/x or x/x is exact and the strict comparison of the code is decidable
            if fm is None or not np.array_equal(fm, W) or (v["tie"] and v["cutd"] == 10000):
                skipped += 1
                continue
            stub.L = v["L"]
            wscut = v["cutn"] / v["cutd"]
            wspd, wdir_, dpt_ = v["A"] / AGEFAC, float(v["wd"]), DEPTH
            if v["A"] == 0:
                # an empty wave-age mask is also what a MISSING wind gives (no bin's celerity is below a component that is not a
                # number): every third such vector is realised with NaN wind speed, wind direction or depth instead of a calm
                k = ctx.rng.randrange(6)
                if k == 0:
                    wspd = float("nan")
                elif k == 1:
                    wspd, wdir_ = 25.0, float("nan")
                elif k == 2:
                    wspd, dpt_ = 25.0, float("nan")
            calls = {
                "ptm1": lambda: pmod.np_ptm1(E, E, freq, dirs, wspd, wdir_, dpt_, AGEFAC, wscut, v["req"], 100),
                "ptm2": lambda: pmod.np_ptm2(E, E, freq, dirs, wspd, wdir_, dpt_, AGEFAC, wscut, v["req"], 100),
                "ptm3": lambda: pmod.np_ptm3(E, E, freq, dirs, v["req"], 100),
            }
            for name, fn in calls.items():
                try:
                    with np.errstate(all="ignore"):
                        out = np.asarray(fn())
                except Exception as ex:  # noqa
                    ctx.violation({"where": "replay", "fn": name, "raised": type(ex).__name__},
                                  "np_%s raised %s" % (name, type(ex).__name__), {"v": {k: v[k] for k in ("E", "L", "A", "wd", "req")}, "err": str(ex)[:200]})
                    continue
                got = [[int(round(x)) for x in part.ravel()] for part in out] if out.size else []
                exact = out.size == 0 or np.allclose(out, np.round(out))
                allowed = v[name]
                if exact and got in allowed:
                    ctx.replayed()
                elif v["req"] == 0 and name == "ptm3" and out.size == 0 and allowed == [[]]:
                    ctx.replayed()
                else:
                    ctx.violation({"where": "replay", "fn": name, "req_vs_labels": int(np.sign(v["req"] - max(v["L"])))},
                                  "np_%s output is not one of the results Partition.tla allows" % name,
                                  {"E": v["E"], "L": v["L"], "A": v["A"], "wd": v["wd"], "cut": [v["cutn"], v["cutd"]], "req": v["req"],
                                   "F": F, "shape": [nk, nth], "got": got, "allowed": allowed[:3]})
    finally:
        pmod.specpart = real
    ctx.note("vectors_skipped_by_mask_margin_or_cut_tie", ctx.notes.get("vectors_skipped_by_mask_margin_or_cut_tie", 0) + skipped)


# ---------------------------------------------------------------- code -> spec
def trace_cfg(nk, nth, F):
    name = "F_%s" % "_".join(map(str, F))
    return name, ws.write_cfg("ptrace_%d_%d_%s.cfg" % (nk, nth, name),
                              "SPECIFICATION TSpec\nCONSTANTS NK = %d\n NTH = %d\n F <- TraceF\nPOSTCONDITION Verdict\n" % (nk, nth))


def validate(ctx, groups):
    rej = []
    os.makedirs(os.path.join(BUILD, "traces"), exist_ok=True)
    for (nk, nth, F), lines in groups.items():
        fd, path = tempfile.mkstemp(prefix="pt-", suffix=".ndjson", dir=os.path.join(BUILD, "traces"))
        with os.fdopen(fd, "w") as fh:
            fh.write(json.dumps({"kind": "grid", "F": list(F)}) + "\n")
            for ln in lines:
                fh.write(json.dumps(ln, separators=(",", ":")) + "\n")
        _, cfg = trace_cfg(nk, nth, F)
        r = run_tlc("PartitionTrace", cfg, workers=1, env={"TRACE_FILE": path}, timeout=1800)
        ctx.states += r.states
        ctx.transitions += r.transitions
        ctx.tlc_runs.append({"module": "PartitionTrace", "label": "%dx%d x%d" % (nk, nth, len(lines)), "states": r.states,
                             "transitions": r.transitions, "wall_s": round(r.wall, 2)})
        v = [x for x in r.vectors if isinstance(x, dict) and x.get("verdict") == "PartitionTrace"]
        if not v:
            raise MachineryError("PartitionTrace gave no verdict: %s\n%s" % (r.errors[:6], r.out[-2500:]))
        v = v[-1]
        if v["accepted"] + len(v["rejected"]) != len(lines):
            raise MachineryError("PartitionTrace verdicts not total: %s" % v)
        ctx.replayed(v["accepted"])
        rej += [(x["tid"], x["clause"]) for x in v["rejected"]]
        os.unlink(path)
    return rej


def random_spectrum(rng, nk, nth, style):
    n = nk * nth
    if style == "const":
        return [4] * n
    if style == "sparse":
        return [rng.randint(1, 60) if rng.random() < 0.35 else 0 for _ in range(n)]
    if style == "plateau":
        return [rng.choice((0, 8, 8, 24, 48)) for _ in range(n)]
    e = [0] * n
    for _ in range(rng.randint(1, 4)):
        ci, cj, a = rng.randrange(nk), rng.randrange(nth), rng.randint(10, 60)
        for i in range(nk):
            for j in range(nth):
                dj = min((j - cj) % nth, (cj - j) % nth)
                e[i * nth + j] += max(0, a - 6 * (abs(i - ci) + dj) ** 2)
    if style == "noisy":
        e = [x + rng.randint(0, 5) for x in e]
    return e


def wind_on_threshold(ctx, pmod):
    """a wind sitting EXACTLY on the wave-age threshold of a grid bin (wind along a spectral direction, agefac x wspd equal - bit for bit -
    to the library's own celerity of a spectral frequency): whichever side the tie goes, every bin still belongs to exactly one
    partition, so with no limit on the number of swells the partitions add up to the input."""
    import xarray as xr
    from wavespectra.core.utils import celerity
    rng = np.random.RandomState(ctx.seed + 5)
    nk, nth = 10, 12
    freq, dirs = 0.05 + 0.03 * np.arange(nk), np.arange(nth) * 30.0
    ii, jj = np.meshgrid(np.arange(nk), np.arange(nth), indexing="ij")
    for rep in range(6 if ctx.quick else 60):
        a = np.zeros((nk, nth))
        for amp in (90, 60, 35):
            ci, cj = rng.randint(1, nk - 1), rng.randint(0, nth)
            dj = np.minimum((jj - cj) % nth, (cj - jj) % nth)
            a += np.maximum(0, amp - 0.2 * amp * (np.abs(ii - ci) + dj) ** 2)
        a += rng.randint(1, 4, size=a.shape)             # energy in every bin: a bin left out of every partition shows
        dpt = float(rng.choice([15.0, 60.0, 2000.0]))
        k, j = rng.randint(1, nk - 1), rng.randint(0, nth)
        agefac = float(rng.choice([1.0, 1.0, 2.0, 0.5]))
        wspd = float(celerity(freq, dpt)[k]) / agefac
        if agefac * wspd != float(celerity(freq, dpt)[k]):
            agefac, wspd = 1.0, float(celerity(freq, dpt)[k])
        wdir = float(dirs[j])
        for name in ("ptm1", "ptm2"):
            ctx.case(("wind-tie", rep, name), True)
            try:
                parts = np.asarray(getattr(pmod, "np_" + name)(a, a, freq, dirs, wspd, wdir, dpt, agefac=agefac, wscut=0.3333, swells=None, ihmax=100), float)
                da = xr.DataArray(a, coords={"freq": freq, "dir": dirs}, dims=("freq", "dir"), name="efth")
                acc = getattr(da.spec.partition, name)(xr.DataArray(wspd), xr.DataArray(wdir), xr.DataArray(dpt), agefac=agefac, swells=12)
                bad = []
                if not np.allclose(parts.sum(axis=0), a, rtol=1e-12, atol=0):
                    kk = np.unravel_index(np.argmax(np.abs(parts.sum(axis=0) - a)), a.shape)
                    bad.append("np_%s: partitions sum to %.6g at bin %s, input %.6g" % (name, parts.sum(axis=0)[kk], kk, a[kk]))
                s2 = np.asarray(acc.sum("part").transpose("freq", "dir").values, float)
                if not np.allclose(s2, a, rtol=1e-6, atol=0):
                    kk = np.unravel_index(np.argmax(np.abs(s2 - a)), a.shape)
                    bad.append("accessor %s: partitions sum to %.6g at bin %s, input %.6g" % (name, s2[kk], kk, a[kk]))
            except Exception as ex:  # noqa
                bad = ["raised %s: %s" % (type(ex).__name__, str(ex)[:150])]
            if bad:
                ctx.violation({"op": name, "clause": "Conserving", "where": "wind-on-threshold"},
                              "%s with the wind exactly on the wave-age threshold of bin (%d, %d): %s" % (name, k, j, bad[0]),
                              {"wspd": wspd, "wdir": wdir, "dpt": dpt, "agefac": agefac, "spectrum": a.tolist()})
            else:
                ctx.replayed()


def _threaded_ptm3(seed, n, nk, nth, workers):
    """np_ptm3 / np_ptm1 from a pool of threads (what a threaded dask scheduler does with the blocks): every result must be the serial
    one and must add up to its input."""
    from concurrent.futures import ThreadPoolExecutor
    import wavespectra.partition.partition as pmod
    rng = np.random.RandomState(seed)
    freq, dirs = 0.04 + 0.01 * np.arange(nk), np.arange(nth) * (360.0 / nth)
    ii, jj = np.meshgrid(np.arange(nk), np.arange(nth), indexing="ij")
    specs = []
    for _ in range(n):
        a = np.zeros((nk, nth))
        for _k in range(4):
            ci, cj, amp = rng.randint(1, nk - 1), rng.randint(0, nth), rng.randint(30, 90)
            dj = np.minimum((jj - cj) % nth, (cj - jj) % nth)
            a += np.maximum(0, amp - 0.4 * (np.abs(ii - ci) + dj) ** 2)
        specs.append(a + rng.randint(1, 3, size=a.shape))
    def one(x):
        try:
            return np.asarray(pmod.np_ptm3(x, x, freq, dirs, parts=None, ihmax=100), float)
        except BaseException as ex:  # noqa  (an outcome under concurrency, not a harness failure)
            return "%s: %s" % (type(ex).__name__, str(ex)[:80])
    serial = [one(x) for x in specs]
    with ThreadPoolExecutor(max_workers=workers) as ex:
        par = list(ex.map(one, specs * 3))
    differ = sum(1 for k, m in enumerate(par) if isinstance(m, str) or isinstance(serial[k % n], str) or m.shape != serial[k % n].shape or not np.array_equal(m, serial[k % n]))
    lost = sum(1 for k, m in enumerate(par) if not isinstance(m, str) and not np.allclose(m.sum(axis=0), specs[k % n], rtol=1e-6, atol=0))
    return differ, lost, len(par)


def concurrent_partitions(ctx):
    from harness.core import run_forked
    n, nk, nth, workers = (24, 40, 48, 8) if ctx.quick else (96, 48, 72, 16)
    kind, val = run_forked(_threaded_ptm3, ctx.seed, n, nk, nth, workers, timeout=900)
    ctx.case(("threads-ptm3", n, nk, nth, workers), True)
    if kind == "crash":
        ctx.violation({"where": "threads", "kind": "crash"}, "the interpreter died while %d threads partitioned spectra concurrently (%s)" % (workers, val))
        return
    differ, lost, total = val
    if differ or lost:
        ctx.violation({"where": "threads", "clause": "Conserving" if lost else "serial-result"},
                      "np_ptm3 from %d concurrent threads: %d of %d results differ from the serial ones, %d do not add up to their input" % (workers, differ, total, lost),
                      {"grid": [nk, nth], "workers": workers})
    else:
        ctx.replayed(total)


def forwarding(ctx, pmod):
    import xarray as xr
    from wavespectra.core.utils import smooth_spec
    rng = np.random.RandomState(ctx.seed + 3)
    nk, nth = 9, 12
    freq, dirs = 0.05 + 0.025 * np.arange(nk), np.arange(nth) * 30.0
    ii, jj = np.meshgrid(np.arange(nk), np.arange(nth), indexing="ij")

    def spec():
        a = np.zeros((nk, nth))
        for amp in (90, 60, 35, 20):
            ci, cj = rng.randint(1, nk - 1), rng.randint(0, nth)
            dj = np.minimum((jj - cj) % nth, (cj - jj) % nth)
            a += np.maximum(0, amp - 0.3 * amp * (np.abs(ii - ci) + dj) ** 2)
        return a + rng.randint(0, 3, size=a.shape)
    for rep in range(2 if ctx.quick else 12):
        arr = np.stack([spec() for _ in range(2)])
        da = xr.DataArray(arr, coords={"time": [0, 1], "freq": freq, "dir": dirs}, dims=("time", "freq", "dir"), name="efth")
        mk = lambda v: xr.DataArray(np.asarray(v, float), coords={"time": [0, 1]}, dims=("time",))  # noqa
        wspd, wdir, dpt = [9.0, 14.0], [40.0, 200.0], [25.0, 400.0]
        settings = [dict(), dict(agefac=1.2), dict(wscut=0.7), dict(wscut=0.0), dict(swells=1), dict(swells=5), dict(ihmax=4), dict(ihmax=1),
                    dict(smooth=True), dict(smooth=True, freq_window=1, dir_window=5), dict(smooth=True, freq_window=5, dir_window=3)]
        for kw in settings:
            fw, dw = kw.get("freq_window", 3), kw.get("dir_window", 3)
            sm = smooth_spec(da, fw, dw).transpose("time", "freq", "dir").values if kw.get("smooth") else arr
            agefac, wscut, swells, ihmax = kw.get("agefac", 1.7), kw.get("wscut", 0.3333), kw.get("swells", 3), kw.get("ihmax", 100)
            for name in ("ptm1", "ptm2", "ptm3"):
                ctx.case(("forward", rep, name, json.dumps(kw, sort_keys=True)), True)
                try:
                    if name == "ptm3":
                        kw3 = {k: v for k, v in kw.items() if k in ("ihmax", "smooth", "freq_window", "dir_window")}
                        got = da.spec.partition.ptm3(parts=swells, **kw3).transpose("time", "part", "freq", "dir").values
                        ref = [np.asarray(pmod.np_ptm3(arr[t], sm[t], freq, dirs, swells, ihmax)) for t in range(2)]
                    else:
                        got = getattr(da.spec.partition, name)(mk(wspd), mk(wdir), mk(dpt), **kw).transpose("time", "part", "freq", "dir").values
                        ref = [np.asarray(getattr(pmod, "np_" + name)(arr[t], sm[t], freq, dirs, wspd[t], wdir[t], dpt[t], agefac, wscut, swells, ihmax)) for t in range(2)]
                    ok = all(got[t].shape == ref[t].shape and np.allclose(got[t], ref[t], rtol=1e-6, atol=1e-9) for t in range(2))
                    what = "differs from np_%s called with the same values" % name
                except Exception as ex:  # noqa
                    ok, what = False, "raised %s: %s" % (type(ex).__name__, str(ex)[:120])
                if ok:
                    ctx.replayed()
                else:
                    ctx.violation({"where": "accessor", "fn": name, "clause": "keyword-forwarded", "keywords": sorted(kw)},
                                  "accessor %s(%s) %s" % (name, kw, what), {"keywords": kw})


def run(ctx):
    setup_repo_imports()
    import xarray as xr
    import wavespectra  # noqa
    from wavespectra.partition import partition as pmod
    from wavespectra.partition import specpart
    rng = ctx.rng
    ctx.rule = ("TLC: every spectrum over the alphabet x canonical label maps (<= 3 classes) x wave-age masks of one wind x "
                "cutoffs {0, 0.3333, 1} x requested counts 0..4 on 2x2 / 2x3 / 3x2 grids; each state replayed into np_ptm1/2/3 with "
                "the watershed stubbed; random spectra (smooth, noisy, plateau, sparse, constant) through the real watershed, "
                "np_ptm* and accessor methods validated by PartitionTrace. distinct_nontrivial = distinct non-constant inputs.")
    if ctx.quick:
        cfgs = [(2, 2, "F37", (0, 1, 2), 2, (0, 6), (0,), "CutsAll", (0, 1, 3)),
                (2, 2, "F37", (0, 3), 3, (6, 40), (60,), "CutsDefault", (1, 2)),
                (2, 3, "F26", (0, 2), 2, (0, 12), (0,), "CutsDefault", (1, 3))]
    else:
        cfgs = [(2, 2, "F37", (0, 1, 2), 3, (0, 6, 40), (0, 60), "CutsAll", (0, 1, 2, 3, 4)),
                (2, 3, "F26", (0, 2), 3, (0, 12), (0, 60), "CutsDefault", (0, 1, 2, 3, 4)),      # 64 spectra x label maps x 4 masks x 5 counts
                (3, 2, "F237", (0, 3), 3, (0, 6, 12), (0,), "CutsAll", (1, 2, 3)),
                (1, 3, "F5", (0, 1, 2), 3, (0, 40), (0,), "CutsAll", (0, 1, 2, 3, 4))]
    for c in cfgs:
        r = ctx.tlc("MC_Partition", mc_cfg(*c, emit=True), workers=1, timeout=3000, label="exhaustive %dx%d %s" % (c[0], c[1], c[2]))
        for inv in r.violated:
            if inv != "EmitInv":
                ctx.violation({"where": "spec", "invariant": inv}, "MC_Partition: %s violated (pipeline result outside the property)" % inv, r.cex[:5000])
        vecs = r.vectors
        if ctx.quick and len(vecs) > 9000:
            rng.shuffle(vecs)
            vecs = vecs[:9000]
        replay_vectors(ctx, vecs, pmod)
        if vecs:
            v = vecs[0]
            ctx.sample({"kind": "state replayed with stubbed watershed", "E": v["E"], "L": v["L"], "A": v["A"], "wd": v["wd"], "req": v["req"],
                        "ptm1_allowed": v["ptm1"][:2]}, cap=2)
    ctx.exhaustive = True

    # ---- real watershed, numpy level and accessor level, validated by PartitionTrace
    groups = {}
    index = {}
    tid = 0
    shapes = [((4, 6), (2, 3, 5, 7)), ((6, 8), (1, 2, 3, 5, 7, 9)), ((5, 4), (2, 3, 4, 6, 8)), ((3, 3), (3, 5, 8)), ((2, 4), (4, 8))]
    nper = 12 if ctx.quick else 150
    for (nk, nth), F in shapes:
        D = [j * (360 // nth) for j in range(nth)]
        freq = np.array([f / 20.0 for f in F])
        dirs = np.array(D, float)
        for k in range(nper):
            style = ("smooth", "noisy", "plateau", "sparse", "const")[k % 5]
            e = random_spectrum(rng, nk, nth, style)
            ihmax = rng.choice((100, 100, 5, 2))
            if not ws.level_tie_free(e, ihmax):
                continue
            E = np.array(e, float).reshape(nk, nth)
            A = rng.choice((0, 6, 12, 25, 40))
            wd = rng.choice((0, 60, 180))
            fm = float_mask(F, D, A, wd)
            if fm is None:
                continue
            Lmap = specpart.partition(E.astype("float32"), ihmax)
            req = rng.randint(0, 6)
            wscut = rng.choice((0.0, 0.3333, 1.0))
            cutn, cutd = {0.0: (0, 1), 0.3333: (3333, 10000), 1.0: (1, 1)}[wscut]
            for name in ("ptm1", "ptm2", "ptm3"):
                with np.errstate(all="ignore"):
                    if name == "ptm3":
                        out = pmod.np_ptm3(E, E, freq, dirs, req, ihmax)
                    else:
                        out = getattr(pmod, "np_" + name)(E, E, freq, dirs, A / AGEFAC, float(wd), DEPTH, AGEFAC, wscut, req, ihmax)
                out = np.asarray(out)
                if out.size and not np.allclose(out, np.round(out)):
                    ctx.violation({"where": "trace", "fn": name, "clause": "BinwiseOrigOrZero"}, "np_%s returned non-lattice values" % name, {"e": e})
                    continue
                ctx.case(("t", name, nk, nth, tuple(e), A, wd, req, wscut, ihmax), len(set(e)) > 1)
                ln = {"kind": name, "tid": tid, "E": e, "L": [int(x) for x in Lmap.ravel()], "W": [int(x) for x in np.flatnonzero(fm.ravel())],
                      "cutn": cutn, "cutd": cutd, "req": req,
                      "out": [[int(round(x)) for x in p.ravel()] for p in out] if out.size else []}
                groups.setdefault((nk, nth, tuple(F)), []).append(ln)
                index[tid] = ("np_" + name, e, (nk, nth), ihmax, A, wd, req, wscut, style)
                tid += 1
        # accessor level on a (time, site) dataset: each position with its own wind / depth
        nt, ns = (2, 2) if ctx.quick else (3, 3)
        block = [random_spectrum(rng, nk, nth, rng.choice(("smooth", "noisy", "sparse"))) for _ in range(nt * ns)]
        if all(ws.level_tie_free(b, 100) for b in block):
            arr = np.array(block, "float32").reshape(nt, ns, nk, nth)
            da = xr.DataArray(arr, coords={"time": np.arange(nt), "site": np.arange(ns), "freq": freq, "dir": dirs},
                              dims=("time", "site", "freq", "dir"), name="efth")
            Aarr = np.array([rng.choice((0, 6, 12, 25, 40)) for _ in range(nt * ns)], float).reshape(nt, ns)
            wdarr = np.array([rng.choice((0, 60, 180)) for _ in range(nt * ns)], float).reshape(nt, ns)
            mk = lambda a: xr.DataArray(a, coords={"time": da.time, "site": da.site}, dims=("time", "site"))  # noqa
            req = rng.randint(1, 4)
            wargs = (mk(Aarr / AGEFAC), mk(wdarr), mk(np.full((nt, ns), DEPTH)))
            outs = {("ptm1", False): da.spec.partition.ptm1(*wargs, swells=req),
                    ("ptm2", False): da.spec.partition.ptm2(*wargs, swells=req),
                    ("ptm3", False): da.spec.partition.ptm3(parts=req),
                    # smooth=True: the basins come from the smoothed spectrum, the energy still from the original one
                    ("ptm1", True): da.spec.partition.ptm1(*wargs, swells=req, smooth=True),
                    ("ptm2", True): da.spec.partition.ptm2(*wargs, swells=req, smooth=True),
                    ("ptm3", True): da.spec.partition.ptm3(parts=req, smooth=True)}
            sm = da.spec.smooth(3, 3).transpose("time", "site", "freq", "dir").values
            for (name, smooth), o in outs.items():
                o = o.transpose("time", "site", "part", "freq", "dir").values
                for t in range(nt):
                    for s in range(ns):
                        e = block[t * ns + s]
                        fm = float_mask(F, D, Aarr[t, s], wdarr[t, s])
                        if fm is None:
                            continue
                        src = sm[t, s] if smooth else np.array(e, "float32").reshape(nk, nth)
                        Lmap = specpart.partition(np.ascontiguousarray(src, dtype="float32"), 100)
                        ctx.case(("acc", name, smooth, nk, nth, tuple(e), t, s), True)
                        if not np.allclose(o[t, s], np.round(o[t, s]), atol=1e-6):
                            ctx.violation({"where": "trace", "fn": name, "clause": "BinwiseOrigOrZero", "smooth": smooth},
                                          "accessor.%s(smooth=%s) returned values that are neither the input's integers nor zero" % (name, smooth),
                                          {"E": e, "shape": (nk, nth)})
                            continue
                        ln = {"kind": name, "tid": tid, "E": e, "L": [int(x) for x in Lmap.ravel()],
                              "W": [int(x) for x in np.flatnonzero(fm.ravel())], "cutn": 3333, "cutd": 10000, "req": req,
                              "out": [[int(round(float(x))) for x in p.ravel()] for p in o[t, s]]}
                        groups.setdefault((nk, nth, tuple(F)), []).append(ln)
                        index[tid] = ("accessor." + name + ("(smooth)" if smooth else ""), e, (nk, nth), 100, Aarr[t, s], wdarr[t, s], req, 0.3333,
                                      "dataset(%d,%d)" % (t, s))
                        tid += 1
    for tidr, clause in validate(ctx, groups):
        fn, e, shape, ihmax, A, wd, req, wscut, style = index[tidr]
        const = len(set(e)) == 1
        ctx.violation({"where": "trace", "fn": fn.split(".")[-1].replace("np_", "").replace("(smooth)", ""), "clause": clause, "constant_spectrum": const,
                       "nonzero": bool(any(e))},
                      "%s output rejected by PartitionTrace: clause %s (%s spectrum %s, requested %d)" % (fn, clause, style, shape, req),
                      {"E": e, "shape": shape, "ihmax": ihmax, "A": float(A), "wd": float(wd), "req": req, "wscut": wscut})
    if index:
        k = sorted(index)[0]
        ctx.sample({"kind": "real-watershed run validated by PartitionTrace", "fn": index[k][0], "E": index[k][1], "shape": index[k][2]})
    # ---- every keyword of the accessor methods reaches the routine: for non-default agefac / wscut / swells / ihmax / smoothing
    # windows the accessor result equals the numpy-level function called with the same values on each spectrum
    forwarding(ctx, pmod)
    wind_on_threshold(ctx, pmod)
    # ---- the same routines entered from several threads at once (the blocks of a threaded dask computation)
    concurrent_partitions(ctx)
    # ---- extension beyond the listed property: the Hanson & Phillips merging (hp01) as a state machine, model-checked and
    # trace-validated; reported in the evidence notes only
    try:
        from harness import hp01_ext
        hp01_ext.stage(ctx, 40 if ctx.quick else 400)
    except Exception as ex:  # noqa  (never decides C03)
        ctx.note("extension_hp01", {"error": "%s: %s" % (type(ex).__name__, str(ex)[:200])})
    ctx.assume("energies are integers (float32-exact); wave-age masks are realised by one wind in deep water with a 0.5 % decision margin; "
               "exact ties wsfrac = wscut are not replayed; ordering among equal array-level Hs is free")
