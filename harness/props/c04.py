"""C04 - watershed: one connected basin per regional maximum on the circular grid, shift equivariance.

 1. TLC, exhaustive: every grid over a value alphabet for a family of small shapes; invariants
    AllLabelled, OnePerRegionalMax (count, containment, connectedness), ShiftEquivariant (two-run),
    BoundsOK/TableOK (shared with C20).
 2. spec -> code: every enumerated input is run through the real C routine (ASan/UBSan build of
    specpart.c, and the Python extension built from the tree); the label map must equal the spec's exactly.
 3. code -> spec: hook-H1 traces of random larger grids (paired with their circular shift) validated by
    WatershedTrace.tla step by step, with the declarative post-condition and shift-equivariance evaluated by
    TLC on the recorded outputs.
 4. code -> spec on executions nobody here chose: the repository's own partition tests are run under the hooks and every
    distinct call (floating-point spectra, 25x24, ihmax=100) is validated by WatershedTrace in level mode.
"""
import os
import numpy as np

from harness import ws
from harness.core import run_forked, setup_repo_imports

PRIME = 997


def configs(tier):
    # (nk, nth, ihmax, vals)
    quick = [
        (2, 3, 100, (0, 1, 2)), (3, 2, 3, (0, 1, 2)), (3, 3, 2, (0, 1)), (1, 4, 2, (0, 1, 2)), (4, 1, 3, (0, 1, 2)),
        (1, 1, 5, (0, 1)), (2, 2, 5, (0, 1, 2)), (1, 2, 100, (0, 1, 2)), (2, 1, 100, (0, 1, 2)), (2, 4, 3, (0, 1)),
        (3, 3, 5, (0, 2)),
        # fewer bins than levels AND values 3 % apart: they separate at 100 levels, not at as many levels as there are bins
        (2, 3, 100, (0, 93, 97, 100)),
    ]
    if tier == "quick":
        return quick
    more = [
        (3, 3, 100, (0, 1, 2)), (3, 3, 3, (0, 1, 2)), (3, 3, 1, (0, 1)), (2, 4, 5, (0, 1, 2)), (4, 2, 100, (0, 1, 2)),
        (2, 5, 2, (0, 1)), (5, 2, 3, (0, 1)), (1, 8, 3, (0, 1)), (8, 1, 3, (0, 1)), (1, 6, 100, (0, 1, 2)),
        (6, 1, 100, (0, 1, 2)), (2, 3, 1, (0, 1, 2)), (2, 3, 2, (0, 1, 2)), (2, 3, 5, (0, 1, 3)), (3, 4, 3, (0, 1)),
        (4, 3, 100, (0, 1)), (2, 6, 3, (0, 1)), (4, 4, 2, (0, 1)),
    ]
    return quick + more


def rand_case(rng, nk, nth, ihmax, style):
    n = nk * nth
    if style == "noise":
        e = [rng.randint(1, PRIME - 1) for _ in range(n)]
    elif style == "sparse":
        e = [rng.randint(1, PRIME - 1) if rng.random() < 0.3 else 0 for _ in range(n)]
    elif style == "plateau":
        e = [rng.choice((0, 100, 100, 300, 600)) for _ in range(n)]
    else:  # smooth multi-modal: sum of integer "hills"
        e = [0] * n
        for _ in range(rng.randint(1, 4)):
            ci, cj, a = rng.randrange(nk), rng.randrange(nth), rng.randint(50, 400)
            for i in range(nk):
                for j in range(nth):
                    dj = min((j - cj) % nth, (cj - j) % nth)
                    e[i * nth + j] += max(0, a - 40 * (abs(i - ci) + dj) ** 2 // 2)
        e = [min(v, PRIME - 1) for v in e]
    if n >= 2 and style != "plateau":
        a, b = rng.sample(range(n), 2)
        e[a] = 0
        e[b] = PRIME     # prime range => no exact half-integer level quotient
    return (nk, nth, ihmax, e)


def shift(case):
    nk, nth, ihmax, e = case
    return (nk, nth, ihmax, [e[(k // nth) * nth + ((k % nth) + 1) % nth] for k in range(nk * nth)])


def run(ctx):
    setup_repo_imports()
    from wavespectra.partition import specpart
    ctx.rule = ("TLC enumerates every grid over the alphabet for each (nk,nth,ihmax) config; each is replayed through the "
                "ASan/UBSan driver and the Python extension (exact label-map equality). Random grids (noise, sparse, "
                "plateau, smooth; paired with their one-bin circular shift) are recorded with hook H1 and validated by "
                "WatershedTrace. distinct_nontrivial = distinct non-constant inputs.")
    ctx.exhaustive = True
    # ---- 1+2: exhaustive TLC + replay
    nvec = 0
    for (nk, nth, ihmax, vals) in configs(ctx.tier):
        cfg = ws.mc_cfg(nk, nth, ihmax, vals, tworun=True, emit=True)
        r = ctx.tlc("MC_Watershed", cfg, workers=8, label="exhaustive %dx%d ihmax=%d vals=%s" % (nk, nth, ihmax, vals))
        for inv in r.violated:
            ctx.violation({"where": "spec", "invariant": inv, "shape": [nk, nth], "ihmax": ihmax},
                          "TLC: invariant %s violated by the transcription of specpart.c" % inv, r.cex[:6000])
        if r.violated:
            continue
        expected = len(vals) ** (nk * nth)
        if len(r.vectors) != expected:
            from harness.core import MachineryError
            raise MachineryError("expected %d vectors from TLC, got %d (%s)" % (expected, len(r.vectors), cfg))
        cases = [(nk, nth, ihmax, v["e"]) for v in r.vectors]
        res, rc, err = ws.run_driver(cases, sanitize=True)
        if rc != 0 or len(res) != len(cases):
            ctx.violation({"where": "native", "kind": "sanitizer", "shape": [nk, nth], "ihmax": ihmax},
                          "sanitizer/driver failure rc=%d" % rc, err[-3000:])
            continue
        def inproc(vectors=r.vectors, nk=nk, nth=nth, ihmax=ihmax):
            return [specpart.partition(np.array(v["e"], dtype="float32").reshape(nk, nth), ihmax).ravel().tolist()
                    for v in vectors]
        kind, pys = run_forked(inproc)
        if kind == "crash":
            ctx.violation({"where": "native", "kind": "crash-in-extension", "shape": [nk, nth], "ihmax": ihmax},
                          "the Python extension crashed the interpreter while replaying enumerated inputs: %s" % pys)
            continue
        for v, (p, npart), pp in zip(r.vectors, res, pys):
            nontriv = len(set(v["e"])) > 1
            ctx.case(("v", nk, nth, ihmax, tuple(v["e"])), nontriv)
            if list(p) != v["p"] or npart != v["np"] or pp != v["p"]:
                ctx.violation({"where": "replay", "shape": [nk, nth], "ihmax": ihmax, "e": v["e"]},
                              "C routine label map differs from the specification's",
                              {"input": v["e"], "spec": v["p"], "driver": list(p), "python": pp,
                               "npart": [v["np"], npart]})
            else:
                ctx.replayed()
            nvec += 1
        ctx.sample({"kind": "spec->code vector", "nk": nk, "nth": nth, "ihmax": ihmax, "e": r.vectors[-1]["e"],
                    "labels": r.vectors[-1]["p"]}, cap=3)
    ctx.note("vectors_replayed", nvec)

    # ---- 3: traces from the real routine
    rng = ctx.rng
    if ctx.quick:
        plan = [((6, 6), 10), ((5, 8), 8), ((12, 12), 4), ((3, 7), 8), ((9, 4), 6), ((1, 9), 4), ((7, 2), 4)]
        ihs = (1, 2, 3, 5, 10, 100)
    else:
        plan = [((6, 6), 60), ((5, 8), 40), ((12, 12), 24), ((3, 7), 40), ((9, 4), 40), ((1, 9), 20), ((7, 2), 20),
                ((8, 8), 30), ((10, 10), 16), ((25, 24), 6), ((16, 12), 8), ((2, 9), 20), ((4, 4), 60)]
        ihs = (1, 2, 3, 4, 5, 10, 50, 100, 200)
    # equal-product shape families (6x4/4x6/...) are interleaved on purpose: the routine keeps static
    # work buffers and a neighbour table between calls, so the order of shapes is part of the input
    plan += [((6, 4), 4), ((4, 6), 4), ((3, 8), 3), ((8, 3), 3), ((2, 12), 2), ((12, 2), 2), ((1, 24), 2), ((24, 1), 2)]
    units = []
    skipped = 0
    for (nk, nth), n in plan:
        for t in range(n):
            ih = ihs[(t + rng.randrange(len(ihs))) % len(ihs)] if (nk, nth) != (25, 24) else 100
            c = rand_case(rng, nk, nth, ih, ("noise", "sparse", "plateau", "smooth")[t % 4])
            if not ws.level_tie_free(c[3], ih) or not ws.level_tie_free(shift(c)[3], ih):
                skipped += 1
                continue
            units.append([c, shift(c)])
            if t % 5 == 4:    # a constant spectrum in between (early-return path with the buffers of another shape)
                units.append([(nk, nth, ih, [7] * (nk * nth))])
    rng.shuffle(units)
    cases, pairflag = [], []
    for u in units:
        cases += u
        pairflag += [0, 1] if len(u) == 2 else [2]
    res, events, rc, err = ws.record_traces(cases, sanitize=True)
    if rc != 0 or len(res) != len(cases) or len(events) != len(cases):
        ctx.violation({"where": "native", "kind": "sanitizer-trace"}, "sanitizer/driver failure while recording rc=%d" % rc,
                      err[-3000:])
    else:
        groups = {}
        index = {}
        for i, (c, ev, o) in enumerate(zip(cases, events, res)):
            groups.setdefault(tuple(c[:3]), []).append(ws.trace_lines(i, c, ev, o, pair=pairflag[i]))
            index[i] = c
            ctx.case(("t",) + tuple(c[:3]) + tuple(c[3]), len(set(c[3])) > 1)
        acc, rej = ws.validate_traces(ctx, groups, checkpost=True)
        ctx.replayed(acc)
        for shape, tid, clause, line in rej:
            c = index[tid]
            ctx.violation({"where": "trace", "clause": clause, "shape": list(shape[:2]), "ihmax": shape[2], "e": c[3]},
                          "recorded execution of specpart.c rejected by WatershedTrace at clause '%s' (line %d)" % (clause, line),
                          {"case": c, "pair": pairflag[tid]})
        # the same random grids through the Python extension (wrapper + routine): the label map must be the driver's, which the
        # trace specification has just validated - whatever the wrapper does to its arguments on the way
        def inproc2(cases=cases):
            return [specpart.partition(np.array(c[3], dtype="float32").reshape(c[0], c[1]), c[2]).ravel().tolist() for c in cases]
        kind2, pys2 = run_forked(inproc2)
        if kind2 == "crash":
            ctx.violation({"where": "native", "kind": "crash-in-extension"}, "the Python extension crashed on the random grids: %s" % pys2)
        else:
            for c, o, pp in zip(cases, res, pys2):
                ctx.case(("tw",) + tuple(c[:3]) + tuple(c[3]), len(set(c[3])) > 1)
                if list(o[0]) != pp:
                    ctx.violation({"where": "replay", "via": "python-extension", "shape": list(c[:2]), "ihmax": c[2]},
                                  "label map through the Python wrapper differs from the routine's own (validated) result",
                                  {"input": c[3], "driver": list(o[0]), "python": pp})
                else:
                    ctx.replayed()
        ctx.note("traces_recorded", len(cases))
        ctx.note("skipped_by_rounding_tie_filter", skipped)
        if cases:
            ctx.sample({"kind": "code->spec trace", "shape": cases[0][:3], "e": cases[0][3],
                        "events": [e["ev"] for e in events[0]][:12], "labels": res[0][0]}, cap=4)
    # ---- 4: executions nobody in /verif chose: the repository's own partition tests and the sample spectra, run under the hooks.
    # Their inputs are floating-point, so WatershedTrace runs in level mode: the recorded level map is the input, flooding is
    # validated exactly, sweeps against SweepRel, the result against the declarative post-condition.
    repo_test_traces(ctx)
    # ---- 5: the same routine entered from several Python threads (what a threaded dask scheduler does): every label map must
    # be the serial one.  (The schedule itself is modelled and trace-validated under C07; this is the C04 face of it.)
    concurrent_callers(ctx)
    layouts(ctx)
    accessor_levels(ctx)
    ctx.assume("inputs are integer-valued (float32-exact); inputs whose exact level quotient is a half-integer are "
               "excluded unless (ihmax-1)/(zmax-zmin) is dyadic (C round() vs exact arithmetic)")
    ctx.assume("TLC's transcription is bound to the C code by exact output equality on every enumerated input and by "
               "per-level intermediate-state equality on recorded traces")


def _run_repo_tests(trace, tests):
    import contextlib
    import io
    os.environ["WAVESPECTRA_VERIF"] = "1"
    os.environ["WAVESPECTRA_VERIF_TRACE"] = trace
    import pytest
    from harness.core import REPO
    os.chdir(REPO)
    buf = io.StringIO()
    with contextlib.redirect_stdout(buf), contextlib.redirect_stderr(buf):
        rc = pytest.main(["-q", "-p", "no:cacheprovider", "-x"] + tests)
    return int(rc), buf.getvalue()[-1500:]


def _threaded_maps(seed, n, nk, nth, workers):
    from concurrent.futures import ThreadPoolExecutor
    from wavespectra.partition import specpart
    rng = np.random.RandomState(seed)
    specs = []
    for _ in range(n):
        a = np.zeros((nk, nth))
        ii, jj = np.meshgrid(np.arange(nk), np.arange(nth), indexing="ij")
        for _k in range(4):
            ci, cj, amp = rng.randint(1, nk - 1), rng.randint(0, nth), rng.randint(30, 90)
            dj = np.minimum((jj - cj) % nth, (cj - jj) % nth)
            a += np.maximum(0, amp - 0.4 * (np.abs(ii - ci) + dj) ** 2)
        specs.append(np.ascontiguousarray(a + rng.randint(0, 3, size=a.shape), dtype="float32"))
    serial = [specpart.partition(x, 100) for x in specs]
    def one(x):
        try:
            return specpart.partition(x, 100)
        except BaseException as ex:  # noqa  (an exception out of the routine under concurrency is an outcome, not a harness failure)
            return "%s: %s" % (type(ex).__name__, str(ex)[:80])
    with ThreadPoolExecutor(max_workers=workers) as ex:
        par = list(ex.map(one, specs * 3))
    bad = sum(1 for k, m in enumerate(par) if isinstance(m, str) or not np.array_equal(m, serial[k % n]))
    return bad, len(par)


def layouts(ctx):
    """the numpy-level entry point on spectra stored direction-major (transposed views, Fortran order, strided): same basins."""
    from wavespectra.partition import partition as pmod
    rng = np.random.RandomState(ctx.seed + 5)
    bad = 0
    for k in range(12 if ctx.quick else 120):
        nk, nth = [(6, 8), (8, 6), (7, 7), (12, 5)][k % 4]
        ii, jj = np.meshgrid(np.arange(nk), np.arange(nth), indexing="ij")
        a = np.zeros((nk, nth))
        for _ in range(3):
            ci, cj, amp = rng.randint(1, nk - 1), rng.randint(0, nth), rng.randint(30, 90)
            dj = np.minimum((jj - cj) % nth, (cj - jj) % nth)
            a += np.maximum(0, amp - 3.0 * (np.abs(ii - ci) + dj) ** 2)
        a = np.ascontiguousarray(a + rng.randint(0, 3, size=a.shape), dtype="float64")
        freq, dirs = 0.05 + 0.03 * np.arange(nk), np.arange(nth) * (360.0 / nth)
        ref = np.asarray(pmod.np_ptm3(a, a, freq, dirs, None, 100))
        big = np.zeros((2 * nk, 2 * nth))
        big[::2, ::2] = a
        for name, arr in (("transposed view", np.ascontiguousarray(a.T).T), ("Fortran order", np.asfortranarray(a)), ("strided view", big[::2, ::2]),
                          ("float32 transposed", np.ascontiguousarray(a.T.astype("float32")).T),
                          # byte order is part of the memory layout: big-endian arrays (what a netCDF3 / XDR / fromfile reader hands over)
                          # hold the same values
                          ("big-endian float32", a.astype(">f4")), ("big-endian float64", a.astype(">f8")),
                          ("int32 (integer-valued energies)", a.astype("int32"))):
            ctx.case(("layout", k, name), True)
            got = np.asarray(pmod.np_ptm3(arr, arr, freq, dirs, None, 100))
            if got.shape == ref.shape and np.allclose(got, ref, rtol=1e-6):
                ctx.replayed()
            else:
                bad += 1
                ctx.violation({"where": "layout", "layout": name}, "np_ptm3 on a %s gives %d partitions, %d on the C-ordered copy of the same spectrum" %
                              (name, got.shape[0], ref.shape[0]), {"shape": [nk, nth]})


def accessor_levels(ctx):
    """the accessor entry points run the watershed at the REQUESTED number of levels: ptm3(ihmax=k) through DataArray and Dataset
    accessors equals np_ptm3 at k levels (one basin at k = 1, as many as regional maxima of the k-level map otherwise)."""
    import xarray as xr
    from wavespectra.partition import partition as pmod
    rng = np.random.RandomState(ctx.seed + 9)
    nk, nth = 7, 8
    freq, dirs = 0.05 + 0.03 * np.arange(nk), np.arange(nth) * (360.0 / nth)
    ii, jj = np.meshgrid(np.arange(nk), np.arange(nth), indexing="ij")
    for k in range(6 if ctx.quick else 60):
        a = np.zeros((nk, nth))
        for amp in (80, 30, 9, 3):
            ci, cj = rng.randint(1, nk - 1), rng.randint(0, nth)
            dj = np.minimum((jj - cj) % nth, (cj - jj) % nth)
            a += np.maximum(0, amp - 0.35 * amp * (np.abs(ii - ci) + dj) ** 2)
        a = a + 1.0
        da = xr.DataArray(a[None], coords={"time": [0], "freq": freq, "dir": dirs}, dims=("time", "freq", "dir"), name="efth")
        for ih in (1, 2, 4, 10, 100):
            ref = np.asarray(pmod.np_ptm3(a, a, freq, dirs, None, ih))
            nref = int((ref.reshape(ref.shape[0], -1).sum(axis=1) > 0).sum())
            for how, acc in (("DataArray", da.spec), ("Dataset", da.to_dataset().spec)):
                ctx.case(("acc-ihmax", k, ih, how), True)
                got = acc.partition.ptm3(parts=8, ihmax=ih).isel(time=0).transpose("part", "freq", "dir").values
                ngot = int((got.reshape(got.shape[0], -1).sum(axis=1) > 0).sum())
                if ngot == nref and np.allclose(got[:nref], ref[:nref], rtol=1e-6):
                    ctx.replayed()
                else:
                    ctx.violation({"where": "accessor", "clause": "requested-levels", "ihmax": ih},
                                  "%s accessor ptm3(ihmax=%d) returns %d non-empty partitions, the watershed at %d levels has %d" % (how, ih, ngot, ih, nref),
                                  {"spectrum": a.tolist()})


def concurrent_callers(ctx):
    from harness.core import run_forked
    n, nk, nth, workers = (24, 40, 48, 8) if ctx.quick else (96, 48, 72, 16)
    kind, val = run_forked(_threaded_maps, ctx.seed, n, nk, nth, workers, timeout=900)
    ctx.case(("threads", n, nk, nth, workers), True)
    if kind == "crash":
        ctx.violation({"where": "threads", "kind": "crash"}, "the interpreter died while %d threads called the watershed concurrently (%s)" % (workers, val))
        return
    bad, total = val
    if bad:
        ctx.violation({"where": "threads", "kind": "label-map"},
                      "%d of %d label maps computed from %d concurrent threads differ from the serial ones (calls into the C routine overlap)" % (bad, total, workers),
                      {"grid": [nk, nth], "workers": workers})
    else:
        ctx.replayed(total)
    ctx.note("concurrent_calls", total)


def repo_test_traces(ctx):
    from harness.core import BUILD, run_forked, MachineryError
    os.makedirs(os.path.join(BUILD, "traces"), exist_ok=True)
    trace = os.path.join(BUILD, "traces", "repo-tests-%d.ndjson" % os.getpid())
    if os.path.exists(trace):
        os.unlink(trace)
    tests = ["tests/test_partition.py"]
    try:
        kind, val = run_forked(_run_repo_tests, trace, tests, timeout=1500)
        if kind == "crash":
            ctx.violation({"where": "process", "kind": "crash", "stage": "repo tests under hooks"}, "the repository's partition tests crashed under the hooks: %s" % val)
            return
        rc, tail = val
        if rc != 0:
            # the tests themselves are not this check's oracle; their executions are still validated below
            ctx.note("repo_partition_tests_rc", rc)
        calls = ws.split_events(trace) if os.path.exists(trace) else []
    finally:
        if os.path.exists(trace):
            os.unlink(trace)
    if not calls:
        raise MachineryError("the repository's partition tests produced no H1 events (hooks not compiled in?): %s" % (val,))
    distinct = {}
    for c in calls:
        imi = next((ev["arr"] for ev in c if ev["ev"] == "imi"), ())
        distinct.setdefault((c[0]["a"], c[0]["b"], c[0]["c"], tuple(imi)), c)
    items = list(distinct.items())
    ctx.note("repo_test_calls", len(calls))
    ctx.note("repo_test_distinct_level_maps", len(items))
    if ctx.quick:
        ctx.rng.shuffle(items)
        items = items[:12]
    groups, index = {}, {}
    for i, (k, c) in enumerate(items):
        groups.setdefault(k[:3], []).append(ws.level_trace_lines(i, c))
        index[i] = k
        ctx.case(("repo-test",) + k[:3] + (hash(k[3]),), True)
    # binding check: a sweep that gives a watershed pixel a label none of its neighbours has must be rejected
    k0, c0 = items[0]
    bad = ws.level_trace_lines(len(items), c0)
    sw = [ln for ln in bad if ln["ev"] == "sweep"]
    lv = [ln for ln in bad if ln["ev"] == "level"]
    corrupted = False
    if sw and lv:
        before = lv[-1]["arr"]
        for n, v in enumerate(before):
            if v == 0:
                sw[0]["arr"] = list(sw[0]["arr"])
                sw[0]["arr"][n] = max(before) + 1
                corrupted = True
                break
    if corrupted:
        groups.setdefault(k0[:3], []).append(bad)
    acc, rej = ws.validate_traces(ctx, groups, checkpost=True, label="repo tests (level mode)")
    for shape, tid, clause, line in rej:
        if tid == len(items):
            continue
        ctx.violation({"where": "trace", "clause": clause, "shape": list(shape[:2]), "ihmax": shape[2], "source": "repo-tests"},
                      "a partition call made by the repository's own tests is rejected by WatershedTrace (level mode) at clause '%s' (line %d)" % (clause, line),
                      {"shape": list(shape)})
    if corrupted:
        # the corrupted copy of the first trace must be rejected (at the sweep, when the genuine first trace is accepted)
        first_ok = not any(tid == 0 for _, tid, _, _ in rej)
        bad_rej = [clause for _, tid, clause, _ in rej if tid == len(items)]
        if not bad_rej or (first_ok and bad_rej != ["sweep-relation"]):
            raise MachineryError("level-mode trace validation accepted a corrupted sweep (binding lost): %s" % bad_rej)
    ctx.replayed(acc)
    ctx.note("repo_test_traces_validated", acc)


def replay(ctx, rep):
    setup_repo_imports()
    from wavespectra.partition import specpart
    key = rep["key"]
    print("stored violation:", rep["what"])
    if "e" in key:
        nk, nth = key["shape"]
        a = np.array(key["e"], dtype="float32").reshape(nk, nth)
        print("input:\n", a)
        print("current implementation:\n", specpart.partition(a, key["ihmax"]))
        print("detail:", rep.get("detail"))
