"""C05 - results depend on labelled values, not on storage order or memory layout.

Session.tla generates every program "representation changes ; call" up to a length bound over the actions transpose
(dir before freq; spectral dims before the leading dim), Fortran layout, strided view, cast to float32, rolled stored
direction sequence (by one bin; with the 0/360 seam between the first two stored directions), descending order, sortby.
In the specification the observation of a call is a function of the contents only (ResultIsFunctionOfContents); the
harness replays each program on the real library and compares the labelled projection of the result (dims in canonical
order, coordinates sorted) with the result on the canonical representation.  Watershed methods are exempt from the
orientation (flip) clause, as the property states.
"""
import numpy as np

from harness import session as S
from harness.core import setup_repo_imports

REPACTS = ["transpose_df", "transpose_lead", "fortran", "strided", "cast32", "bigendian", "roll1", "roll_seam", "flip", "sortdir"]
CIRC = {"dm", "dp", "dpm"}


def derived_objects(ctx, ops):
    """Session.tla's derivation steps: the session continues on what a public operation, a selection, arithmetic or a concatenation
    returned (length-1 and dropped dimensions, scalar coordinates left behind, `part` / `site` dimensions, float32 results, read-only
    and non-contiguous buffers, descending time).  Every operation on the derived object must equal the operation on a freshly
    constructed object holding the same labelled values; the dimensions of the derived object must be the ones the model predicts."""
    maxlen = 2
    cfg = S.session_cfg("c05_derive_%d" % maxlen, ["op"], [], [], maxlen, derives=sorted(S.DERIVE))
    r = ctx.tlc("Session", cfg, workers=4, label="derivation programs, length <= %d" % maxlen)
    for inv in r.violated:
        if inv != "EmitInv":
            ctx.violation({"where": "spec", "invariant": inv}, "Session.tla: %s violated" % inv, r.cex[:3000])
    progs, seen = [], set()
    for v in r.vectors:
        acts = tuple(p["arg"] for p in v["path"] if p["act"] == "derive")
        if acts and acts not in seen:
            seen.add(acts)
            progs.append((acts, set(v["ver"]["dims"])))
    progs.sort()
    ctx.note("derivation_programs_from_tlc", len(progs))
    base = S.make(version=1)
    allops = ops + S.FIT_OPS
    inapplicable = 0
    for acts, dims in progs:
        if ctx.quick and len(acts) == 2 and hash((acts, ctx.seed)) % 24:
            continue
        try:
            x = base
            for a in acts:
                x = S.DERIVE[a](x)
        except Exception:  # noqa   (e.g. picking the third of one direction: the program does not exist; crash-freedom is C20's)
            inapplicable += 1
            continue
        if set(x.dims) != dims:
            ctx.violation({"stage": "derived", "path": list(acts), "clause": "DimsAfter"},
                          "after %s the object has dimensions %s, the model says %s" % (list(acts), list(x.dims), sorted(dims)))
            continue
        f = S.fresh(x)
        for op in allops:
            if ctx.quick and hash((acts, op, ctx.seed)) % (3 if len(acts) == 1 else 4):
                continue
            try:
                exp, eerr = S.project(S.call(f, op)), None
            except Exception as ex:  # noqa
                exp, eerr = None, type(ex).__name__
            ctx.case(("derived", acts, op), True)
            try:
                got, gerr = S.project(S.call(x, op)), None
            except Exception as ex:  # noqa
                got, gerr = None, "%s: %s" % (type(ex).__name__, str(ex)[:200])
            if eerr or gerr:
                if bool(eerr) != bool(gerr):
                    ctx.violation({"stage": "derived", "op": op, "path": list(acts), "raised": (gerr or eerr).split(":")[0]},
                                  "%s after %s: %s on the derived object, %s on a fresh object with the same labelled values" %
                                  (op, list(acts), gerr or "works", eerr or "works"))
                else:
                    ctx.replayed()
                continue
            rel = 3e-5 if str(x.dtype) == "float32" else 1e-9
            if op in ("fit_jonswap", "fit_gaussian"):
                rel = 1e-4
            diff = S.circular_same(got, exp, rel) if op in CIRC else S.same(got, exp, rel, abs_=1e-7 if rel > 1e-9 else 1e-9)
            if diff is None:
                ctx.replayed()
            else:
                ctx.violation({"stage": "derived", "op": op, "path": list(acts)},
                              "%s on the object returned by %s differs from %s on a fresh object with the same labelled values: %s" % (op, list(acts), op, diff))
    ctx.note("derivation_programs_not_applicable", inapplicable)


def numpy_level_layouts(ctx):
    """the array-level functions (what the readers and the apply_ufunc wrappers call with raw buffers): the same 2-D spectrum handed
    over C-contiguous, Fortran-contiguous, as a strided view and as the transpose of a (dir, freq) buffer gives the same result."""
    from wavespectra.core import npstats
    from wavespectra.core.utils import interp_spec
    rng = np.random.RandomState(ctx.seed)
    freq, dirs = S.FREQ.copy(), S.GRIDS[1].copy()
    of, od = np.array([0.06, 0.1, 0.16, 0.22, 0.3, 0.38]), np.arange(5.0, 360.0, 30.0)

    def layouts(a):
        big = np.zeros((2 * a.shape[0], 2 * a.shape[1]))
        v = big[::2, ::2]
        v[...] = a
        return {"fortran": np.asfortranarray(a), "strided": v, "transposed": np.ascontiguousarray(a.T).T, "float32": a.astype("float32")}
    fns = {"interp_spec(freq, dir)": lambda a: interp_spec(a, freq, dirs, of, od),
           "interp_spec(dir only)": lambda a: interp_spec(a, freq, dirs, None, od),
           "interp_spec(freq only)": lambda a: interp_spec(a, freq, dirs, of, None),
           "npstats.hs": lambda a: npstats.hs(a, freq, dirs),
           "npstats.dm": lambda a: npstats.dm(a, dirs),
           "npstats.mom1": lambda a: np.stack(npstats.mom1(a, dirs))}
    for ver in (1, 2):
        for t in range(S.NLEAD):
            a = np.ascontiguousarray(S.base_values(ver)[t])
            for name, fn in fns.items():
                ref = np.asarray(fn(a), float)
                for lname, b in layouts(a).items():
                    ctx.case(("numpy-level", name, lname, ver, t), True)
                    try:
                        got = np.asarray(fn(b), float)
                    except Exception as ex:  # noqa
                        ctx.violation({"stage": "numpy-level", "fn": name, "layout": lname, "raised": type(ex).__name__},
                                      "%s raised %s on a %s array (works on the C-contiguous one)" % (name, type(ex).__name__, lname), {"err": str(ex)[:200]})
                        continue
                    tol = 1e-5 if lname == "float32" else 1e-12
                    if got.shape == ref.shape and np.allclose(got, ref, rtol=tol, atol=tol * max(1.0, float(np.abs(ref).max()))):
                        ctx.replayed()
                    else:
                        ctx.violation({"stage": "numpy-level", "fn": name, "layout": lname},
                                      "%s differs between a C-contiguous array and the same values stored %s (max abs difference %.3g)" %
                                      (name, lname, float(np.abs(got - ref).max()) if got.shape == ref.shape else float("nan")))
    # the multi-file SWAN reader with a direction regrid: what it reads must be what read_swan + interp gives for every file
    import glob
    import os
    from harness.core import REPO
    from wavespectra import read_swan
    from wavespectra.input.swan import read_swans
    f = os.path.join(REPO, "tests", "sample_files", "swanfile.spec")
    tgt = np.arange(2.5, 360.0, 15.0)
    ctx.case(("read_swans-int_dir",), True)
    try:
        one = read_swan(f)
        many = read_swans([f], int_freq=False, int_dir=tgt)
        ref = np.stack([[interp_spec(np.ascontiguousarray(one.efth.values[t, la, lo]), one.freq.values, one.dir.values, None, tgt) for la in range(one.sizes["lat"]) for lo in range(one.sizes["lon"])]
                        for t in range(one.sizes["time"])])
        got = many.efth.transpose("time", "site", "freq", "dir").values
        if got.shape == ref.shape and np.allclose(got, ref, rtol=1e-9, atol=1e-12):
            ctx.replayed()
        else:
            ctx.violation({"stage": "numpy-level", "fn": "read_swans(int_dir)"}, "read_swans(int_dir=...) differs from regridding each spectrum of read_swan as a C-contiguous array "
                          "(max abs difference %.3g)" % (float(np.abs(got - ref).max()) if got.shape == ref.shape else float("nan")))
    except Exception as ex:  # noqa
        ctx.violation({"stage": "numpy-level", "fn": "read_swans(int_dir)", "raised": type(ex).__name__}, "read_swans(int_dir=...) raised %s: %s" % (type(ex).__name__, str(ex)[:200]))


def run(ctx):
    setup_repo_imports()
    import warnings
    warnings.filterwarnings("ignore")
    import wavespectra  # noqa
    ops = S.ALL_OPS
    maxlen = 2 if ctx.quick else 3
    cfg = S.session_cfg("c05_%d" % maxlen, ["op"], REPACTS, [], maxlen)     # one symbolic op: programs x ops is done by the harness
    r = ctx.tlc("Session", cfg, workers=4, label="representation programs, length <= %d" % maxlen)
    for inv in r.violated:
        if inv != "EmitInv":
            ctx.violation({"where": "spec", "invariant": inv}, "Session.tla: %s violated" % inv, r.cex[:3000])
    programs = []
    seen = set()
    for v in r.vectors:
        acts = tuple(p["act"] for p in v["path"] if p["act"] != "call")
        if acts not in seen:
            seen.add(acts)
            programs.append((acts, v["rep"]))
    ctx.note("programs_from_tlc", len(programs))
    ctx.exhaustive = True
    ctx.rule = ("TLC enumerates all sequences of <= %d representation actions (10 actions, no-ops pruned); every program x every operation "
                "(%d statistics/transforms/partitions) is replayed and compared by label with the canonical representation. "
                "distinct_nontrivial = distinct (program, operation) pairs with a non-empty program." % (maxlen, len(ops)))
    canon = {}
    base = {v: S.make(version=v) for v in (1, 2)}
    if ctx.quick:
        # all single actions for every op; two-action programs for a seeded third of the ops each
        pass
    for acts, rep in programs:
        for ver in ((1,) if ctx.quick else (1, 2)):
            try:
                da = base[ver]
                for a in acts:
                    da = S.apply_rep(da, a)
            except Exception as ex:  # noqa
                from harness.core import MachineryError
                raise MachineryError("cannot build representation %s: %s" % (acts, ex))
            for op in ops:
                if ctx.quick and len(acts) >= 2 and (hash((acts, op, ctx.seed)) % 4) != 0:
                    continue
                if op in S.WATERSHED_OPS and rep["flip"]:
                    continue        # orientation may move watershed ties: exempt by the property
                if (op, ver) not in canon:
                    canon[(op, ver)] = S.project(S.call(base[ver], op))
                ctx.case((acts, op, ver), bool(acts))
                try:
                    got = S.project(S.call(da, op))
                except Exception as ex:  # noqa
                    ctx.violation({"op": op, "path": list(acts), "raised": type(ex).__name__},
                                  "%s raised %s on representation %s (works on the canonical one)" % (op, type(ex).__name__, list(acts)),
                                  {"err": str(ex)[:300], "rep": rep})
                    continue
                rel = 3e-5 if rep["width"] == 32 else 1e-9
                if op in ("tp", "tp_raw", "fp", "dp", "dpm", "dpspr", "alpha"):
                    rel = max(rel, 3e-6)
                diff = S.circular_same(got, canon[(op, ver)], rel) if op in CIRC else S.same(got, canon[(op, ver)], rel, abs_=1e-7 if rep["width"] == 32 else 1e-9)
                if diff is None:
                    ctx.replayed()
                else:
                    ctx.violation({"op": op, "path": list(acts)},
                                  "%s differs between the canonical representation and %s: %s" % (op, list(acts), diff), {"rep": rep, "version": ver})
    # ---- the same programs on a partial direction sector (0..157.5 deg): nothing wraps there, so code paths that treat full circles
    # specially (padding, clipping, re-sorting) take their other branch
    pbase = S.make(version=1, grid=2)
    pops = [op for op in ops if op not in S.WATERSHED_OPS + ["interp_like", "rotate45", "rotate_m20"]]
    pcanon = {}
    for acts, rep in programs:
        if len(acts) > (1 if ctx.quick else 2) or not acts:
            continue
        da = pbase
        for a in acts:
            da = S.apply_rep(da, a)
        for op in pops:
            if op not in pcanon:
                try:
                    pcanon[op] = S.project(S.call(pbase, op))
                except Exception:  # noqa  (an operation that does not accept partial sectors at all is not a storage question)
                    pcanon[op] = None
            if pcanon[op] is None:
                continue
            ctx.case(("partial", acts, op), True)
            try:
                got = S.project(S.call(da, op))
            except Exception as ex:  # noqa
                ctx.violation({"op": op, "path": list(acts), "raised": type(ex).__name__, "grid": "partial"},
                              "%s raised %s on representation %s of a partial-sector spectrum (works on the canonical one)" % (op, type(ex).__name__, list(acts)),
                              {"err": str(ex)[:300]})
                continue
            rel = 3e-5 if rep["width"] == 32 else 1e-9
            if op in ("tp", "tp_raw", "fp", "dp", "dpm", "dpspr", "alpha"):
                rel = max(rel, 3e-6)
            diff = S.circular_same(got, pcanon[op], rel) if op in CIRC else S.same(got, pcanon[op], rel, abs_=1e-7 if rep["width"] == 32 else 1e-9)
            if diff is None:
                ctx.replayed()
            else:
                ctx.violation({"op": op, "path": list(acts), "grid": "partial"},
                              "%s on a partial direction sector differs between the canonical representation and %s: %s" % (op, list(acts), diff), {"rep": rep})
    derived_objects(ctx, ops)
    numpy_level_layouts(ctx)
    if programs:
        ctx.sample({"kind": "program", "actions": list(programs[len(programs) // 2][0]), "rep": programs[len(programs) // 2][1], "ops": ops[:6]})
    ctx.assume("energies are integer-valued (float32-exact) so a dtype cast does not change the contents; float32 results compared at 3e-5")
    ctx.assume("watershed methods are not compared under a flipped direction axis (exempt by the property)")
