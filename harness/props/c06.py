"""C06 - each spectrum in a dataset is processed independently of the others.

Dataset.tla: operations are pointwise in the position; TLC enumerates shapes (0..3 non-spectral dimensions incl. `part`,
lat/lon, site) x fillings from 3 distinct spectra x single-position edits and checks BatchEqualsSingle / Isolation.  Every
scenario is replayed: the batched result at each position must equal the result for that spectrum extracted into its own
buffer (with its own wind and depth), results away from an edited position must be bit-identical before and after the edit,
and the Dataset accessor must agree with the accessor of efth.  Layouts with the spectral dimensions stored first and
float32 data are part of the scenarios (the C wrapper ignores strides).
"""
import numpy as np

from harness import session as S
from harness import ws
from harness.core import setup_repo_imports

# statistics that take the water depth: given one depth per position, each spectrum must meet its own depth
DEPTH_OPS = ["mss_depth", "uss_depth", "uss_x_depth", "celerity_depth"]
OPS = [op for op in S.ALL_OPS if op not in ("stats_dict", "interp_like")] + ["hmax_notime"] + S.FIT_OPS + DEPTH_OPS
POSWISE_EXEMPT = set()


def build(shape, dims, fill, spectra, order, dtype):
    import xarray as xr
    n = int(np.prod(shape))
    arr = np.stack([spectra[c - 1] for c in fill]).reshape(tuple(shape) + spectra[0].shape)
    coords = {d: np.arange(s) for d, s in zip(dims, shape)}
    coords.update(freq=S.FREQ, dir=S.GRIDS[1])
    da = xr.DataArray(arr.astype(dtype), coords=coords, dims=tuple(dims) + ("freq", "dir"), name="efth")
    if order == "spec_first":
        da = da.transpose("freq", "dir", *dims).copy(deep=True)      # a genuinely freq/dir-major buffer
        da = da.copy(data=np.ascontiguousarray(da.values))
    return da


def aux(shape, dims, fill, dry=False):
    """wind speed / direction / depth per position, determined by the spectrum id at that position (its own wind).
    dry: positions holding spectrum 3 are dry points (depth 0): whatever happens there must stay there."""
    import xarray as xr
    w = np.array([6.0 + 5 * c for c in fill]).reshape(shape)
    wd = np.array([30.0 * c * c for c in fill]).reshape(shape)
    # intermediate depths (6, 12, 24 m) so that the depth of a position actually decides its wind-sea mask
    dp = np.array([((0.0 if dry == 1 else np.nan) if (dry and c == 3) else 3.0 * 2 ** c) for c in fill]).reshape(shape)
    mk = lambda a: xr.DataArray(a, coords={d: np.arange(s) for d, s in zip(dims, shape)}, dims=tuple(dims))  # noqa
    return mk(w), mk(wd), mk(dp)


def call(da, op, wargs):
    if op == "hmax_notime":
        return da.spec.hmax()
    if op in DEPTH_OPS:
        return getattr(da.spec, op[:-6])(depth=wargs[2])
    if op in ("ptm1", "ptm2", "ptm4", "ptm1_smooth", "ptm2_smooth"):
        w, wd, dp = wargs
        p = da.spec.partition
        if op == "ptm2_smooth":
            return p.ptm2(w, wd, dp, swells=2, smooth=True)
        if op == "ptm1":
            return p.ptm1(w, wd, dp, swells=3)
        if op == "ptm1_smooth":
            return p.ptm1(w, wd, dp, swells=2, smooth=True)
        if op == "ptm2":
            return p.ptm2(w, wd, dp, swells=2)
        return p.ptm4(w, wd, dp)
    return S.call(da, op)


def at(res, dims, idx):
    import xarray as xr
    if isinstance(res, xr.Dataset):
        return {k: at(res[k], dims, idx) for k in res.data_vars}
    sel = {d: i for d, i in zip(dims, idx) if d in res.dims}
    return S.project(res.isel(sel))


def _blocks_on_threads(seed, nt, nk, nth, workers):
    """a dask-backed dataset whose blocks are partitioned by several threads at once: at every position the batched result must still be
    the result for that spectrum on its own (computed serially, in memory)."""
    import dask
    import xarray as xr
    rng = np.random.RandomState(seed)
    ii, jj = np.meshgrid(np.arange(nk), np.arange(nth), indexing="ij")
    a = np.zeros((nt, nk, nth))
    for t in range(nt):
        for _k in range(3):
            ci, cj, amp = rng.randint(1, nk - 1), rng.randint(0, nth), rng.randint(30, 90)
            dj = np.minimum((jj - cj) % nth, (cj - jj) % nth)
            a[t] += np.maximum(0, amp - 0.5 * (np.abs(ii - ci) + dj) ** 2)
        a[t] += rng.randint(1, 3, size=(nk, nth))
    da = xr.DataArray(a, coords={"time": np.arange(nt), "freq": 0.04 + 0.012 * np.arange(nk), "dir": np.arange(nth) * (360.0 / nth)},
                      dims=("time", "freq", "dir"), name="efth")
    mk = lambda v: xr.DataArray(np.full(nt, v) + np.arange(nt) % 5, coords={"time": da.time}, dims=("time",))  # noqa
    w = (mk(9.0), mk(40.0), mk(60.0))
    calls = {"ptm3": lambda x, ww: x.spec.partition.ptm3(parts=3), "ptm1": lambda x, ww: x.spec.partition.ptm1(*ww, swells=2)}
    bad = {}
    for name, fn in calls.items():
        single = [np.asarray(fn(da.isel(time=[t]), tuple(x.isel(time=[t]) for x in w)).values)[:, 0] for t in range(nt)]
        for rep in range(2):
            with dask.config.set(scheduler="threads", num_workers=workers):
                got = np.asarray(fn(da.chunk({"time": 4}), w).compute().transpose("part", "time", "freq", "dir").values)
            bad[name] = max(bad.get(name, 0), sum(1 for t in range(nt) if not np.array_equal(got[:, t], single[t])))
    return bad, nt


def run(ctx):
    setup_repo_imports()
    import warnings
    warnings.filterwarnings("ignore")
    import wavespectra  # noqa
    shapes = (1, 2, 3, 4, 7) if ctx.quick else (1, 2, 3, 4, 5, 6, 7, 8)
    cfg = ws.write_cfg("dataset.cfg", "SPECIFICATION Spec\nCONSTANTS SHAPES = {%s}\n NSPEC = 3\n OPS = {\"op\"}\n"
                       "INVARIANT BatchEqualsSingle\nPROPERTY Isolation\nINVARIANT EmitInv\n" % ",".join(map(str, shapes)))
    r = ctx.tlc("Dataset", cfg, workers=4, label="shapes x fillings x edits")
    for inv in r.violated:
        if inv != "EmitInv":
            ctx.violation({"where": "spec", "invariant": inv}, "Dataset.tla: %s violated" % inv, r.cex[:3000])
    scen = r.vectors
    ctx.note("scenarios_from_tlc", len(scen))
    ctx.exhaustive = True
    ctx.rule = ("TLC enumerates shapes x all fillings from 3 spectra x all single-position edits; a seeded sample of scenarios (all in "
                "thorough) x every operation is replayed: batched vs extracted spectrum, isolation under the edit, Dataset vs DataArray "
                "accessor; both dimension orders and dtypes. distinct_nontrivial = distinct (scenario, operation, layout).")
    ctx.rng.shuffle(scen)
    nscen = 10 if ctx.quick else 150
    # stratified: the sample starts with two scenarios of every shape (so that every dimension layout, `part` included, is replayed)
    first, rest, cnt = [], [], {}
    for v in scen:
        k = (tuple(v["shape"]), tuple(v["dims"]))
        cnt[k] = cnt.get(k, 0) + 1
        (first if cnt[k] <= 2 else rest).append(v)
    scen = first + rest
    nscen = max(nscen, len(first))
    spectra0 = [S.base_values(v)[0] for v in (1, 2, 3)]
    for iv, v in enumerate(scen[:nscen]):
        # in every third scenario the third spectrum is a calm record (all zeros): undefined ratios (0/0) at one position must not
        # change what happens at the others
        # in every other third it is a near-calm record seven orders of magnitude below its neighbours: a guard or threshold taken
        # relative to the largest spectrum of the dataset must not decide what happens to it
        spectra = ([spectra0[0], spectra0[1], np.zeros_like(spectra0[2])] if iv % 3 == 0 else
                   [spectra0[0], spectra0[1], spectra0[2] * 2.0 ** -23] if iv % 3 == 1 else spectra0)
        shape, dims = v["shape"], v["dims"]
        order = ctx.rng.choice(("lead_first", "spec_first"))
        dtype = ctx.rng.choice(("float64", "float32"))
        if "part" in dims:
            order = "lead_first"
        da0 = build(shape, dims, v["before"], spectra, order, dtype)
        da1 = build(shape, dims, v["after"], spectra, order, dtype)
        dry = {3: 1, 1: 2}.get(iv % 4, 0)       # 1: dry point (depth 0), 2: unreported depth (NaN) where spectrum 3 sits
        w0, w1 = aux(shape, dims, v["before"], dry), aux(shape, dims, v["after"], dry)
        idxs = list(np.ndindex(*shape))
        pe = v["edited"] - 1
        ops = OPS if not ctx.quick else [op for op in OPS if hash((op, tuple(v["before"]), ctx.seed)) % 2 == 0 or op in ("ptm1", "ptm3", "ptm4", "hs", "tp", "smooth33", "mss_depth") or (op in ("rmse_rolled", "oned") and "part" in dims)]
        for op in ops:
            if op == "hmax_notime" and "time" in dims:
                continue          # with a time axis hmax is a function of the whole axis (excluded by the property)
            if "part" in dims and op in S.WATERSHED_OPS + S.RULE_PART_OPS:
                continue          # partitioning an already partitioned dataset would need two `part` dimensions
            ctx.case((tuple(v["before"]), tuple(v["after"]), tuple(shape), op, order, dtype), True)
            try:
                r0, r1 = call(da0, op, w0), call(da1, op, w1)
                rds = call_ds(da0, op, w0)
            except Exception as ex:  # noqa
                ctx.violation({"op": op, "raised": type(ex).__name__, "dims": dims}, "%s raised %s on a %s dataset" % (op, type(ex).__name__, dims),
                              {"err": str(ex)[:300], "order": order, "dtype": dtype})
                continue
            rel = 3e-5 if dtype == "float32" else 1e-9
            if op in ("fit_jonswap", "fit_gaussian"):
                rel = 1e-4
            # every non-spectral dimension of the input is a dimension of the result: one value per position
            lost = [d_ for d_ in dims if any(d_ not in x.dims for x in (list(r0.data_vars.values()) if hasattr(r0, "data_vars") else [r0]))]
            if lost and op not in ("celerity", "wavelen"):       # (dispersion helpers without a depth: functions of the frequencies only)
                ctx.violation({"op": op, "clause": "BatchEqualsSingle", "lost_dims": lost},
                              "%s on a %s dataset returns no value per position: dimension(s) %s are missing from the result" % (op, dims, lost),
                              {"order": order, "dtype": dtype, "shape": shape})
                continue
            # Dataset accessor agrees with the accessor of efth
            d = S.same(S.project(rds), S.project(r0), 0.0, 0.0)
            if d:
                ctx.violation({"op": op, "clause": "DatasetAccessorAgrees"}, "Dataset accessor and efth accessor disagree for %s: %s" % (op, d),
                              {"dims": dims, "order": order, "dtype": dtype})
            for k, idx in enumerate(idxs):
                # the spectrum on its own, in its own buffer, with its own wind and depth
                single = da0.isel({d_: i for d_, i in zip(dims, idx)}).copy(deep=True)
                single = single.copy(data=np.ascontiguousarray(single.transpose(*[x for x in ("freq", "dir")]).values)).transpose("freq", "dir")
                ws_ = tuple(a.isel({d_: i for d_, i in zip(dims, idx)}) for a in w0)
                try:
                    rs = S.project(call(single, op, ws_))
                except Exception as ex:  # noqa
                    ctx.violation({"op": op, "raised_single": type(ex).__name__}, "%s raised on a single spectrum" % op, {"err": str(ex)[:200]})
                    break
                got = at(r0, dims, idx)
                d = S.circular_same(got, rs, rel) if op in ("dm", "dp", "dpm") else S.same(got, rs, rel, abs_=1e-7 if dtype == "float32" else 1e-9)
                if d:
                    ctx.violation({"op": op, "clause": "BatchEqualsSingle", "order": order, "dtype": dtype},
                                  "%s at position %s of a %s dataset differs from the same spectrum on its own: %s" % (op, idx, dims, d),
                                  {"fill": v["before"], "shape": shape})
                else:
                    ctx.replayed()
                if k != pe:
                    d2 = S.same(at(r1, dims, idx), got, 0.0, 0.0)
                    if d2:
                        ctx.violation({"op": op, "clause": "Isolation", "order": order, "dtype": dtype},
                                      "%s at position %s changed when the spectrum at position %s was replaced: %s" % (op, idx, idxs[pe], d2),
                                      {"before": v["before"], "after": v["after"], "shape": shape, "dims": dims})
                    else:
                        ctx.replayed()
    from harness.core import run_forked
    nt, nk, nth, workers = (48, 30, 36, 8) if ctx.quick else (160, 48, 72, 16)
    kind, val = run_forked(_blocks_on_threads, ctx.seed, nt, nk, nth, workers, timeout=900)
    ctx.case(("blocks-on-threads", nt, nk, nth, workers), True)
    if kind == "crash":
        ctx.violation({"stage": "blocks-on-threads", "kind": "crash"}, "the interpreter died while %d threads partitioned the blocks of one dataset (%s)" % (workers, val))
    else:
        bad, n = val
        for name, k in bad.items():
            if k:
                ctx.violation({"stage": "blocks-on-threads", "op": name, "clause": "BatchEqualsSingle"},
                              "%s on a dask-backed dataset computed by %d threads: %d of %d positions differ from the same spectrum partitioned on its own" % (name, workers, k, n))
            else:
                ctx.replayed(n)
    if scen:
        ctx.sample({"kind": "scenario", "shape": scen[0]["shape"], "dims": scen[0]["dims"], "before": scen[0]["before"], "after": scen[0]["after"],
                    "edited": scen[0]["edited"]})
    ctx.assume("hmax is checked only without a time axis (its wave count is a function of the whole time axis by definition)")


def call_ds(da, op, wargs):
    """the same call through the Dataset accessor."""
    ds = da.to_dataset(name="efth")
    if op == "hmax_notime":
        return ds.spec.hmax()
    if op in DEPTH_OPS:
        return getattr(ds.spec, op[:-6])(depth=wargs[2])
    if op in ("ptm1", "ptm2", "ptm4", "ptm1_smooth", "ptm2_smooth", "ptm3", "ptm5", "bbox"):
        class _W:      # partition is reached through the same attribute on both accessors
            pass
        w = _W()
        w.spec = ds.spec
        return call_via(ds.spec, op, wargs)
    return S.call(da, op, ds_accessor=True)


def call_via(acc, op, wargs):
    p = acc.partition
    if op == "ptm3":
        return p.ptm3(parts=3)
    if op == "ptm5":
        return p.ptm5(fcut=0.17)
    if op == "bbox":
        return p.bbox([dict(fmin=0.04, fmax=0.16, dmin=10.0, dmax=190.0), dict(fmin=0.17, fmax=0.5)])
    w, wd, dp = wargs
    if op == "ptm2_smooth":
        return p.ptm2(w, wd, dp, swells=2, smooth=True)
    if op == "ptm1":
        return p.ptm1(w, wd, dp, swells=3)
    if op == "ptm1_smooth":
        return p.ptm1(w, wd, dp, swells=2, smooth=True)
    if op == "ptm2":
        return p.ptm2(w, wd, dp, swells=2)
    return p.ptm4(w, wd, dp)
