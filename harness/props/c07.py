"""C07 - dask-backed data gives the same results under any chunking and scheduler.

Schedule half: DaskSched.tla models block tasks on W worker threads calling the C watershed, whose work area is a set of
process-global statics; the call is a four-step critical section and the GIL is the only lock.  TLC checks
TaskOutputCorrect / BufferShapeConsistent / AtMostOneInside for every interleaving and shape sequence with the GIL held,
liveness (all tasks finish) under weak fairness, and - as a sensitivity configuration - that without the GIL the
corruption is found.  Recorded H1/H2 events of real threaded runs (two differently shaped computations interleaved on 16
workers) are validated by DaskSchedTrace.tla.
Chunking half: Session.tla's Chunk actions; every operation x chunking (one chunk, one element per chunk, uneven,
spectral dimensions split) x scheduler (synchronous, threads with 1/4/16 workers) must succeed and equal the in-memory
result.
"""
import json
import os
import tempfile

import numpy as np

from harness import session as S
from harness import ws
from harness.core import BUILD, MachineryError, run_tlc, setup_repo_imports

CHUNKINGS = {
    "single": lambda da: da.chunk({d: -1 for d in da.dims}),
    "lead1": lambda da: da.chunk({"time": 1}),
    "all1": lambda da: da.chunk({d: 1 for d in da.dims}),
    "uneven": lambda da: da.chunk({"time": (2, 1), "freq": (3, 4), "dir": (5, 3)}),
    "freq_split": lambda da: da.chunk({"freq": 3}),
    "dir_split": lambda da: da.chunk({"dir": 3}),
    "freq_dir_split": lambda da: da.chunk({"time": 2, "freq": 2, "dir": 4}),
    # uneven with the FIRST chunk holding more than half of the axis (a count of chunks taken as size // first chunk is 1 here)
    "first_big": lambda da: da.chunk({"freq": (5, 2), "dir": (6, 2)}),
    "last_one": lambda da: da.chunk({"freq": (6, 1), "dir": (7, 1), "time": (1, 2)}),
    # spectra one record per chunk, the positions that travel with them (non-index coordinates) lazily loaded as ONE chunk: what a
    # store with per-variable chunks hands over
    "coords_apart": lambda da: with_positions(da.chunk({"time": 1}), lazy=True),
}


def with_positions(da, lazy):
    n = da.sizes["time"]
    lon, lat = np.linspace(10.0, 11.0, n), np.linspace(-5.0, -4.0, n)
    if lazy:
        import dask.array as dsa
        lon, lat = dsa.from_array(lon, chunks=n), dsa.from_array(lat, chunks=n)
    return da.assign_coords(lon=("time", lon), lat=("time", lat))
OPS = [op for op in S.ALL_OPS if op not in ("interp_like",)] + S.FIT_OPS + S.TRACK_OPS


def sched_cfg(tasks, shapes, w, gil, live=True):
    txt = "SPECIFICATION %s\nCONSTANTS Tasks <- %s\n W = %d\n HoldsGIL = %s\n ShapeOf <- %s\n" % (
        "FairSpec" if live else "Spec", tasks, w, "TRUE" if gil else "FALSE", shapes)
    txt += "INVARIANT TaskOutputCorrect\nINVARIANT BufferShapeConsistent\nINVARIANT AtMostOneInside\n"
    if live:
        txt += "PROPERTY AllFinish\n"
    return ws.write_cfg("dask_%s_%d_%d.cfg" % (tasks, w, gil), txt)


def threaded_trace(ctx, workers):
    """two differently shaped PTM3 computations interleaved on the threaded scheduler, with H1/H2 events recorded."""
    import dask
    import xarray as xr
    rng = np.random.RandomState(ctx.seed + workers)

    def mk(nt, nf, nd):
        a = np.zeros((nt, nf, nd))
        for k in range(nt):
            for _ in range(3):
                ci, cj, amp = rng.randint(1, nf - 1), rng.randint(0, nd), rng.randint(30, 90)
                ii, jj = np.meshgrid(np.arange(nf), np.arange(nd), indexing="ij")
                dj = np.minimum((jj - cj) % nd, (cj - jj) % nd)
                a[k] += np.maximum(0, amp - 5 * (np.abs(ii - ci) + dj) ** 2)
        return xr.DataArray(a, coords={"time": np.arange(nt), "freq": np.linspace(0.04, 0.4, nf), "dir": np.arange(nd) * (360.0 / nd)},
                            dims=("time", "freq", "dir"), name="efth")
    # the third computation has more than a thousand bins per spectrum and several spectra per block: long C calls, so that a
    # routine that lets other threads run during the call (whatever its size threshold) is actually entered concurrently
    a, b, c = mk(40, 12, 8), mk(40, 9, 12), mk(48, 32, 36)
    ra, rb, rc_ = a.spec.partition.ptm3(parts=3), b.spec.partition.ptm3(parts=3), c.spec.partition.ptm3(parts=3)
    os.makedirs(os.path.join(BUILD, "traces"), exist_ok=True)
    fd, path = tempfile.mkstemp(prefix="h2-", suffix=".ndjson", dir=os.path.join(BUILD, "traces"))
    os.close(fd)
    os.environ["WAVESPECTRA_VERIF_TRACE"] = path
    try:
        la, lb = a.chunk({"time": 1}).spec.partition.ptm3(parts=3), b.chunk({"time": 1}).spec.partition.ptm3(parts=3)
        lc = c.chunk({"time": 4}).spec.partition.ptm3(parts=3)
        ca, cb, cc = dask.compute(la, lb, lc, scheduler="threads", num_workers=workers)
    finally:
        os.environ.pop("WAVESPECTRA_VERIF_TRACE", None)
    ok = np.array_equal(ca.values, ra.values) and np.array_equal(cb.values, rb.values) and np.array_equal(cc.values, rc_.values)
    events = []
    thr = {}
    garbled = 0
    with open(path) as fh:
        for line in fh:
            try:
                ev = json.loads(line)
                ev["ev"]
            except (ValueError, KeyError, TypeError):
                garbled += 1       # an event line is written by several fprintf calls: only two threads inside the routine can interleave them
                continue
            if "thr" in ev:
                ev["thr"] = thr.setdefault(ev["thr"], len(thr) + 1)
            ev.pop("arr", None)
            if ev["ev"] in ("wenter", "wexit", "enter", "pinit"):
                events.append(ev)
    os.unlink(path)
    return ok, events, len(thr), garbled


def broadcast_winds(ctx, dask):
    """spectra on (time, site) with ONE wind / depth series that lacks one of their dimensions (a single met record applied to every
    site, or a per-site depth without time): auxiliary arrays with fewer dimensions than the chunked spectra.  Every partition
    method that takes winds, hp01 included, on every chunking of the spectra, with in-memory and with lazy winds."""
    import xarray as xr
    a, b = S.make(1), S.make(2)
    da = xr.concat([a, b * 0.75 + a.roll(dir=2, roll_coords=False)], dim=xr.DataArray([0, 1], dims="site", name="site")).transpose("time", "site", "freq", "dir")
    chunkings = {"time1": {"time": 1}, "site1_time2": {"site": 1, "time": 2}, "freq3": {"freq": 3}, "all_split": {"time": 1, "site": 1, "freq": 2, "dir": 3},
                 "single": {d: -1 for d in da.dims}}
    for wd in ("time", "site"):
        n = da.sizes[wd]
        mk = lambda v: xr.DataArray(np.array(v)[:n], coords={wd: da[wd]}, dims=(wd,))  # noqa
        w = (mk([8.0, 14.0, 20.0]), mk([10.0, 100.0, 250.0]), mk([30.0, 200.0, 3000.0]))
        for op in ("ptm1", "ptm2", "ptm4", "hp01"):
            f = lambda x, ww: getattr(x.spec.partition, op)(*ww)  # noqa
            try:
                mem = S.project(f(da, w))
            except Exception as ex:  # noqa
                raise MachineryError("in-memory %s with winds on (%s) failed: %s" % (op, wd, ex))
            for cname, ch in chunkings.items():
                for lazy in (False, True):
                    for sname, nw in (("synchronous", None), ("threads", 8)):
                        if ctx.quick and (sname == "threads") != (cname == "time1"):
                            continue
                        ctx.case(("broadcast_winds", wd, op, cname, lazy, sname), True)
                        kw = {"scheduler": sname}
                        if nw:
                            kw["num_workers"] = nw
                        try:
                            with dask.config.set(**kw):
                                got = S.project(f(da.chunk(ch), tuple(x.chunk() for x in w) if lazy else w))
                        except Exception as ex:  # noqa
                            ctx.violation({"op": op, "stage": "broadcast_winds", "winds_on": wd, "raised": type(ex).__name__},
                                          "%s with winds given on (%s) only fails on %s-chunked spectra on (time, site) (%s winds, %s): %s: %s" %
                                          (op, wd, cname, "lazy" if lazy else "in-memory", sname, type(ex).__name__, str(ex)[:160]))
                            break
                        d = S.same(got, mem, 1e-9)
                        if d is None:
                            ctx.replayed()
                        else:
                            ctx.violation({"op": op, "stage": "broadcast_winds", "winds_on": wd, "chunking": cname},
                                          "%s with winds on (%s) on %s-chunked (time, site) spectra differs from the in-memory result: %s" % (op, wd, cname, d))
                    else:
                        continue
                    break


def run(ctx):
    setup_repo_imports()
    import warnings
    warnings.filterwarnings("ignore")
    import dask
    import wavespectra  # noqa
    # ---- schedule half: model
    r = ctx.tlc("MC_DaskSched", sched_cfg("T3", "Shapes3", 3, True), workers=4, label="3 tasks, 2 shapes, 3 workers, GIL held")
    for inv in r.violated:
        ctx.violation({"where": "spec", "invariant": inv}, "DaskSched.tla: %s violated with the GIL held" % inv, r.cex[:3000])
    if not ctx.quick:
        r = ctx.tlc("MC_DaskSched", sched_cfg("T4", "Shapes4", 3, True), workers=8, label="4 tasks, 2 shapes, 3 workers, GIL held")
        for inv in r.violated:
            ctx.violation({"where": "spec", "invariant": inv}, "DaskSched.tla: %s violated with the GIL held" % inv, r.cex[:3000])
    rs = ctx.tlc("MC_DaskSched", sched_cfg("T3", "Shapes3", 3, False, live=False), workers=4, expect_ok=False,
                 label="sensitivity: GIL released (expected: TaskOutputCorrect violated)")
    if "TaskOutputCorrect" not in rs.violated:
        raise MachineryError("DaskSched.tla does not detect the released-GIL corruption (vacuous model?)")
    ctx.note("spec_sensitivity", {"released_gil_detected": True})
    # ---- schedule half: recorded threaded runs
    for workers in ((16,) if ctx.quick else (2, 4, 16)):
        from harness.core import run_forked
        kind, val = run_forked(threaded_trace, ctx, workers, timeout=600)
        ctx.case(("threaded", workers), True)
        if kind == "crash":
            ctx.violation({"where": "threaded", "workers": workers, "kind": "crash"},
                          "the interpreter died during a threaded dask computation of PTM3 on %d workers (%s): calls into the C "
                          "routine are not serialised?" % (workers, val))
            continue
        ok, events, nthreads, garbled = val
        if garbled:
            ctx.violation({"where": "trace", "clause": "AtMostOneInside", "workers": workers, "kind": "interleaved-event-writes"},
                          "%d event lines written by the C routine are interleaved with another thread's: two threads were inside the "
                          "non-reentrant routine at once on %d workers" % (garbled, workers))
        if not ok:
            ctx.violation({"where": "threaded", "workers": workers}, "threaded PTM3 on %d workers differs from the in-memory result" % workers)
        fd, path = tempfile.mkstemp(prefix="dst-", suffix=".ndjson", dir=os.path.join(BUILD, "traces"))
        with os.fdopen(fd, "w") as fh:
            for ev in events:
                fh.write(json.dumps(ev, separators=(",", ":")) + "\n")
        cfg = ws.write_cfg("dasktrace.cfg", "SPECIFICATION TSpec\nINVARIANT Report\n")
        rt = run_tlc("DaskSchedTrace", cfg, workers=1, env={"TRACE_FILE": path}, timeout=900)
        ctx.states += rt.states
        ctx.transitions += rt.transitions
        ctx.tlc_runs.append({"module": "DaskSchedTrace", "label": "%d events, %d threads" % (len(events), nthreads), "states": rt.states,
                             "transitions": rt.transitions, "wall_s": round(rt.wall, 2)})
        v = [x for x in rt.vectors if isinstance(x, dict) and x.get("verdict") == "DaskSchedTrace"]
        if not v:
            raise MachineryError("DaskSchedTrace gave no verdict: %s\n%s" % (rt.errors[:5], rt.out[-2000:]))
        v = v[-1]
        ctx.note("threaded_calls_w%d" % workers, {"calls": v["calls"], "threads": nthreads})
        if v["calls"] < 40:
            raise MachineryError("too few recorded C calls (%d): hooks not active?" % v["calls"])
        if v["rejected"]:
            for x in v["rejected"][:5]:
                ctx.violation({"where": "trace", "clause": x["clause"], "workers": workers},
                              "recorded threaded schedule rejected by DaskSchedTrace: %s at event %d" % (x["clause"], x["line"]),
                              {"event": events[x["line"] - 1], "threads": nthreads})
        else:
            ctx.replayed(v["calls"])
        os.unlink(path)
        ctx.sample({"kind": "threaded schedule", "workers": workers, "threads_seen": nthreads, "first_events": events[:6]}, cap=2)
    # ---- chunking half
    ctx.rule = ("DaskSched: all interleavings of 3-4 tasks over 2 shapes on 3 workers; recorded threaded runs on 16 (2,4,16) workers; "
                "chunking: every operation x 10 chunkings x schedulers (synchronous, threads 1/4/16). distinct_nontrivial = distinct "
                "(operation, chunking, scheduler).")
    ctx.exhaustive = True
    base = S.make(1)
    mem = {}
    scheds = [("synchronous", None), ("threads", 4)] if ctx.quick else [("synchronous", None), ("threads", 1), ("threads", 4), ("threads", 16)]
    for op in OPS:
        try:
            mem[op] = S.project(S.call(base, op))
        except Exception as ex:  # noqa
            raise MachineryError("in-memory %s failed: %s" % (op, ex))
        for cname, cf in CHUNKINGS.items():
            if ctx.quick and cname in ("uneven", "freq_dir_split", "last_one") and hash((op, cname, ctx.seed)) % 2:
                continue
            for sname, nw in scheds:
                if ctx.quick and sname == "threads" and cname not in ("lead1", "all1", "freq_split"):
                    continue
                ctx.case((op, cname, sname, nw), True)
                kw = {"scheduler": sname}
                if nw:
                    kw["num_workers"] = nw
                try:
                    with dask.config.set(**kw):
                        got = S.project(S.call(cf(base), op))
                except Exception as ex:  # noqa
                    ctx.violation({"op": op, "chunking": cname, "raised": type(ex).__name__},
                                  "%s fails on %s-chunked dask input (%s scheduler): %s: %s" % (op, cname, sname, type(ex).__name__, str(ex)[:160]),
                                  {"chunks": str(cf(base).chunks)})
                    break
                rel = 3e-6 if op in ("tp", "tp_raw", "fp", "dp", "dpm", "dpspr", "alpha", "gamma") else 1e-9
                if op in ("fit_jonswap", "fit_gaussian"):
                    rel = 1e-4
                ref = mem[op]
                if cname == "coords_apart":
                    if (op, "pos") not in mem:
                        mem[(op, "pos")] = S.project(S.call(with_positions(base, lazy=False), op))
                    ref = mem[(op, "pos")]
                d = S.circular_same(got, ref, rel) if op in ("dm", "dp", "dpm") else S.same(got, ref, rel, abs_=1e-6 if rel == 1e-4 else 1e-9)
                if d is None:
                    ctx.replayed()
                else:
                    ctx.violation({"op": op, "chunking": cname, "scheduler": sname},
                                  "%s on %s-chunked input (%s, workers=%s) differs from the in-memory result: %s" % (op, cname, sname, nw, d))
    broadcast_winds(ctx, dask)
    # ---- many blocks of one dataset on many threads, for the methods that run Python code around the C call (ptm1: wave-age mask,
    # wind-sea accumulation, ordering): every position must equal the in-memory partition of that spectrum
    from harness.core import run_forked
    from harness.props import c06
    for workers in ((16,) if ctx.quick else (4, 16)):
        nt = 96 if ctx.quick else 320
        kind, val = run_forked(c06._blocks_on_threads, ctx.seed + workers, nt, 30, 36, workers, timeout=900)
        ctx.case(("blocks-on-threads", nt, workers), True)
        if kind == "crash":
            ctx.violation({"stage": "blocks-on-threads", "kind": "crash", "workers": workers}, "the interpreter died while %d threads computed the blocks of one dataset (%s)" % (workers, val))
            continue
        bad, n = val
        for name, k in bad.items():
            if k:
                ctx.violation({"stage": "blocks-on-threads", "op": name, "workers": workers},
                              "%s of a dataset chunked along time, threaded scheduler with %d workers: %d of %d spectra differ from the in-memory result" % (name, workers, k, n))
            else:
                ctx.replayed(n)
    ctx.assume("events are written inside the C wrapper while the GIL is held; thread ids are renumbered before TLC sees them")
    ctx.assume("a data race needing true parallelism inside the C routine cannot occur while the GIL is held: the check establishes that it is held")
