"""C08 - regridding is exact on grid nodes, conserves variance and respects the circle.

Regrid.tla transcribes regrid_spec stage by stage (direction stage with modulo, duplicate removal, wrap bins and linear
interpolation; frequency stage with the zero anchor and zero fill; one variance-conserving factor per spectrum; rotate =
relabel + direction stage) in exact rational arithmetic.  MC_Regrid enumerates source grids (sorted, offset, unsorted,
duplicated 0/360 bin, partial circle) x target grids (same, finer, coarser, shifted, extending both ways) x spectra and
checks ShapeIsTarget, NonNegative, ZeroAboveTop, IdentityOnSameGrid, HsPreserved (exactly, tail rule included),
WholeBinRotationIsShift and Rotate360IsIdentity; every state is replayed into regrid_spec / spec.interp /
spec.interp_like / spec.rotate and compared with the exact rational result.  For arbitrary real rotation angles the
invariants that hold for every angle are checked on the implementation.
"""
from concurrent.futures import ThreadPoolExecutor

import numpy as np

from harness import lattice as L
from harness import ws
from harness.core import MachineryError, run_tlc, setup_repo_imports

INVS = ["ShapeIsTarget", "NonNegative", "ZeroAboveTop", "IdentityOnSameGrid", "HsPreserved", "WholeBinRotationIsShift", "Rotate360IsIdentity"]


def cfg(vals, fsrc, dsrc, ftgt, dtgt, rots, emit=True):
    j = lambda xs: "{" + ",".join(map(str, xs)) + "}"  # noqa
    txt = "SPECIFICATION Spec\nCONSTANTS Vals = %s\n FSRC = %s\n DSRC = %s\n FTGT = %s\n DTGT = %s\n ROTS = %s\n EMIT = %s\n" % (
        j(vals), j(fsrc), j(dsrc), j(ftgt), j(dtgt), j(rots), "TRUE" if emit else "FALSE")
    txt += "".join("INVARIANT %s\n" % i for i in INVS)
    if emit:
        txt += "INVARIANT EmitInv\n"
    name = "rg_%s_%s_%s_%s_%s_%s.cfg" % tuple("".join(map(str, x)).replace("-", "m") for x in (vals, fsrc, dsrc, ftgt, dtgt, rots))
    return ws.write_cfg(name, txt)


def plans(ctx):
    """(vals, fsrc, dsrc, ftgt, dtgt, rots) per TLC process; sized so that each runs in well under a minute."""
    rots = (90, 120, 360, 30, 45)
    jobs = []
    for d in (1, 2, 3, 4, 5, 6):
        nd = {1: 4, 2: 3, 3: 4, 4: 4, 5: 3, 6: 3}[d]
        dt = (0, 1, 5) if d == 5 else (0, 1, 3, 4)
        if ctx.quick:
            if nd == 4:
                jobs.append(((0, 2), (4,), (d,), (0,), dt, rots))
                jobs.append(((0, 5), (3,), (d,), (4,), (0, 3), ()))
            else:
                jobs.append(((0, 2), (3,), (d,), (0, 1, 4), dt, rots))
                jobs.append(((0, 3), (2,), (d,), (2,), (0, 1), ()))
        else:
            for f in (1, 2, 3):
                cells = nd * (2 if f == 3 else 3)
                vals = (0, 1, 3) if cells <= 6 else (0, 2)          # 729 spectra at most with three values, 4096 with two
                if cells >= 12:
                    jobs.append((vals, (f,), (d,), (0, 1), dt, rots))
                    jobs.append((vals, (f,), (d,), (2, 4), dt[:2], ()))       # finer / extended frequency targets x (keep, same) directions
                else:
                    jobs.append((vals, (f,), (d,), (0, 1, 2, 4), dt, rots))
    return jobs


def run(ctx):
    setup_repo_imports()
    import warnings
    warnings.filterwarnings("ignore")
    import xarray as xr
    import wavespectra  # noqa
    from wavespectra.core.utils import regrid_spec
    jobs = plans(ctx)

    def one(job):
        return job, run_tlc("MC_Regrid", cfg(*job), workers=1, timeout=3000)

    vectors = []
    with ThreadPoolExecutor(max_workers=12) as ex:
        for job, r in ex.map(one, jobs):
            ctx.states += r.states
            ctx.transitions += r.transitions
            ctx.tlc_runs.append({"module": "MC_Regrid", "label": "src F%s D%s" % (job[1], job[2]), "states": r.states, "transitions": r.transitions,
                                 "wall_s": round(r.wall, 2), "violated": r.violated})
            for inv in r.violated:
                if inv != "EmitInv":
                    ctx.violation({"where": "spec", "invariant": inv, "src": [job[1], job[2]]}, "MC_Regrid: %s violated" % inv, r.cex[:4000])
            if not r.ok and not r.violated:
                raise MachineryError("TLC failed on MC_Regrid %s: %s" % (job, r.errors[:5]))
            vectors += r.vectors
    ctx.exhaustive = True
    ctx.note("lattice_vectors", len(vectors))
    ctx.rule = ("TLC: 6 source direction grids x 2-3 frequency grids x target frequency/direction grids x maintain_m0 x spectra over a 2-3 symbol "
                "alphabet, plus rotations by {30,45,90,120,360}; the states (a seeded sample of 1400 in quick, 40000 in thorough) replayed into regrid_spec and the accessor methods. "
                "distinct_nontrivial = distinct non-constant (source, target, spectrum) cases.")
    cap = 1400 if ctx.quick else 40000          # thorough: TLC still checks every state; a seeded sample of that size is replayed
    if len(vectors) > cap:
        ctx.rng.shuffle(vectors)
        vectors = vectors[:cap]
        ctx.note("replayed_sample", cap)
    for v in vectors:
        F, D, E = v["F"], v["D"], v["E"]
        # the lattice energies are integers: the same spectrum held as int32 / int64 / big-endian float64 has the same regridded values
        # (interpolation weights and the m0 scale are fractional whatever the storage type of the data)
        store = ctx.rng.choice(("float64", "float64", "float64", "int32", "int64", ">f8"))
        da = L.build(F, D, E, dtype=store)
        exp = np.array([[(c[0] / c[1]) if c[1] else np.nan for c in row] for row in v["out"]], dtype=float)
        flat = [x for row in E for x in row]
        ctx.case(("rg", tuple(F), tuple(D), tuple(flat), tuple(v["tf"]), tuple(v["td"]), v["m0"], v["rot"]), len(set(flat)) > 1)
        calls = []
        if v["rot"] != -1:
            calls.append(("rotate", lambda: da.spec.rotate(float(v["rot"]))))
        else:
            tf = L.freqs(v["tf"]) if v["tf"] else None
            td = np.array(v["td"], float) if v["td"] else None
            calls.append(("regrid_spec", lambda: regrid_spec(da, freq=tf, dir=td, maintain_m0=v["m0"])))
            calls.append(("interp", lambda: da.spec.interp(freq=tf, dir=td, maintain_m0=v["m0"])))
            if tf is not None and td is not None:
                other = xr.DataArray(np.zeros((len(tf), len(td))), coords={"freq": tf, "dir": td}, dims=("freq", "dir"), name="efth")
                calls.append(("interp_like", lambda: da.spec.interp_like(other, maintain_m0=v["m0"])))
        for name, fn in calls:
            try:
                out = fn()
            except Exception as ex:  # noqa
                ctx.violation({"fn": name, "raised": type(ex).__name__}, "%s raised %s" % (name, type(ex).__name__),
                              {"F": F, "D": D, "E": E, "tf": v["tf"], "td": v["td"], "err": str(ex)[:200]})
                continue
            got = np.asarray(out.transpose("freq", "dir").values, float)
            of = L.freqs(v["tf"]) if v["tf"] else L.freqs(F)
            od = np.array(v["td"] if v["td"] else D, float)
            problems = []
            if got.shape != exp.shape or not np.allclose(out.freq.values, of, rtol=0, atol=1e-12) or not np.allclose(out.dir.values, od, rtol=0, atol=1e-9):
                problems.append("coordinates are not exactly the requested ones")
            elif not np.array_equal(np.isnan(got), np.isnan(exp)):
                problems.append("missing-value pattern differs")
            elif not np.allclose(np.nan_to_num(got), np.nan_to_num(exp), rtol=1e-9, atol=1e-12):
                k = np.unravel_index(np.nanargmax(np.abs(got - exp)), got.shape)
                problems.append("value at %s is %.12g, exact %.12g" % (k, got[k], exp[k]))
            if problems:
                ctx.violation({"fn": name, "rot": v["rot"], "m0": v["m0"], "dir_stage": bool(v["td"]) or v["rot"] != -1, "freq_stage": bool(v["tf"])},
                              "%s (data stored as %s): %s" % (name, store, problems[0]), {"store": store, "F": F, "D": D, "E": E, "tf": v["tf"], "td": v["td"], "m0": v["m0"], "rot": v["rot"]})
            else:
                ctx.replayed()
    if vectors:
        ctx.sample({"kind": "regrid vector", **{k: vectors[0][k] for k in ("F", "D", "E", "tf", "td", "m0", "rot")}, "out": vectors[0]["out"]})
    # ---- any real rotation angle: coordinates kept, Hs kept, non-negative
    rng = ctx.rng
    def full_circle(D):
        s_ = sorted(set(x % 360 for x in D))
        return len(s_) == len(D) and len(s_) >= 2 and len(set(b - a for a, b in zip(s_, s_[1:]))) == 1 and s_[-1] - s_[0] + (s_[1] - s_[0]) == 360
    # on a partial-circle grid a rotation can move all the energy out of the covered sector: Hs cannot be kept there
    some = [v for v in vectors if v["rot"] != -1 and full_circle(v["D"])]
    rng.shuffle(some)
    for v in some[: (60 if ctx.quick else 600)]:
        da = L.build(v["F"], v["D"], v["E"])
        if float(da.sum()) == 0:
            continue
        for a in (rng.uniform(-720, 720), rng.choice((17.3, -3.75, 401.0, 1e-3))):
            out = da.spec.rotate(a)
            ctx.case(("anyangle", tuple(v["F"]), tuple(v["D"]), tuple(x for r in v["E"] for x in r), round(a, 6)), True)
            ok = (np.array_equal(out.dir.values, da.dir.values) and np.array_equal(out.freq.values, da.freq.values)
                  and float(out.min()) >= -1e-12 and L.close(float(out.spec.hs()), float(da.spec.hs()), rel=1e-9))
            if ok:
                ctx.replayed()
            else:
                ctx.violation({"fn": "rotate", "relation": "any-angle-invariants"},
                              "rotate(%.6g) broke an invariant that holds for every angle (coordinates kept, Hs kept, non-negative)" % a,
                              {"F": v["F"], "D": v["D"], "E": v["E"], "hs": [float(da.spec.hs()), float(out.spec.hs())], "min": float(out.min())})
    # ---- the same invariants on grids that carry the seam bin twice (0 and 360, as the TRIAXYS reader returns them): after a
    # rotation by an angle that is not a binary fraction the two copies differ by rounding only and must still be one bin
    dup = [v for v in some if 0 in v["D"]][: (25 if ctx.quick else 250)]
    for v in dup:
        order = sorted(range(len(v["D"])), key=lambda k: v["D"][k])
        D2 = [v["D"][k] for k in order] + [360]
        E2 = [[row[k] for k in order] + [row[order[0]]] for row in v["E"]]
        da = L.build(v["F"], D2, E2)
        if float(da.sum()) == 0:
            continue
        for a in (123.4, rng.choice((17.3, -3.75, 0.1, 200.7)), float(rng.randint(1, 359))):
            out = da.spec.rotate(a)
            ctx.case(("anyangle-dup", tuple(v["F"]), tuple(D2), tuple(x for r in E2 for x in r), round(a, 6)), True)
            ok = (np.array_equal(out.dir.values, da.dir.values) and np.array_equal(out.freq.values, da.freq.values)
                  and float(out.min()) >= -1e-12 and L.close(float(out.spec.hs()), float(da.spec.hs()), rel=1e-9))
            if ok:
                ctx.replayed()
            else:
                ctx.violation({"fn": "rotate", "relation": "any-angle-invariants", "grid": "duplicated 0/360"},
                              "rotate(%.6g) on a grid with both 0 and 360 broke an invariant that holds for every angle (coordinates kept, Hs kept, "
                              "non-negative)" % a, {"F": v["F"], "D": D2, "E": E2, "hs": [float(da.spec.hs()), float(out.spec.hs())], "min": float(out.min())})
    # ---- "returns exactly the requested coordinates": targets that are ALMOST the source grid (float32 copies of the frequencies,
    # directions shifted by 2e-5 degrees) are still targets of their own
    for v in [x for x in some if 0 in x["D"]][: (8 if ctx.quick else 80)] + some[: (12 if ctx.quick else 120)]:
        da = L.build(v["F"], v["D"], v["E"])
        if float(da.sum()) == 0:
            continue
        f32 = da.freq.values.astype("float32")
        dsh = (da.dir.values + 2e-5) % 360.0
        # the source directions with north labelled 360 instead of 0, refined by the midpoints: labels in (0, 360] are valid requests
        d360 = np.array(sorted(set((float(x) % 360.0) or 360.0 for x in da.dir.values) | set(((float(a) + float(b)) / 2.0) for a, b in
                                                                                             zip(sorted(da.dir.values % 360.0), sorted(da.dir.values % 360.0)[1:]))))
        # the same spectrum with an integer-typed direction coordinate (np.arange(0, 360, 90)) and a finer target handed over as a
        # list / tuple of fractional directions: the returned labels are the requested numbers, not numbers cast to the source's type
        if all(float(x).is_integer() for x in da.dir.values):
            dai = da.assign_coords(dir=da.dir.values.astype("int64"))
            sd_ = sorted(float(x) for x in da.dir.values)
            fine = sorted(set(sd_) | set(a + (b - a) * t for a, b in zip(sd_, sd_[1:]) for t in (0.25, 0.5)))
            for what_i, tgt in (("list", list(fine)), ("tuple", tuple(fine))):
                ctx.case(("int-dir-source", what_i, tuple(v["F"]), tuple(v["D"]), tuple(x for r in v["E"] for x in r)), True)
                try:
                    o1, o2 = dai.spec.interp(dir=tgt), da.spec.interp(dir=np.array(fine))
                    ok = np.array_equal(np.asarray(o1.dir.values, float), np.array(fine)) and np.allclose(o1.values, o2.values, rtol=1e-12, atol=1e-12, equal_nan=True)
                    msg = "labels %s" % (o1.dir.values,)
                except Exception as ex:  # noqa
                    ok, msg = False, "raised %s: %s" % (type(ex).__name__, str(ex)[:150])
                if ok:
                    ctx.replayed()
                else:
                    ctx.violation({"fn": "interp", "relation": "requested-coordinates", "target": "fractional %s on integer-typed source directions" % what_i},
                                  "interp(dir=%s of fractional directions) on a spectrum with integer-typed dir: %s (requested %s)" % (what_i, msg, fine),
                                  {"F": v["F"], "D": v["D"]})
        for what, kw, want in (("north labelled 360 (ndarray)", dict(dir=d360), ("dir", d360)),
                               ("north labelled 360 (list)", dict(dir=[float(x) for x in d360]), ("dir", d360)),
                               ("freq as float32", dict(freq=f32), ("freq", f32.astype("float64"))),
                               ("freq as float32 DataArray", dict(freq=xr.DataArray(f32, dims="freq")), ("freq", f32.astype("float64"))),
                               ("dir shifted by 2e-5", dict(dir=dsh), ("dir", dsh))):
            if what.startswith("freq") and len(v["F"]) < 2:
                continue
            ctx.case(("near-identity", what, tuple(v["F"]), tuple(v["D"]), tuple(x for r in v["E"] for x in r)), True)
            try:
                out = da.spec.interp(**kw)
                got = np.asarray(out[want[0]].values, float)
                ok = got.shape == want[1].shape and np.array_equal(got, want[1])
                if ok and what.startswith("north"):
                    ok = bool(np.isfinite(out.values).all()) and L.close(float(out.spec.hs()), float(da.spec.hs()), rel=1e-9)
            except Exception as ex:  # noqa
                ctx.violation({"fn": "interp", "relation": "requested-coordinates", "raised": type(ex).__name__}, "interp(%s) raised %s" % (what, type(ex).__name__),
                              {"err": str(ex)[:200]})
                continue
            if ok:
                ctx.replayed()
            else:
                ctx.violation({"fn": "interp", "relation": "requested-coordinates", "target": what},
                              "interp(%s) did not return exactly the requested coordinates (max difference %.3g)" %
                              (what, float(np.max(np.abs(got - want[1]))) if got.shape == want[1].shape else float("nan")), {"F": v["F"], "D": v["D"]})
    ctx.assume("exact comparison on the lattice at 1e-9; targets outside [0,360) are not generated")
