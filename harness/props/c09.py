"""C09 - threshold, wave-age and box splits assign every bin by the stated rule.

Split.tla defines PTM4 (sea iff celerity class <= wind-component class, equality included), BBOX (inclusive membership,
omitted limits = grid extremes, complement last, overlapping rectangles and fmin >= fmax rejected), the band split (bins
inside unchanged, linearly interpolated rows at off-grid cutoffs) and PTM5 (cutoff inserted by Regrid with one
variance-preserving factor, zero strictly beyond the cutoff) in exact arithmetic.  MC_Split enumerates every spectrum over
an alphabet on 4x3 / 4x4 grids (sorted, offset, unsorted directions) x wind patterns x box sets x cutoffs on and off the
nodes, checks Ptm4OK, BboxOK, OverlapRejected, BandOK, Ptm5OK, and every state is replayed into the real methods; statistics
with limits are compared with statistics of the explicitly split spectrum.
"""
from concurrent.futures import ThreadPoolExecutor

import numpy as np

from harness import lattice as L
from harness import ws
from harness.core import MachineryError, run_tlc, setup_repo_imports

INVS = ["Ptm4OK", "MissingIsSwell", "BboxOK", "OverlapRejected", "BandOK", "Ptm5OK"]
DEPTH = 40.0


def cfg(mode, vals, dsets, maxnz=3):
    txt = "SPECIFICATION Spec\nCONSTANTS Vals = {%s}\n MODE = \"%s\"\n DSETS = {%s}\n EMIT = TRUE\n MAXNZ = %d\n" % (",".join(map(str, vals)), mode, ",".join(map(str, dsets)), maxnz)
    txt += "".join("INVARIANT %s\n" % i for i in INVS) + "INVARIANT EmitInv\n"
    return ws.write_cfg("sp_%s_%s_%s_%d.cfg" % (mode, "".join(map(str, vals)), "".join(map(str, dsets)), maxnz), txt)


def arr(res):
    return np.array([[[(c[0] / c[1]) if c[1] else np.nan for c in row] for row in part] for part in res], float)


def real_u(u, C, creal):
    """abstract wind-component class -> a real wind component: exactly the celerity for equal classes, in between otherwise."""
    order = sorted(zip(C, creal))
    cs, rs = [o[0] for o in order], [o[1] for o in order]
    if u in cs:
        return rs[cs.index(u)]
    if u < cs[0]:
        return rs[0] - (cs[0] - u) * 0.25 * rs[0] - 0.1
    if u > cs[-1]:
        return rs[-1] * (1 + 0.1 * (u - cs[-1]))
    k = max(i for i in range(len(cs)) if cs[i] < u)
    t = (u - cs[k]) / (cs[k + 1] - cs[k])
    return rs[k] + t * (rs[k + 1] - rs[k])


def run(ctx):
    setup_repo_imports()
    import warnings
    warnings.filterwarnings("ignore")
    import xarray as xr
    import wavespectra  # noqa
    from wavespectra.core.utils import celerity
    jobs = []
    for mode in ("ptm4", "bbox", "band", "ptm5"):
        for d in (1, 2, 3, 4, 5):
            if d == 5 and mode not in ("bbox", "band"):
                continue        # the grid with north labelled 360 matters where labels are compared with limits
            if ctx.quick:
                jobs.append((mode, (0, 2, 5), (d,), 1 if mode == "ptm5" else 2))
            else:
                jobs.append((mode, (0, 2, 5), (d,), 3))
                jobs.append((mode, (0, 3), (d,), 5 if d in (2, 4) else 4))
    def one(job):
        return job, run_tlc("MC_Split", cfg(*job), workers=1, timeout=3000)
    vectors = []
    with ThreadPoolExecutor(max_workers=8) as ex:
        for job, r in ex.map(one, jobs):
            ctx.states += r.states
            ctx.transitions += r.transitions
            ctx.tlc_runs.append({"module": "MC_Split", "label": "%s dirs %s" % (job[0], job[2]), "states": r.states, "transitions": r.transitions,
                                 "wall_s": round(r.wall, 2), "violated": r.violated})
            for inv in r.violated:
                if inv != "EmitInv":
                    ctx.violation({"where": "spec", "invariant": inv}, "MC_Split: %s violated" % inv, r.cex[:4000])
            if not r.ok and not r.violated:
                raise MachineryError("TLC failed on MC_Split %s: %s" % (job, r.errors[:5]))
            vs = r.vectors
            cap = 160 if ctx.quick else 1200
            if len(vs) > cap:
                ctx.rng.shuffle(vs)
                vs = vs[:cap]
            vectors += vs
    ctx.exhaustive = True
    ctx.note("vectors_replayed", len(vectors))
    ctx.rule = ("TLC: every spectrum over a 2-symbol alphabet on 4x3 / 4x4 grids x 4 wind patterns (incl. equality) / 6 box sets / 24 band "
                "cutoffs / 4 PTM5 cutoffs; a seeded sample (thorough: up to 1200 per mode and grid) replayed into ptm4, bbox, split, ptm5, "
                "stats(limits). distinct_nontrivial = distinct non-constant (mode, grid, spectrum, selection).")
    for v in vectors:
        F, D, E, mode, sel = v["F"], v["D"], v["E"], v["mode"], v["sel"]
        da = L.build(F, D, E)
        flat = [x for r_ in E for x in r_]
        ctx.case((mode, tuple(D), tuple(flat), str(sel)), len(set(flat)) > 1)
        freq = L.freqs(F)
        sd = sorted(D)
        try:
            if mode == "ptm4":
                creal = np.asarray(celerity(freq, DEPTH), float)      # the library's own celerity: equality cases are bit-exact by construction
                # MISSING components (MC_Split!MISSING) are realised as NaN: in the wind speed, in the wind direction (with a speed that
                # would make the bin wind sea), or - when the whole record is missing - in the depth
                miss = [x == -999 for x in sel]
                how = ctx.rng.choice(("wspd", "wdir", "dpt" if all(miss) else "wspd"))
                u = np.array([(np.nan if how == "wspd" else 3.0 * float(creal.max())) if m else real_u(x, v["C"], list(creal)) for x, m in zip(sel, miss)])
                wd = np.array([np.nan if (m and how == "wdir") else float(d) for d, m in zip(D, miss)])
                dirs = xr.DataArray(wd, coords={"dir": np.array(D, float)}, dims=("dir",))
                wspd = xr.DataArray(u, coords={"dir": np.array(D, float)}, dims=("dir",))
                out = da.spec.partition.ptm4(wspd=wspd, wdir=dirs, dpt=(np.nan if (all(miss) and how == "dpt") else DEPTH), agefac=1.0)
                got = np.asarray(out.transpose("part", "freq", "dir").values, float)
                exp = arr(v["res"])
            elif mode == "bbox":
                boxes = []
                none_style = ctx.rng.random() < 0.5
                for b in sel:
                    bb = {}
                    for key, val, sc in (("fmin", b[0], 20.0), ("fmax", b[1], 20.0), ("dmin", b[2], 1.0), ("dmax", b[3], 1.0)):
                        if val != -1:
                            bb[key] = val / sc
                        elif none_style:
                            bb[key] = None          # an omitted limit may also be spelled as an explicit None
                    boxes.append(bb)
                try:
                    out = da.spec.partition.bbox(boxes)
                except ValueError:
                    if v["rejected"]:
                        ctx.replayed()
                    else:
                        ctx.violation({"mode": "bbox", "outcome": "ValueError"}, "bbox rejected boxes that share no rectangle area", {"D": D, "boxes": sel})
                    continue
                if v["rejected"]:
                    ctx.violation({"mode": "bbox", "outcome": "accepted-overlap"}, "bbox accepted overlapping boxes / fmin >= fmax", {"D": D, "boxes": sel})
                    continue
                got = np.asarray(out.transpose("part", "freq", "dir").values, float)
                exp = arr(v["res"])
            elif mode == "band":
                (fmin, fmax), (dmin, dmax) = sel
                kw = {}
                if fmin != -1:
                    kw["fmin"] = fmin / 20.0
                if fmax != -1:
                    kw["fmax"] = fmax / 20.0
                if dmin != -1:
                    kw["dmin"] = float(dmin)
                if dmax != -1:
                    kw["dmax"] = float(dmax)
                out = da.spec.split(**kw)
                got = np.asarray(out.transpose("freq", "dir").values, float)[None]
                exp = arr(v["res"])
                of, od = L.freqs(v["bandf"]), np.array(v["bandd"], float)
                if got.shape[1:] != (len(of), len(od)) or not np.allclose(out.freq.values, of, atol=1e-12) or not np.allclose(out.dir.values, od, atol=1e-9):
                    ctx.violation({"mode": "band", "clause": "coordinates", "dir_limits": dmin != -1 or dmax != -1},
                                  "split(%s): frequencies/directions kept are %s / %s, expected %s / %s" % (kw, out.freq.values, out.dir.values, of, od),
                                  {"D": D, "E": E, "kw": kw})
                    continue
                # statistics called with limits = statistics of the explicitly split spectrum
                if float(da.sum()) > 0 and len(of) > 1:
                    a = float(da.spec.stats(["hs"], **kw)["hs"])
                    b = float(out.spec.hs())
                    if not L.close(a, b, rel=1e-12):
                        ctx.violation({"mode": "band", "clause": "stats-with-limits"}, "stats(hs, limits) = %.12g but hs(split) = %.12g" % (a, b), {"D": D, "E": E, "kw": kw})
            else:
                out = da.spec.partition.ptm5(fcut=sel / 20.0).sortby("dir")     # results are compared by label (storage order is C05's concern)
                got = np.asarray(out.transpose("part", "freq", "dir").values, float)
                exp = arr(v["res"])
                of = L.freqs(v["bandf"])
                if got.shape[1] != len(of) or not np.allclose(out.freq.values, of, atol=1e-12):
                    ctx.violation({"mode": "ptm5", "clause": "coordinates"}, "ptm5 frequencies %s, expected %s" % (out.freq.values, of), {"D": D, "fcut": sel})
                    continue
        except Exception as ex:  # noqa
            ctx.violation({"mode": mode, "raised": type(ex).__name__}, "%s raised %s: %s" % (mode, type(ex).__name__, str(ex)[:150]), {"D": D, "E": E, "sel": sel})
            continue
        if not np.allclose(out.dir.values.astype(float), np.array(v["bandd"] if mode == "band" else sd, float)):
            ctx.violation({"mode": mode, "clause": "direction-coordinates"}, "%s returned directions %s" % (mode, out.dir.values), {"D": D})
            continue
        if got.shape != exp.shape or not np.allclose(got, exp, rtol=1e-9, atol=1e-12):
            k = np.unravel_index(np.argmax(np.abs(got - exp)), exp.shape) if got.shape == exp.shape else None
            key = {"mode": mode, "clause": "values", "sorted_dirs": D == sd, "dirs_start_at_zero": min(D) == 0}
            if mode == "bbox":
                key["omitted_dmax"] = any(b[3] == -1 for b in sel)
            ctx.violation(key, "%s: bin %s is %s, exact %s" % (mode, k, got[k] if k else got.shape, exp[k] if k else exp.shape),
                          {"F": F, "D": D, "E": E, "sel": sel})
        else:
            ctx.replayed()
    if vectors:
        ctx.sample({"kind": "split vector", **{k: vectors[0][k] for k in ("mode", "F", "D", "E", "sel")}})
    # ---- PTM4 against a celerity computed HERE (Newton's iteration on w^2 = g k tanh(k d)), not the library's own: at intermediate
    # depths a wind component 0.4 % above the celerity of a bin puts it in the wind sea, 0.4 % below leaves it in the swell
    # (the library's dispersion approximation is good to 0.1 %, so both are decidable)
    import math
    g = 9.81
    fgrid = np.array([0.08, 0.11, 0.15, 0.19, 0.24, 0.3])
    dgrid = np.arange(0.0, 360.0, 45.0)
    for depth in (6.0, 12.0, 20.0, 35.0, 80.0):
        for kf in range(len(fgrid)):
            w2 = (2 * math.pi * fgrid[kf]) ** 2
            kex = w2 / g
            for _ in range(60):
                t = math.tanh(kex * depth)
                kex -= (g * kex * t - w2) / (g * t + g * kex * depth * (1 - t * t))
            cex = 2 * math.pi * fgrid[kf] / kex
            jd = (kf * 3) % len(dgrid)
            da4 = xr.DataArray(np.full((len(fgrid), len(dgrid)), 2.0) + np.arange(len(dgrid))[None, :], coords={"freq": fgrid, "dir": dgrid}, dims=("freq", "dir"), name="efth")
            for sign, part_expected in ((+1, 0), (-1, 1)):
                ctx.case(("ptm4-independent-celerity", depth, kf, sign), True)
                try:
                    out = da4.spec.partition.ptm4(wspd=xr.DataArray(cex * (1 + 0.004 * sign)), wdir=xr.DataArray(float(dgrid[jd])), dpt=xr.DataArray(depth), agefac=1.0)
                    v = np.asarray(out.transpose("part", "freq", "dir").values, float)[:, kf, jd]
                    ok = v[part_expected] == da4.values[kf, jd] and v[1 - part_expected] == 0.0
                    what = "bin holds %s in (wind sea, swell)" % (v.tolist(),)
                except Exception as ex:  # noqa
                    ok, what = False, "raised %s: %s" % (type(ex).__name__, str(ex)[:120])
                if ok:
                    ctx.replayed()
                else:
                    ctx.violation({"mode": "ptm4", "clause": "membership-vs-independent-celerity"},
                                  "ptm4 at depth %g m: bin (%.2f Hz, %g deg) with the wind component %.1f %% %s its celerity %.4f m/s: %s" %
                                  (depth, fgrid[kf], dgrid[jd], 0.4, "above" if sign > 0 else "below", cex, what), {"depth": depth})
    # ---- "overlapping boxes are rejected" for every PAIR of the list, in whatever order the boxes are given
    import itertools
    freq3 = np.round(np.arange(0.05, 0.41, 0.025), 3)
    dirs3 = np.arange(0.0, 360.0, 15.0)
    rs = np.random.RandomState(ctx.seed)
    da3 = xr.DataArray(rs.rand(freq3.size, dirs3.size) + 0.1, coords={"freq": freq3, "dir": dirs3}, dims=("freq", "dir"), name="efth")
    A = dict(fmin=0.06, fmax=0.30, dmin=10.0, dmax=100.0)
    B = dict(fmin=0.11, fmax=0.19, dmin=190.0, dmax=280.0)       # sorts between A and C on every limit, overlaps neither
    C = dict(fmin=0.16, fmax=0.26, dmin=50.0, dmax=140.0)        # shares bins with A
    Cd = dict(fmin=0.31, fmax=0.39, dmin=50.0, dmax=140.0)       # disjoint control
    for perm in itertools.permutations((A, B, C)):
        ctx.case(("bbox-overlap3", tuple(tuple(sorted(b.items())) for b in perm)), True)
        try:
            da3.spec.partition.bbox([dict(b) for b in perm])
            ctx.violation({"mode": "bbox", "clause": "overlap-rejected", "boxes": 3}, "bbox accepted three boxes of which two overlap (A and C share bins; B lies between them)",
                          {"boxes": [dict(b) for b in perm]})
        except ValueError:
            ctx.replayed()
    for perm in itertools.permutations((A, B, Cd)):
        ctx.case(("bbox-disjoint3", tuple(tuple(sorted(b.items())) for b in perm)), True)
        try:
            out = da3.spec.partition.bbox([dict(b) for b in perm])
            ok = np.allclose(out.sum("part").values, da3.values) and out.sizes["part"] == 4
        except Exception:  # noqa
            ok = False
        if ok:
            ctx.replayed()
        else:
            ctx.violation({"mode": "bbox", "clause": "disjoint-accepted", "boxes": 3}, "bbox rejected or mis-split three disjoint boxes", {"boxes": [dict(b) for b in perm]})
    ctx.assume("PTM4 wind patterns are realised with per-direction wind speed aligned with each bin direction (agefac 1), equality with the "
               "library's own celerity value; finite depth 40 m")
