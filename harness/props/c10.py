"""C10 - statistics obey energy scaling, rotation (relabelling) symmetry and physical bounds; scale_by_hs.

StatsSym.tla states how the defining integrals transform under Scale(k), Relabel(a) and ScaleByHs as action
properties, checked exactly by TLC on every lattice spectrum; MC_Stats checks the bounds as polynomial inequalities
between moments (Cauchy-Schwarz, period bounds).  Binding: for lattice spectra from MC_Stats (positive energy in at
least two frequencies and two directions) both members of each pair (S, kS) / (S, S relabelled by a) are run through
the real accessor and the relation the spec states is checked between the two outputs; the bounds are checked on the
outputs; scale_by_hs is replayed on small datasets with range decisions taken exactly by the spec (margins enforced).
"""
import math

import numpy as np

from harness import lattice as L
from harness import stats_common as sc
from harness import ws
from harness.core import setup_repo_imports

KS = (1e-6, 0.25, 3.0, 1e6)
ANGLES = (45.0, 90.0, -30.0, 370.0, 123.4, -725.25)
HEIGHTS = ["hs", "hrms", "hmax"]            # x sqrt(k)
LINEAR = ["uss", "uss_x", "uss_y", "mss"]   # x k
INVARIANT = ["tm01", "tm02", "tp", "fp", "dm", "dp", "dpm", "dspr", "dpspr", "swe", "sw", "goda", "alpha_over_k"]
DIRS = {"dm", "dp", "dpm"}


def stat_table(da):
    s = da.spec
    out = {}
    for op in ("hs", "hrms", "hmax", "uss", "uss_x", "uss_y", "mss", "tm01", "tm02", "tp", "fp", "dm", "dp", "dpm", "dspr", "dpspr",
               "swe", "sw", "goda", "gamma", "alpha"):
        out[op] = np.asarray(getattr(s, op)().values, dtype=float)
    return out


def sym_cfg():
    return ws.write_cfg("sym.cfg", "SPECIFICATION Spec\nCONSTANTS Vals = {0,1,2}\n FS = {2,3}\n NDIR = 3\n DD0 = 120\n Ks = {2,3}\n"
                        " As = {45,90,370}\nPROPERTY ScaleLinear\nPROPERTY RelabelShifts\nPROPERTY ScaleByHsExact\n")


def run(ctx):
    setup_repo_imports()
    import xarray as xr
    import wavespectra  # noqa
    ctx.rule = ("StatsSym: every spectrum over {0,1,2} on 3x3 grids x {Scale(2,3), Relabel(45,90,370), ScaleByHs}; MC_Stats bounds on "
                "small lattices; metamorphic replay of lattice spectra with energy in >= 2 frequencies and >= 2 directions under "
                "k in {1e-6, 1/4, 3, 1e6} and six relabelling angles (incl. non-integer and beyond +-360). "
                "distinct_nontrivial = distinct base spectra replayed.")
    r = ctx.tlc("StatsSym", sym_cfg(), workers=8, label="symmetry action properties")
    for inv in r.violated:
        ctx.violation({"where": "spec", "property": inv}, "StatsSym: %s violated" % inv, r.cex[:4000])
    ctx.exhaustive = True
    if ctx.quick:
        vecs = sc.run_configs(ctx, [((0, 3), (2, 3), (2,), True), ((0, 2), (1,), (2,), False), ((0, 1), (5,), (4,), False)])
        # the bounds as exact polynomial inequalities on a larger alphabet, without emitting vectors
        sc.run_configs(ctx, [((0, 1, 3), (2, 3), (2, 4), True)], emit=False)
    else:
        vecs = sc.run_configs(ctx, [((0, 1, 3), (2, 3), (2,), True), ((0, 2), (1,), (6,), False), ((0, 1), (5,), (4,), False)])

    def nondegenerate(v):
        E = np.array(v["E"], float)
        return v["D"] and (E.sum(1) > 0).sum() >= 2 and (E.sum(0) > 0).sum() >= 2
    vecs_all = [v for v in vecs if v["D"] and any(x for row in v["E"] for x in row)]
    vecs = [v for v in vecs if nondegenerate(v)]
    groups = sc.group_by_grid(vecs)
    cap = 120 if ctx.quick else 10**9
    ks = (1e-6, 3.0, 1e6) if ctx.quick else KS
    angles = (45.0, -30.0, 370.0, 123.4) if ctx.quick else ANGLES
    for (F, D), vs in groups.items():
        if len(vs) > cap:
            ctx.rng.shuffle(vs)
            vs = vs[:cap]
        base = L.build_batch(list(F), list(D), [v["E"] for v in vs])
        t0 = stat_table(base)
        f = L.freqs(F)
        # ---- bounds on every non-degenerate spectrum
        for i, v in enumerate(vs):
            ctx.case(sc.fp_of(v), True)
            g = {op: float(a[i]) for op, a in t0.items()}
            bad = []
            for op in ("dm", "dp", "dpm"):
                if not math.isnan(g[op]) and not (0.0 <= g[op] < 360.0):
                    bad.append((op, g[op]))
            if not (1.0 / f[-1] - 1e-9 <= g["tm02"] <= g["tm01"] + 1e-9 <= 1.0 / f[0] + 2e-9):
                bad.append(("period-order", (g["tm02"], g["tm01"])))
            if not math.isnan(g["tp"]) and not (1.0 / f[-1] * (1 - 1e-6) <= g["tp"] <= 1.0 / f[0] * (1 + 1e-6)):
                bad.append(("tp-range", g["tp"]))
            if not (0.0 <= g["dspr"] <= 81.03):
                if not (math.isnan(g["dspr"]) and L.spread_margin(v["dspr"][1]) < 1e-9):
                    bad.append(("dspr-range", g["dspr"]))
            if math.isnan(g["sw"]) or math.isnan(g["swe"]) or g["swe"] > 1.0 + 1e-12 or g["sw"] < 0:
                exp_sw = L.ev(v["sw"])
                if not (math.isnan(g["sw"]) and exp_sw < 1e-6):
                    bad.append(("width", (g["sw"], g["swe"])))
            if not any(abs(g["dp"] - d) < 1e-4 for d in D):
                bad.append(("dp-not-a-coordinate", g["dp"]))
            for name, val in bad:
                ctx.violation({"op": "bounds", "which": name}, "physical bound violated: %s = %s" % (name, val),
                              {"F": v["F"], "D": v["D"], "E": v["E"]})
            if not bad:
                ctx.replayed()
        # ---- scaling
        for k in ks:
            t1 = stat_table(base * k)
            for op in t0:
                a, b = t0[op], t1[op]
                if op in HEIGHTS:
                    exp = a * math.sqrt(k)
                elif op in LINEAR:
                    exp = a * k
                elif op == "alpha":
                    exp = a * k
                elif op == "gamma":
                    exp = a
                else:
                    exp = a
                for i, v in enumerate(vs):
                    tol = 2e-6 if op in ("tp", "fp", "dp", "dpm", "dpspr", "alpha", "gamma") else 1e-9
                    circ = op in DIRS
                    # spreads / widths near zero: sqrt(0 +- rounding) is not homogeneous in floating point
                    if op in ("dspr", "dpspr", "sw") and (math.isnan(exp[i]) or math.isnan(b[i]) or abs(exp[i]) < 1e-3):
                        continue
                    if op in ("dm", "dpm") and (math.isnan(exp[i]) or resultant_small(v, op)):
                        continue
                    if op == "swe" and (exp[i] == 1.0 or b[i] == 1.0):
                        continue
                    abs_ = 1e-300 if not circ else 1e-4
                    if op in ("uss_x", "uss_y"):
                        abs_ = 1e-9 * k * abs(float(t0["uss"][i]))     # components may cancel to zero
                    if L.close(float(exp[i]), float(b[i]), rel=tol, abs_=abs_, circular=circ):
                        ctx.replayed()
                    else:
                        ctx.violation({"op": op, "relation": "scale", "k": k},
                                      "%s(k*S) with k=%g is %.12g, expected %.12g from %s(S)" % (op, k, b[i], exp[i], op),
                                      {"F": v["F"], "D": v["D"], "E": v["E"], "base": float(a[i])})
        # ---- relabelling of the direction coordinate by +a
        for ia, a_ in enumerate(angles):
            # every other angle the new labels are reduced modulo 360 (the stored order then is no longer ascending)
            newdir = (base.dir + a_) % 360.0 if ia % 2 else base.dir + a_
            if ia % 3 == 2:
                # the labels of an object whose statistics have ALREADY been read are reassigned in place (S['dir'] = ...): the relation
                # is about the labels the object has now
                rel = base.copy(deep=True)
                stat_table(rel)
                rel["dir"] = newdir.values
            else:
                rel = base.assign_coords(dir=newdir)
            t1 = stat_table(rel)
            for op in t0:
                for i, v in enumerate(vs):
                    x, y = float(t0[op][i]), float(t1[op][i])
                    tol = 3e-6 if op in ("tp", "fp", "dp", "dpm", "dpspr", "alpha", "gamma") else 1e-9
                    if op in DIRS:
                        if math.isnan(x) or (op != "dp" and resultant_small(v, op)):
                            continue
                        # tied directional peaks are kept: relabelling changes no value, so whichever tied coordinate the library
                        # reports for S it must report the same one, relabelled, for the relabelled S
                        ok = L.close((x + a_) % 360.0, y % 360.0, rel=tol, abs_=2e-3 if op != "dm" else 1e-7, circular=True)
                        # dm / dpm are computed angles and must be reported in [0, 360); dp is a direction *coordinate*
                        ok = ok and (op == "dp" or 0 <= y < 360.0)
                    elif op in ("uss_x", "uss_y"):
                        continue      # components rotate with the labels; the speed uss is invariant
                    elif op in ("dspr", "dpspr", "sw") and (math.isnan(x) or math.isnan(y) or abs(x) < 1e-3):
                        continue
                    else:
                        ok = L.close(x, y, rel=tol, abs_=1e-12)
                    if ok:
                        ctx.replayed()
                    else:
                        ctx.violation({"op": op, "relation": "relabel", "a": a_},
                                      "%s after relabelling directions by %+g deg is %.12g, base %.12g" % (op, a_, y, x),
                                      {"F": v["F"], "D": v["D"], "E": v["E"]})
        ctx.sample({"kind": "base spectrum", "F": list(F), "D": list(D), "E": vs[0]["E"], "k": KS, "angles": ANGLES}, cap=2)
    # ---- scale_by_hs: prescribed height where all ranges hold (inclusive), untouched elsewhere
    pool = [v for v in vecs_all if len(v["peaks"]) <= 1]
    ctx.rng.shuffle(pool)
    by = sc.group_by_grid(pool)
    done = 0
    for (F, D), vs in by.items():
        if len(vs) < 4:
            continue
        for rep in range(4 if ctx.quick else 40):
            sel = [ctx.rng.choice(vs) for _ in range(5)]
            # the lattice energies are integers: the same spectra held as int32 / int64 / big-endian doubles must be rescaled to the
            # same heights (the factor is fractional whatever the storage type of the data)
            store = ctx.rng.choice(("float64", "float64", "int32", "int64", ">f8"))
            da = L.build_batch(list(F), list(D), [v["E"] for v in sel], dim="time", dtype=store)
            da = da.assign_coords(time=np.arange(5))
            hs = [L.ev(v["hs"]) for v in sel]
            # a spectrum without an interior peak has no peak period / direction: it meets no tp or dpm range
            tp = [1.0 / L.ev(v["peaks"][0]["fp_smooth"]) if v["peaks"] else float("nan") for v in sel]
            hs_sorted = sorted(set(round(h, 9) for h in hs))
            # thresholds strictly between distinct heights (margin), so every decision is exact
            if len(hs_sorted) < 2:
                continue
            cut = (hs_sorted[0] + hs_sorted[1]) / 2.0
            tps = sorted(set(round(t, 6) for t in tp if not math.isnan(t)))
            if not tps:
                continue
            tcut = (tps[0] + tps[-1]) / 2.0 if len(tps) > 1 else tps[0] + 1.0
            for kw, inrange in (({"hs_min": cut}, [h >= cut for h in hs]),
                                ({"hs_max": cut}, [h <= cut for h in hs]),
                                ({"hs_min": cut, "tp_max": tcut}, [h >= cut and t <= tcut for h, t in zip(hs, tp)]),
                                ({"tp_min": tcut}, [t >= tcut for t in tp]),
                                ({"dpm_min": -1.0, "dpm_max": 400.0}, [not math.isnan(t) for t in tp]),
                                ({}, [True] * 5)):
                if any(abs(t - tcut) < 1e-3 for t in tp):
                    continue
                out = da.spec.scale_by_hs("0.5*hs+1", **kw)
                hs_new = np.asarray(out.spec.hs().values, float)
                for i in range(5):
                    ctx.case(("sbh", sc.fp_of(sel[i]), str(kw)), True)
                    exp = 0.5 * hs[i] + 1 if inrange[i] else hs[i]
                    same = np.array_equal(out.values[i], da.values[i])
                    if L.close(exp, float(hs_new[i]), rel=1e-9) and (inrange[i] or same):
                        ctx.replayed()
                    else:
                        ctx.violation({"op": "scale_by_hs", "inrange": bool(inrange[i]), "args": sorted(kw)},
                                      "scale_by_hs: position %d (hs=%.6g, tp=%.6g, in range=%s) has hs %.9g afterwards, expected %.9g%s" %
                                      (i, hs[i], tp[i], inrange[i], hs_new[i], exp, "" if inrange[i] or same else " and untouched data"),
                                      {"store": store, "F": list(F), "D": list(D), "E": [v["E"] for v in sel], "kw": kw})
            done += 1
    ctx.note("scale_by_hs_datasets", done)
    ctx.assume("gw (Bunney's width) is not scale-homogeneous by its own formula and is excluded from the scaling relation")
    ctx.assume("relations on spreads/widths are not demanded where the exact value is below 1e-3 (sqrt of 0 +- rounding)")


def resultant_small(v, op):
    """dm/dpm are undefined when the weights have no net direction."""
    if op == "dm":
        ws_ = v["dm_nodf"][1][2][1][2]     # the library sums without df (see C01 finding): use its own weights for definedness
        ws2 = v["dm"][1][2][1][2]
        return (1.0 - L.spread_margin(ws_)) < 1e-6 or (1.0 - L.spread_margin(ws2)) < 1e-6
    if op == "dpm":
        for pk in v["peaks"]:
            if pk["dpm"][0] == "nan":
                return True
            if 1.0 - L.spread_margin(pk["dpm"][1][2][1][2]) < 1e-6:
                return True
        return not v["peaks"]
    return False
