"""C11 - writing a dataset and reading it back returns the same spectra.

SWAN ASCII is specified as a record grammar with a writer automaton and a reader automaton (spec/formats/Swan.tla):
TLC checks RoundTrip = Read(Write(ds)) over every assignment of {missing, zero, A, B} to the positions of station lists and
lat x lon grids of unequal sizes / unsorted axes; the reader that maps blocks to grid cells positionally (the code before
the repair) is kept as a regression configuration whose expected result is TLC's counterexample.  Writer conformance is by
trace validation: files written by the real to_swan are lexed into integer records (keywords and numbers only) and
SwanTrace.tla demands they are exactly WriteRecords(ds) - header order, location order, block kinds, factor projected to
the lattice, every integer mantissa.  Reader conformance is by replay: the specification's record sequences are rendered
to text and read by the real read_swan.  Chunked writing is the loop of ChunkLoop.tla (every time step exactly once, in
order) for the loop conditions of to_swan and to_octopus.  JSON, wavespectra netCDF, WW3 netCDF, Octopus and Funwave are
replayed end to end within each pair's documented scope (plain and gzip, chunked, zero and missing spectra, sorted and
unsorted directions, energies spanning orders of magnitude).
"""
import gzip
import json
import os
import shutil
import tempfile

import numpy as np

from harness import lex_swan
from harness import ws
from harness.core import BUILD, SPEC, MachineryError, run_tlc, setup_repo_imports

FDIR = os.path.join(SPEC, "formats")
BASE = np.datetime64("2020-01-01T00:00:00")


def spectrum(rng, nf, nd, kind):
    if kind == "nan":
        return np.full((nf, nd), np.nan)
    if kind == "zero":
        return np.zeros((nf, nd))
    if kind == "span":      # many orders of magnitude
        a = np.array([[rng.choice((1, 3, 40, 500, 9998)) for _ in range(nd)] for _ in range(nf)], float)
    else:
        a = np.array([[rng.randint(0, 9998) for _ in range(nd)] for _ in range(nf)], float)
    a[rng.randrange(nf), rng.randrange(nd)] = 9998.0
    # exclude exact rounding ties of E * 9998 / max = k + 1/2  (max = 9998 -> quotient is E itself: never a tie)
    return a


def make_dataset(rng, layout, nt, nf, nd, kinds, unsorted_dirs=False, time_step=3600, straddle=None):
    import xarray as xr
    F = np.array(sorted(rng.sample([0.04, 0.05, 0.0625, 0.08, 0.1, 0.125, 0.16, 0.2, 0.25, 0.32, 0.4], nf)))
    while straddle is not None and not (F[0] < straddle < F[-1]):      # Octopus' sea/swell statistics need fcut inside the range
        F = np.array(sorted(rng.sample([0.04, 0.05, 0.0625, 0.08, 0.1, 0.16, 0.2, 0.25, 0.32, 0.4], nf)))
    D = np.arange(nd) * (360.0 / nd)
    if unsorted_dirs:
        D = np.roll(D, 1)
    times = BASE + np.arange(nt) * np.timedelta64(time_step, "s")
    if layout[0] == "site":
        ns = layout[1]
        e = np.array([[spectrum(rng, nf, nd, rng.choice(kinds)) for _ in range(ns)] for _ in range(nt)]) * lex_swan.UNIT
        ds = xr.Dataset({"efth": (("time", "site", "freq", "dir"), e),
                         "lon": (("site",), np.array([10.5 + 7 * s for s in range(ns)])), "lat": (("site",), np.array([-20.25 + 3 * s for s in range(ns)]))},
                        coords={"time": times, "site": np.arange(1, ns + 1), "freq": F, "dir": D})
    else:
        nla, nlo = layout[1], layout[2]
        e = np.array([[[spectrum(rng, nf, nd, rng.choice(kinds)) for _ in range(nlo)] for _ in range(nla)] for _ in range(nt)]) * lex_swan.UNIT
        ds = xr.Dataset({"efth": (("time", "lat", "lon", "freq", "dir"), e)},
                        coords={"time": times, "lat": np.array([-10.0 + 5 * a for a in range(nla)]), "lon": np.array([100.0 + 2.5 * b for b in range(nlo)]),
                                "freq": F, "dir": D})
    return ds


def ds_record(ds):
    """lattice description of a dataset for SwanTrace (positions in the WRITER's order are derived by the spec)."""
    grid = "lat" in ds.efth.dims
    e = ds.efth.values
    nt = ds.sizes["time"]
    if grid:
        e = e.reshape(nt, -1, ds.sizes["freq"], ds.sizes["dir"])       # (lat, lon) row-major = latitude-major: the layout of Swan.tla's E[t][p]
        lons, lats = ds.lon.values, ds.lat.values
    else:
        lons, lats = ds.lon.values, ds.lat.values
    E = []
    for t in range(nt):
        row = []
        for p in range(e.shape[1]):
            s = e[t, p]
            if np.isnan(s).any():
                row.append({"kind": "nan", "v": []})
            elif s.max() <= 0:
                row.append({"kind": "zero", "v": []})
            else:
                row.append({"kind": "data", "v": [[int(round(x / lex_swan.UNIT)) for x in r] for r in s]})
        E.append(row)
    return {"T": [int((t - BASE) / np.timedelta64(1, "s")) for t in ds.time.values], "F": [int(round(f * 1e5)) for f in ds.freq.values],
            "D": [int(round(d * 1e4)) for d in ds.dir.values], "grid": bool(grid), "lons": [int(round(x * 1e6)) for x in lons],
            "lats": [int(round(y * 1e6)) for y in lats], "E": E}


def compare(ctx, fmt, ds, back, key, resolution, layout_note=""):
    """labelled comparison of the original and the dataset read back; returns list of problems."""
    probs = []
    o = ds.efth
    b = back.efth
    # what comes back is a spectra dataset: floating-point energy densities the accessor can integrate (not an object array holding
    # None or strings where the file had a missing value)
    if b.dtype.kind != "f":
        probs.append(("dtype", "efth read back with dtype %s" % b.dtype))
        return probs
    for cname in ("freq", "dir"):
        if cname in back.coords and back[cname].dtype.kind not in "fiu":
            probs.append(("dtype", "%s read back with dtype %s" % (cname, back[cname].dtype)))
            return probs
    try:
        back.spec.hs()
    except Exception as ex:  # noqa
        probs.append(("unusable", "hs() of the dataset read back raises %s" % type(ex).__name__))
        return probs
    if "lat" in b.dims and "lat" not in o.dims and b.sizes["lat"] == 1 and b.sizes["lon"] == 1 and o.sizes.get("site", 1) == 1:
        # a file with a single location reads back as a 1 x 1 grid: same position, compared as one site
        b = b.isel(lat=0, lon=0, drop=True).expand_dims(site=[0], axis=1 if "time" in b.dims else 0)
        back = back.isel(lat=0, lon=0).assign(lon=("site", [float(back.lon.values[0])]), lat=("site", [float(back.lat.values[0])])) if False else back
    if "lat" in o.dims and "lat" not in b.dims:
        # formats that flatten a grid into sites: compare by (lon, lat) of every site
        o = o.stack(site=("lat", "lon"))
        olon, olat = o.lon.values, o.lat.values
        o = o.reset_index("site", drop=True).transpose("time", "site", "freq", "dir")
    else:
        olon = ds.lon.values if "lon" in ds else None
        olat = ds.lat.values if "lat" in ds else None
    if not np.array_equal(np.asarray(back.time.values, "datetime64[s]"), np.asarray(ds.time.values, "datetime64[s]")):
        probs.append(("times", "times read back %s, written %s" % (np.asarray(back.time.values, "datetime64[s]"), np.asarray(ds.time.values, "datetime64[s]"))))
        return probs
    if not np.allclose(np.sort(back.freq.values), np.sort(ds.freq.values), rtol=0, atol=1e-5) or \
       not np.allclose(np.sort(back.dir.values % 360), np.sort(ds.dir.values % 360), rtol=0, atol=1e-4):
        probs.append(("spectral-coordinates", "freq/dir read back %s / %s" % (back.freq.values, back.dir.values)))
        return probs
    b = b.assign_coords(dir=b.dir % 360).sortby("dir").sortby("freq")
    o = o.assign_coords(dir=o.dir % 360).sortby("dir").sortby("freq")
    if "lat" in o.dims:
        if "lat" not in b.dims:
            probs.append(("layout", "grid written, %s read back" % (b.dims,)))
            return probs
        if not (np.allclose(back.lon.values, np.sort(ds.lon.values)) and np.allclose(back.lat.values, np.sort(ds.lat.values))):
            probs.append(("positions", "lon/lat axes read back %s / %s" % (back.lon.values, back.lat.values)))
            return probs
        o = o.sortby("lat").sortby("lon").transpose("time", "lat", "lon", "freq", "dir")
        b = b.transpose("time", "lat", "lon", "freq", "dir")
    else:
        if b.sizes.get("site", 1) != o.sizes.get("site", 1):
            probs.append(("positions", "%d sites read back, %d written" % (b.sizes.get("site", 1), o.sizes.get("site", 1))))
            return probs
        if olon is not None and "lon" in back and fmt != "funwave" and np.size(back.lon.values) == np.size(olon):
            if not (np.allclose(np.ravel(back.lon.values), np.ravel(olon), atol=1e-5) and np.allclose(np.ravel(back.lat.values), np.ravel(olat), atol=1e-5)):
                probs.append(("positions", "site lon/lat read back %s / %s, written %s / %s" % (back.lon.values, back.lat.values, olon, olat)))
                return probs
        dims = [d for d in ("time", "site", "freq", "dir") if d in o.dims]
        o = o.transpose(*dims)
        b = b.transpose(*[d for d in dims if d in b.dims])
    ov, bv = np.asarray(o.values, float), np.asarray(b.values, float).reshape(o.shape)
    spec_axes = (-2, -1)
    onan = np.isnan(ov).any(axis=spec_axes)
    bnan = np.isnan(bv).all(axis=spec_axes)
    if key.get("missing_expressible", True):
        if not np.array_equal(onan, bnan):
            probs.append(("missing", "missing spectra do not survive the trip at their own position (written %s, read %s)" % (onan.ravel().tolist(), bnan.ravel().tolist())))
            return probs
    ok = np.where(onan[..., None, None], True, np.abs(np.nan_to_num(bv) - np.nan_to_num(ov)) <= resolution(np.nan_to_num(ov)))
    if not ok.all():
        k = np.unravel_index(np.argmin(ok), ok.shape)
        probs.append(("values", "energy at %s read back %.9g, written %.9g%s" % (k, bv[k], ov[k], layout_note)))
    zero_o = (np.nan_to_num(ov, nan=1.0) == 0).all(axis=spec_axes)
    zero_b = (np.nan_to_num(bv, nan=1.0) == 0).all(axis=spec_axes)
    if not np.array_equal(zero_o, zero_b):
        probs.append(("zero", "all-zero spectra do not come back as zero at their own position"))
    return probs


def run(ctx):
    setup_repo_imports()
    import warnings
    warnings.filterwarnings("ignore")
    import xarray as xr
    import wavespectra  # noqa
    from wavespectra import read_funwave, read_json, read_netcdf, read_octopus, read_swan, read_ww3
    rng = ctx.rng
    tmp = tempfile.mkdtemp(prefix="c11-", dir=BUILD)
    try:
        # ---- design level: SWAN round trip, and the chunk loops
        c = ws.write_cfg("swan_bycoord.cfg", "SPECIFICATION Spec\nCONSTANTS READMODE = \"bycoord\"\n LAYOUTS = {1,2,3,4,5,6}\nINVARIANT RoundTripHolds\n")
        r = ctx.tlc("MC_Swan", c, workers=8, cwd=FDIR, label="SWAN Read(Write(ds)) = ds, reader places blocks by coordinates")
        for inv in r.violated:
            ctx.violation({"where": "spec", "format": "swan", "invariant": inv}, "Swan.tla: %s violated" % inv, r.cex[:3000])
        c = ws.write_cfg("swan_positional.cfg", "SPECIFICATION Spec\nCONSTANTS READMODE = \"positional\"\n LAYOUTS = {2,3,6}\nINVARIANT RoundTripHolds\n")
        rr = ctx.tlc("MC_Swan", c, workers=4, cwd=FDIR, expect_ok=False, label="regression: positional reader (expected: RoundTripHolds violated)")
        if "RoundTripHolds" not in rr.violated:
            raise MachineryError("Swan.tla no longer sees the lat-major/lon-major mismatch (vacuous model?)")
        for cond, expect_ok in (("swan", True), ("octopus", False)):
            c = ws.write_cfg("chunk_%s.cfg" % cond, "SPECIFICATION Spec\nCONSTANTS MAXN = 6\n COND = \"%s\"\nINVARIANT AllWrittenOnceInOrder\nPROPERTY Terminates\n" % cond)
            rc = ctx.tlc("ChunkLoop", c, workers=4, cwd=FDIR, expect_ok=False, label="chunk loop with the %s condition" % cond)
            if rc.violated:
                ctx.violation({"where": "spec", "format": cond, "clause": "chunk-loop"},
                              "ChunkLoop.tla: the loop condition of to_%s does not write every time step exactly once (n=3, ntime=2 drops the last)" % cond,
                              rc.cex[:1500])
        ctx.exhaustive = True
        ctx.rule = ("TLC: SWAN round trip over all {missing, zero, A, B} assignments on 6 layouts; chunk loops for N <= 6 and every ntime; writer "
                    "traces and reader replays on seeded random lattice datasets (stations and grids of unequal sizes, zero / missing / "
                    "spanning spectra, unsorted directions, gzip, ntime); end-to-end for JSON, netCDF, WW3, Octopus, Funwave. "
                    "distinct_nontrivial = distinct (format, dataset, options).")
        # ---- SWAN: writer trace validation + end to end
        nds = 30 if ctx.quick else 200
        trace = []
        index = {}
        for k in range(nds):
            layout = rng.choice((("site", 1), ("site", 3), ("grid", 2, 3), ("grid", 3, 2), ("grid", 1, 2), ("grid", 2, 1)))
            nt, nf, nd = rng.choice((1, 2, 3)), rng.choice((2, 3)), rng.choice((2, 4))
            ds = make_dataset(rng, layout, nt, nf, nd, ("data", "data", "zero", "nan", "span"), unsorted_dirs=(k % 3 == 0), time_step=rng.choice((30, 3600)))
            if (k % 3 == 1 or (layout[0] == "site" and k % 2 == 0)) and ds.sizes["time"] > 1:
                ds = ds.isel(time=list(range(ds.sizes["time"]))[::-1][:1] + list(range(ds.sizes["time"] - 1)))     # records not in chronological order
            ntime = rng.choice((None, 1, 2))
            gz = k % 4 == 1
            path = os.path.join(tmp, "w%d.spec%s" % (k, ".gz" if gz else ""))
            ctx.case(("swan", k, str(layout), ntime, gz), True)
            try:
                # every fifth dataset is handed to the writer with dir stored before freq: same labelled contents, other storage
                dsw = ds
                if k % 5 == 2:
                    dd_ = list(ds.efth.dims)
                    i_, j_ = dd_.index("freq"), dd_.index("dir")
                    dd_[i_], dd_[j_] = dd_[j_], dd_[i_]
                    dsw = ds.transpose(*dd_)
                dsw.spec.to_swan(path, ntime=ntime)
                text = (gzip.open(path, "rt") if gz else open(path)).read()
                recs = lex_swan.lex(text)
            except Exception as ex:  # noqa
                ctx.violation({"format": "swan", "stage": "write", "raised": type(ex).__name__}, "to_swan / lexing failed: %s" % str(ex)[:200], {"layout": layout})
                continue
            trace.append({"k": "DS", "tid": k, "ds": ds_record(ds)})
            trace += recs
            index[k] = (layout, ntime, gz)
            try:
                back = read_swan(path)
                # the readers return the records sorted by time (C13): the pair is compared by time label
                probs = compare(ctx, "swan", ds.sortby("time"), back, {}, lambda ov: np.maximum(np.max(ov, axis=(-2, -1), keepdims=True) / 9998.0 / 2 * 1.0001, 1e-12))
            except Exception as ex:  # noqa
                probs = [("raised-" + type(ex).__name__, "read_swan raised %s: %s" % (type(ex).__name__, str(ex)[:150]))]
            # the multi-file reader on the same file (station layouts): the same labelled contents
            if layout[0] == "site" and not probs:
                try:
                    from wavespectra.input.swan import read_swans
                    back2 = read_swans([path], int_freq=False, int_dir=False)
                    p2 = compare(ctx, "swan", ds.sortby("time"), back2, {}, lambda ov: np.maximum(np.max(ov, axis=(-2, -1), keepdims=True) / 9998.0 / 2 * 1.0001, 1e-12))
                    probs += [("read_swans-" + c_, "read_swans: " + m_) for c_, m_ in p2]
                except Exception as ex:  # noqa
                    probs.append(("read_swans-raised-" + type(ex).__name__, "read_swans raised %s: %s" % (type(ex).__name__, str(ex)[:150])))
            for clause, msg in probs:
                ctx.violation({"format": "swan", "clause": clause, "layout": layout[0], "both_axes_gt1": layout[0] == "grid" and layout[1] > 1 and layout[2] > 1,
                               "ntime": "chunked" if ntime else "all"},
                              "SWAN round trip (%s, ntime=%s%s): %s" % (layout, ntime, ", gz" if gz else "", msg), {"layout": layout, "sizes": dict(ds.sizes)})
            if not probs:
                ctx.replayed()
        # the same pair on spectra of very different magnitude in one file (a sheltered station next to an exposed one): one FACTOR
        # per spectrum means every spectrum comes back to half a count of ITS OWN peak, however small the peak is
        for k in range(4 if ctx.quick else 30):
            layout = ("site", 4)
            ds = make_dataset(rng, layout, 2, 3, 4, ("data",), time_step=3600)
            scales = np.array([1.0, 1e-3, 1e-6, 1e-9]) if k % 2 == 0 else np.array([1e-9, 1e3, 1e-5, 1.0])
            ds["efth"] = ds.efth * scales[None, :, None, None]
            path = os.path.join(tmp, "m%d.spec" % k)
            ctx.case(("swan-magnitudes", k), True)
            try:
                ds.spec.to_swan(path)
                back = read_swan(path)
                peak = np.max(ds.efth.values, axis=(-2, -1), keepdims=True)
                err = np.abs(back.efth.transpose("time", "site", "freq", "dir").values - ds.efth.values) / peak
                ok = bool(np.all(err <= 0.5001 / 9998.0))
            except Exception as ex:  # noqa
                ctx.violation({"format": "swan", "clause": "magnitudes", "raised": type(ex).__name__}, "SWAN round trip of mixed magnitudes raised %s" % type(ex).__name__,
                              {"err": str(ex)[:200]})
                continue
            if ok:
                ctx.replayed()
            else:
                w = np.unravel_index(np.argmax(err), err.shape)
                ctx.violation({"format": "swan", "clause": "magnitudes"},
                              "SWAN round trip: the spectrum at site %d (peak %.3g) comes back %.3g of its own peak off (half a count is %.3g)" %
                              (w[1], float(peak[w[0], w[1], 0, 0]), float(err[w]), 0.5 / 9998), {"scales": scales.tolist()})
        fd, tpath = tempfile.mkstemp(prefix="swantrace-", suffix=".ndjson", dir=tmp)
        with os.fdopen(fd, "w") as fh:
            for ln in trace:
                fh.write(json.dumps(ln, separators=(",", ":")) + "\n")
        c = ws.write_cfg("swantrace.cfg", "SPECIFICATION TSpec\nPOSTCONDITION Verdict\n")
        rt = run_tlc("SwanTrace", c, workers=1, env={"TRACE_FILE": tpath}, cwd=FDIR, timeout=1500)
        ctx.states += rt.states
        ctx.transitions += rt.transitions
        ctx.tlc_runs.append({"module": "SwanTrace", "label": "%d files, %d records" % (len(index), len(trace)), "states": rt.states, "transitions": rt.transitions,
                             "wall_s": round(rt.wall, 2)})
        v = [x for x in rt.vectors if isinstance(x, dict) and x.get("verdict") == "SwanTrace"]
        if not v:
            raise MachineryError("SwanTrace gave no verdict: %s\n%s" % (rt.errors[:5], rt.out[-2500:]))
        v = v[-1]
        if v["accepted"] + len(v["rejected"]) != len(index):
            raise MachineryError("SwanTrace verdict not total: %s" % v)
        ctx.replayed(v["accepted"])
        for x in v["rejected"]:
            layout, ntime, gz = index[x["tid"]]
            ctx.violation({"format": "swan", "clause": "writer-records", "got": x["got"], "expected": x["expected"]},
                          "file written by to_swan is not Write(ds): record %d is %s, specification expects %s (%s, ntime=%s)" %
                          (x["record"], x["got"], x["expected"], layout, ntime), {"layout": layout})
        if trace:
            ctx.sample({"kind": "writer trace (first records)", "ds": trace[0]["ds"], "records": trace[1:9]})
        # ---- SWAN: reader replay of rendered record sequences (incl. LOCATIONS keyword is left to C13)
        for k in range(16 if ctx.quick else 120):
            layout = rng.choice((("site", 2), ("grid", 2, 3), ("grid", 3, 2)))
            ds = make_dataset(rng, layout, 2, 2, 2, ("data", "zero", "nan"))
            path = os.path.join(tmp, "r%d.spec" % k)
            ds.spec.to_swan(path)
            recs = lex_swan.lex(open(path).read())
            # permute the location order in the file (a reader must place blocks by the header's coordinates)
            locs = [i for i, r_ in enumerate(recs) if r_["k"] == "LOC"]
            blocks = [i for i, r_ in enumerate(recs) if r_["k"] in ("NODATA", "ZERO", "FACTOR")]
            perm = list(range(len(locs)))
            rng.shuffle(perm)
            new = list(recs)
            for a, b in enumerate(perm):
                new[locs[a]] = recs[locs[b]]
            nl = len(locs)
            for t in range(len(blocks) // nl):
                for a, b in enumerate(perm):
                    new[blocks[t * nl + a]] = recs[blocks[t * nl + b]]
            p2 = os.path.join(tmp, "r%d_perm.spec" % k)
            with open(p2, "w") as fh:
                fh.write(lex_swan.render(new, 2, 2))
            ctx.case(("swan-reader", k, str(layout), tuple(perm)), True)
            try:
                a, b = read_swan(path), read_swan(p2)
                same = a.efth.shape == b.efth.shape and np.allclose(np.nan_to_num(a.efth.values, nan=-1), np.nan_to_num(b.efth.values, nan=-1), rtol=1e-6, atol=1e-9)
                if layout[0] == "site":
                    same = True     # station lists keep the file order: a permuted file is a different (valid) dataset
                if same:
                    ctx.replayed()
                else:
                    ctx.violation({"format": "swan", "clause": "reader-places-by-coordinates"},
                                  "read_swan of a gridded file depends on the order in which the locations are listed", {"layout": layout, "perm": perm})
            except Exception as ex:  # noqa
                ctx.violation({"format": "swan", "stage": "read-rendered", "raised": type(ex).__name__}, "read_swan failed on a rendered file: %s" % str(ex)[:200])
        # ---- the other pairs, end to end
        def e2e(fmt, ds, write, read, resolution, key=None, note=""):
            ctx.case((fmt, note, str(dict(ds.sizes))), True)
            try:
                p = write()
                back = read(p)
                probs = compare(ctx, fmt, ds, back, key or {}, resolution)
            except Exception as ex:  # noqa
                probs = [("raised-" + type(ex).__name__, "%s: %s" % (type(ex).__name__, str(ex)[:160]))]
            for clause, msg in probs:
                ctx.violation(dict({"format": fmt, "clause": clause}, **({"options": note} if note else {})), "%s round trip%s: %s" % (fmt, " (" + note + ")" if note else "", msg),
                              {"sizes": dict(ds.sizes)})
            if not probs:
                ctx.replayed()
        for k in range(10 if ctx.quick else 60):
            layout = rng.choice((("site", 1), ("site", 3), ("grid", 2, 3)))
            ds = make_dataset(rng, layout, rng.choice((1, 3)), 3, 4, ("data", "span", "zero", "nan"), unsorted_dirs=k % 2 == 1)
            exact = lambda ov: np.full_like(ov, 1e-12) + 1e-9 * np.abs(ov)  # noqa
            p = os.path.join(tmp, "j%d.json" % k)
            e2e("json", ds, lambda: (ds.spec.to_json(p), p)[1], read_json, exact)
            p2 = os.path.join(tmp, "n%d.nc" % k)
            e2e("netcdf", ds, lambda: (ds.spec.to_netcdf(p2, ncformat="NETCDF3_64BIT", compress=False, packed=False), p2)[1], read_netcdf, exact, note="unpacked")
            p3 = os.path.join(tmp, "np%d.nc" % k)
            e2e("netcdf", ds, lambda: (ds.spec.to_netcdf(p3, ncformat="NETCDF3_64BIT", compress=False, packed=True), p3)[1], read_netcdf,
                lambda ov: np.full_like(ov, 5.0001e-6), note="packed")
            if layout[0] == "site":
                p4 = os.path.join(tmp, "w%d.nc" % k)
                e2e("ww3", ds, lambda: (ds.spec.to_ww3(p4, ncformat="NETCDF3_64BIT"), p4)[1], read_ww3, lambda ov: 1e-12 + 1e-9 * np.abs(ov))
        # Octopus: one site, whole-degree directions, whole-minute timestamps; energy printed with 7 decimals
        for k in range(10 if ctx.quick else 60):
            nt = rng.choice((1, 2, 3))
            ds = make_dataset(rng, ("site", 1), nt, 3, 4, ("data", "zero", "span"), unsorted_dirs=k % 2 == 1, time_step=3600, straddle=0.125)
            for ntime in ((None, 2) if nt == 3 else (None,)):
                gz = k % 2 == 0
                p = os.path.join(tmp, "o%d_%s.oct%s" % (k, ntime, ".gz" if gz else ""))
                def res(ov, ds=ds):
                    df = np.gradient(ds.freq.values) if ds.sizes["freq"] > 1 else np.array([1.0])
                    return 5.001e-8 / (df[:, None] * 90.0) + 1e-9 * np.abs(ov)
                e2e("octopus", ds, lambda: (ds.spec.to_octopus(p, ntime=ntime), p)[1], read_octopus, res, key={"missing_expressible": False},
                    note="ntime=%s%s" % ("chunked" if ntime else "all", ",gz" if gz else ""))
                if ntime is None and "lon" in ds and "lat" in ds:
                    # the same records without positions in the dataset: the caller names them in the call (lons=, lats=)
                    bare = ds.drop_vars(["lon", "lat"])
                    lo, la = np.asarray(ds.lon.values, float).copy(), np.asarray(ds.lat.values, float).copy()
                    pk = os.path.join(tmp, "ok%d.oct" % k)
                    e2e("octopus", ds, lambda: (bare.spec.to_octopus(pk, lons=lo, lats=la), pk)[1], read_octopus, res, key={"missing_expressible": False},
                        note="positions given as lons=/lats=")
                    # the same records on a direction grid whose last label is 360 (north written 360, as read_funwave itself returns it)
                    ds360 = ds.assign_coords(dir=ds.dir + (360.0 - float(ds.dir.max())))
                    p360 = os.path.join(tmp, "s360_%d.spec" % k)
                    e2e("swan", ds360, lambda: (ds360.spec.to_swan(p360), p360)[1], lambda q: read_swan(q, as_site=True),
                        lambda ov: 2e-4 * np.nanmax(np.abs(ov)) + 0 * ov, note="north labelled 360")
                    ps = os.path.join(tmp, "sk%d.spec" % k)
                    e2e("swan", ds, lambda: (bare.spec.to_swan(ps, lons=lo, lats=la), ps)[1], lambda q: read_swan(q, as_site=True),
                        lambda ov: 2e-4 * np.nanmax(np.abs(ov)) + 0 * ov, note="positions given as lons=/lats=")
        # Funwave: one spectrum, directions within the unclipped range
        for k in range(6 if ctx.quick else 40):
            import xarray as xr
            F = np.array([0.05, 0.1, 0.2])
            D = np.array([225.0, 247.5, 270.0, 292.5, 315.0])
            e = np.array([[rng.randint(1, 9000) for _ in D] for _ in F]) * 1e-3
            # zero bins and missing bins (one frequency, or the whole spectrum): the text format prints nan, the reader returns it
            if k % 3 == 1:
                e[rng.randrange(len(F)), rng.randrange(len(D))] = 0.0
            elif k % 3 == 2:
                if k % 2:
                    e[rng.randrange(len(F)), :] = np.nan
                else:
                    e[:, :] = np.nan
            ds1 = xr.Dataset({"efth": (("freq", "dir"), e)}, coords={"freq": F, "dir": D})
            p = os.path.join(tmp, "f%d.txt" % k)
            ctx.case(("funwave", k), True)
            try:
                ds1.spec.to_funwave(p, clip=False)
                back = read_funwave(p)
                b = back.efth.sortby("dir").sortby("freq")
                ok = b.shape == e.shape and np.allclose(b.dir.values, D, atol=1e-3) and np.allclose(b.freq.values, F, atol=1e-6) and \
                    np.allclose(b.values, e, rtol=2e-3, atol=1e-6, equal_nan=True) and np.array_equal(np.isnan(b.values), np.isnan(e))
                if ok:
                    ctx.replayed()
                else:
                    ctx.violation({"format": "funwave", "clause": "values"}, "Funwave round trip: read back %s on dirs %s" % (np.round(b.values.ravel()[:4], 5), b.dir.values),
                                  {"written": e.tolist()})
            except Exception as ex:  # noqa
                ctx.violation({"format": "funwave", "raised": type(ex).__name__}, "Funwave round trip raised %s: %s" % (type(ex).__name__, str(ex)[:160]))
    finally:
        shutil.rmtree(tmp, ignore_errors=True)
    ctx.assume("netCDF pairs are exercised with the scipy engine (NETCDF3_64BIT): NETCDF4-only options (zlib) cannot be executed offline")
    ctx.assume("energies are multiples of 1e-3 with the maximum of every SWAN spectrum at 9.998 so that no mantissa is an exact rounding tie")
