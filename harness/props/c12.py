"""C12 - model-native datasets are converted with the right units and direction sense.

Convert.tla is a quantity algebra (rational x power of pi): for WW3, SWAN netCDF, WWM and ERA5 it states the native bin
contribution to the variance (native value, Jacobian, native bin widths) and the converted one (energy density per Hz per
degree with the converted widths); TLC checks VariancePreserved bin by bin, BinKeepsPhysicalDir (going-to turned by 180
degrees, radians to degrees, labels in [0,360)) and DispatchTotalAndRight (the name-based recogniser with its if-chain
order) over lattice datasets (3 frequency grids x 4 direction axes incl. descending / offset, sparse integer spectra).  Each
state is realised as an in-memory xarray.Dataset in the native layout (any leading sizes, lon/lat with or without a time
dimension, optional wind / depth variables present or absent) and passed through read_dataset and from_<model>; every bin,
label, the variance in native units and the wind conversion are compared with the exact expectation.  NDBC (1-D and 2-D)
and ERA5 missing values are replayed on top.
"""
import math

import numpy as np

from harness import ws
from harness.core import setup_repo_imports

FREQ = lambda F: np.array([f / 20.0 for f in F])  # noqa


def q(v):
    return (v[0] / v[1]) * math.pi ** v[2]


def native_dataset(v, rng, with_wind, lonlat_time, nt=2, ns=2):
    import xarray as xr
    conv, F, D, E = v["conv"], v["F"], v["D"], np.array(v["E"], float)
    nf, nd = len(F), len(D)
    scale = np.array([[1.0 + 0.5 * t + 0.25 * s for s in range(ns)] for t in range(nt)])
    data = scale[:, :, None, None] * E[None, None]
    time = np.datetime64("2021-03-01") + np.arange(nt) * np.timedelta64(3, "h")
    lon = np.array([170.0, -175.5][:ns])
    lat = np.array([-40.0, 12.25][:ns])
    u = np.array([[3.0, -4.0], [0.0, 5.0]])[:nt, :ns]
    w = np.array([[4.0, 3.0], [-2.0, 0.0]])[:nt, :ns]
    # winds of every strength: a light breeze (centimetres per second) or a storm has a direction like any other wind
    scale = rng.choice((1.0, 1.0, 0.03, 0.01, 9.0))
    u, w = u * scale, w * scale
    if conv == "ww3":
        ds = xr.Dataset({"efth": (("time", "station", "frequency", "direction"), data)},
                        coords={"time": time, "station": np.arange(ns), "frequency": FREQ(F), "direction": np.array(D, float)})
        ll = ("time", "station") if lonlat_time else ("station",)
        ds["longitude"] = (ll, np.broadcast_to(lon, (nt, ns)).copy() if lonlat_time else lon)
        ds["latitude"] = (ll, np.broadcast_to(lat, (nt, ns)).copy() if lonlat_time else lat)
        if with_wind:
            ds["wnd"] = (("time", "station"), np.hypot(u, w))
            ds["wnddir"] = (("time", "station"), np.full((nt, ns), 123.0))
            ds["dpt"] = (("time", "station"), np.full((nt, ns), 55.0))
    elif conv == "ncswan":
        ds = xr.Dataset({"density": (("time", "points", "frequency", "direction"), data)},
                        coords={"time": time, "frequency": FREQ(F), "direction": np.array(D, float) * math.pi / 2880.0})
        ll = ("time", "points") if lonlat_time else ("points",)
        ds["longitude"] = (ll, np.broadcast_to(lon, (nt, ns)).copy() if lonlat_time else lon)
        ds["latitude"] = (ll, np.broadcast_to(lat, (nt, ns)).copy() if lonlat_time else lat)
        if with_wind:
            ds["xwnd"] = (("time", "points"), u)
            ds["ywnd"] = (("time", "points"), w)
            ds["depth"] = (("time", "points"), np.full((nt, ns), 33.0))
    elif conv == "wwm":
        ds = xr.Dataset({"AC": (("ocean_time", "nbstation", "nfreq", "ndir"), data),
                         "SPSIG": (("nfreq",), 2 * math.pi * FREQ(F)), "SPDIR": (("ndir",), np.array(D, float) * math.pi / 2880.0),
                         "lon": (("nbstation",), lon), "lat": (("nbstation",), lat), "DEP": (("ocean_time", "nbstation"), np.full((nt, ns), 20.0))},
                        coords={"ocean_time": time})
        if with_wind:
            ds["Uwind"] = (("ocean_time", "nbstation"), u)
            ds["Vwind"] = (("ocean_time", "nbstation"), w)
    else:
        raise ValueError(conv)
    return ds, data, (u, w)


def run(ctx):
    setup_repo_imports()
    import warnings
    warnings.filterwarnings("ignore")
    import xarray as xr
    import wavespectra  # noqa
    from wavespectra.input.dataset import read_dataset
    from wavespectra.input.era5 import DEFAULT_DIRS, DEFAULT_FREQS, from_era5
    from wavespectra.input.ncswan import from_ncswan
    from wavespectra.input.ndbc import from_ndbc
    from wavespectra.input.ww3 import from_ww3
    from wavespectra.input.wwm import from_wwm
    direct = {"ww3": from_ww3, "ncswan": from_ncswan, "wwm": from_wwm}
    cfg = ws.write_cfg("convert.cfg", "SPECIFICATION Spec\nCONSTANTS Vals = {0,1,3}\n EMIT = TRUE\nINVARIANT VariancePreserved\n"
                       "INVARIANT BinKeepsPhysicalDir\nINVARIANT DispatchTotalAndRight\nINVARIANT EmitInv\n")
    r = ctx.tlc("MC_Convert", cfg, workers=2, label="conventions x grids x sparse spectra")
    for inv in r.violated:
        if inv != "EmitInv":
            ctx.violation({"where": "spec", "invariant": inv}, "Convert.tla: %s violated" % inv, r.cex[:3000])
    vectors = [v for v in r.vectors if v["conv"] != "era5"]
    ctx.exhaustive = True
    ctx.note("lattice_vectors", len(r.vectors))
    ctx.rule = ("TLC: 4 conventions x 3 frequency grids x 4 direction axes x spectra with <= 2 non-zero bins over {1,3}; a seeded sample "
                "(thorough: all) realised as native in-memory datasets through read_dataset and from_<model>; ERA5 (default 30x24 grid, "
                "missing values) and NDBC (1-D / 2-D) realised separately. distinct_nontrivial = distinct (convention, grid, spectrum, layout).")
    ctx.rng.shuffle(vectors)
    if ctx.quick:
        # the narrowed datasets (one or two direction bins left by a selection) are a quarter of the sample
        nar = [v for v in vectors if len(v["keep"]) < len(v["D"])]
        vectors = [v for v in vectors if len(v["keep"]) == len(v["D"])][:340] + nar[:110]
    for v in vectors:
        conv = v["conv"]
        with_wind = ctx.rng.random() < 0.5
        llt = ctx.rng.random() < 0.5 and conv != "wwm"
        ds, data, (u, w) = native_dataset(v, ctx.rng, with_wind, llt)
        keep = sorted(k - 1 for k in v["keep"])
        narrowed = len(keep) < len(v["D"])
        ctx.case((conv, tuple(v["F"]), tuple(v["D"]), str(v["E"]), with_wind, llt, tuple(keep)), True)
        exp_factor = np.array([q(f) for f in v["factor"]])
        exp = data * exp_factor[None, None, :, None]
        exp_dir = np.array(v["cdir"], float) / v["dirunit"]
        if narrowed:
            # a selection left only these direction bins in the native dataset (a public xarray operation before the conversion): each
            # remaining bin keeps its physical direction and its density
            ddim = {"ww3": "direction", "ncswan": "direction", "wwm": "ndir"}[conv]
            ds = ds.isel({ddim: keep})
            data, exp, exp_dir = data[..., keep], exp[..., keep], exp_dir[keep]
        for how, fn in (("read_dataset", read_dataset), ("from_" + conv, direct[conv])):
            key = {"conv": conv, "via": how}
            try:
                obj = ds.copy(deep=True)
                out = fn(obj)
                first = out.efth.values.copy() if "efth" in out else None
                out_again = fn(obj)         # the same native object converted a second time (a session converts, inspects, converts again)
            except Exception as ex:  # noqa
                ctx.violation(dict(key, raised=type(ex).__name__), "%s raised %s on a %s dataset" % (how, type(ex).__name__, conv), {"err": str(ex)[:250]})
                continue
            probs = []
            if first is not None and ("efth" not in out_again or not np.array_equal(out_again.efth.values, first, equal_nan=True)
                                      or not np.array_equal(out.efth.values, first, equal_nan=True)):
                probs.append(("second-conversion", "converting the same native dataset a second time gives other spectra than the first time "
                              "(or changes the first result)"))
            if "efth" not in out or set(out.efth.dims) != {"time", "site", "freq", "dir"}:
                probs.append(("layout", "result has variables %s / efth dims %s" % (list(out.data_vars), getattr(out.get("efth"), "dims", None))))
            else:
                e = out.efth.transpose("time", "site", "freq", "dir")
                if not np.allclose(e.values, exp, rtol=1e-12, atol=0):
                    probs.append(("unit-factor", "energy density is not native x %s" % exp_factor))
                if not np.allclose(out.dir.values, exp_dir, rtol=0, atol=1e-9):
                    probs.append(("direction", "direction labels %s, expected %s (native %s)" % (out.dir.values, exp_dir, v["D"])))
                elif conv != "wwm" and not ((out.dir.values >= 0).all() and (out.dir.values < 360).all()):
                    probs.append(("direction-range", "labels outside [0,360): %s" % out.dir.values))
                if not np.allclose(out.freq.values, FREQ(v["F"]), rtol=1e-12):
                    probs.append(("frequency", "frequencies %s" % out.freq.values))
                # variance in native units vs variance integrated with the converted coordinates (by label: sort the directions)
                f = FREQ(v["F"])
                df = np.gradient(f) if len(f) > 1 else np.array([1.0])
                if conv == "ww3":
                    native = (data * df[None, None, :, None] * math.radians(abs(v["dd"]))).sum((2, 3))
                elif conv == "ncswan":
                    native = (data * df[None, None, :, None] * abs(v["dd"]) * math.pi / 2880).sum((2, 3))
                else:
                    sig = 2 * math.pi * f
                    native = (data * sig[None, None, :, None] * (2 * math.pi * df)[None, None, :, None] * abs(v["dd"]) * math.pi / 2880).sum((2, 3))
                conv_var = (np.asarray(e.sortby("dir").spec.hs(tail=False).values, float) / 4.0) ** 2 if not narrowed else native
                if not np.allclose(conv_var, native, rtol=1e-9, atol=1e-300):
                    probs.append(("variance", "variance with converted coordinates %s, native integral %s" % (conv_var.ravel()[:3], native.ravel()[:3])))
                for name in ("lon", "lat"):
                    if name not in out or "time" in out[name].dims:
                        probs.append(("lonlat", "%s missing or still a function of time" % name))
                if with_wind and conv in ("ncswan", "wwm"):
                    if "wspd" not in out or not np.allclose(out.wspd.values, np.hypot(u, w)):
                        probs.append(("wind-speed", "wind speed from components wrong"))
                    else:
                        expd = (270.0 - np.degrees(np.arctan2(w, u))) % 360.0
                        if not np.allclose((out.wdir.values - expd + 180) % 360 - 180, 0, atol=1e-9):
                            probs.append(("wind-direction", "wind direction %s, expected coming-from %s" % (out.wdir.values.ravel(), expd.ravel())))
                if with_wind and conv == "ww3" and ("wspd" not in out or "wdir" not in out):
                    probs.append(("wind-vars", "wnd / wnddir not carried over"))
            if probs:
                for clause, msg in probs:
                    ctx.violation(dict(key, clause=clause), "%s (%s): %s" % (how, conv, msg), {"F": v["F"], "D": v["D"], "E": v["E"], "lonlat_time": llt})
            else:
                ctx.replayed()
        # one station picked out of the native dataset (the station dimension becomes a scalar coordinate): the convention is still
        # identified from the variables, and the spectra of that station come back converted as in the full dataset
        if conv == "ww3" and not narrowed:
            sdim = [d for d in ds.efth.dims if d not in ("time", "frequency", "direction")][0]
            for k in (0, ds.sizes[sdim] - 1):
                ctx.case((conv, "one-station", k, tuple(v["F"]), tuple(v["D"]), str(v["E"])), True)
                try:
                    o1 = read_dataset(ds.isel({sdim: k}).copy(deep=True))
                    e1 = o1.efth.squeeze().transpose("time", "freq", "dir")
                    ok = np.allclose(e1.values, exp[:, k], rtol=1e-12, atol=0) and np.allclose(o1.dir.values, exp_dir, rtol=0, atol=1e-9)
                    what = "spectra of station %d differ from the converted full dataset" % k
                except Exception as ex:  # noqa
                    ok, what = False, "raised %s: %s" % (type(ex).__name__, str(ex)[:160])
                if ok:
                    ctx.replayed()
                else:
                    ctx.violation({"conv": conv, "via": "read_dataset", "clause": "one-station"}, "read_dataset on one station of a %s dataset: %s" % (conv, what),
                                  {"F": v["F"], "D": v["D"]})
    # ---- ERA5: log10 densities with missing values on the default 30 x 24 grid and on explicit grids
    for rep in range(6 if ctx.quick else 60):
        nf, nd, explicit = (30, 24, False) if rep % 4 in (0, 2, 3) else (3, 4, True)
        m = np.array([[ctx.rng.choice((-3.0, -1.0, 0.0, 1.0, np.nan)) for _ in range(nd)] for _ in range(nf)])
        raw = xr.Dataset({"d2fd": (("time", "frequency", "direction"), np.stack([m, m - 1.0]))},
                         coords={"time": np.datetime64("2021-01-01") + np.arange(2) * np.timedelta64(1, "h"),
                                 "frequency": np.arange(1, nf + 1), "direction": np.arange(1, nd + 1)})
        kw = {"freqs": [0.05, 0.1, 0.2], "dirs": [187.5, 277.5, 7.5, 97.5]} if explicit else {}
        if rep % 4 == 2:        # only the directions are the caller's (default frequencies), and the other way round
            kw = {"dirs": [float(x) for x in np.arange(0.0, 360.0, 15.0)]}
        elif rep % 4 == 3:
            kw = {"freqs": [float(x) for x in np.round(0.04 * 1.08 ** np.arange(30), 6)]}
        ctx.case(("era5", rep), True)
        exp = np.nan_to_num(10.0 ** np.stack([m, m - 1.0]) * math.pi / 180.0, nan=0.0)
        try:
            out = read_dataset(raw.copy(deep=True), **kw)
            ok = "efth" in out and np.allclose(out.efth.transpose("time", "freq", "dir").values, exp, rtol=1e-12) and \
                np.allclose(out.freq.values, kw.get("freqs", DEFAULT_FREQS)) and np.allclose(out.dir.values, kw.get("dirs", DEFAULT_DIRS))
            if ok and not kw:
                # default grid: native going-to 7.5, 22.5, ... -> coming-from labels
                ok = np.allclose(out.dir.values, (np.arange(7.5, 360, 15) + 180) % 360)
            if ok:
                ctx.replayed()
            else:
                ctx.violation({"conv": "era5", "via": "read_dataset", "clause": "layout/values"},
                              "read_dataset on an ERA5-layout dataset: variables %s (efth expected), values/coordinates wrong" % list(out.data_vars),
                              {"explicit_grids": explicit})
        except Exception as ex:  # noqa
            ctx.violation({"conv": "era5", "via": "read_dataset", "raised": type(ex).__name__},
                          "read_dataset raised %s on an ERA5-layout dataset" % type(ex).__name__, {"err": str(ex)[:250], "explicit_grids": explicit})
    # ---- NDBC: 1-D unchanged; 2-D integrates back to the frequency spectrum on a full circle with >= 3 directions
    for rep in range(6 if ctx.quick else 60):
        nf = ctx.rng.choice((3, 5))
        ef = np.array([[ctx.rng.choice((0.0, 1.0, 2.5, 7.0)) for _ in range(nf)] for _ in range(2)])
        f = np.linspace(0.05, 0.4, nf)
        with_moments = rep % 3 != 2
        ds = xr.Dataset({"spectral_wave_density": (("time", "frequency"), ef)},
                        coords={"time": np.datetime64("2021-01-01") + np.arange(2) * np.timedelta64(1, "h"), "frequency": f})
        if with_moments:
            for name, val in (("mean_wave_dir", 40.0), ("principal_wave_dir", 200.0), ("wave_spectrum_r1", 0.6), ("wave_spectrum_r2", 0.2)):
                ds[name] = (("time", "frequency"), np.full((2, nf), val) + np.arange(nf)[None, :])
        ds["latitude"] = ((), 10.0)
        ds["longitude"] = ((), 20.0)
        for dd in (10.0, 90.0, 120.0):
            ctx.case(("ndbc", rep, dd, with_moments), True)
            try:
                out2 = read_dataset(ds.copy(deep=True), directional=True, dd=dd)
                out1 = from_ndbc(ds.copy(deep=True), directional=False)
            except Exception as ex:  # noqa
                ctx.violation({"conv": "ndbc", "raised": type(ex).__name__}, "NDBC conversion raised %s" % type(ex).__name__, {"err": str(ex)[:250]})
                continue
            ok1 = np.allclose(out1.efth.transpose("time", "freq").values, ef) and "dir" not in out1.efth.dims
            if with_moments:
                ok2 = "dir" in out2.efth.dims and np.allclose((out2.efth * dd).sum("dir").transpose("time", "freq").values, ef, rtol=1e-9, atol=1e-12) \
                    and np.allclose(out2.dir.values, np.arange(0, 360, dd))
            else:
                ok2 = "dir" not in out2.efth.dims and np.allclose(out2.efth.transpose("time", "freq").values, ef)
            if ok1 and ok2:
                ctx.replayed()
            else:
                ctx.violation({"conv": "ndbc", "clause": "1d" if not ok1 else "2d-integrates-to-1d", "dd": dd, "moments": with_moments},
                              "NDBC: %s" % ("1-D form is not the file's spectrum" if not ok1 else "direction-integrated 2-D differs from the frequency spectrum"),
                              {"ef": ef.tolist()})
    if vectors:
        ctx.sample({"kind": "native-convention vector", **{k: vectors[0][k] for k in ("conv", "F", "D", "dd", "E", "factor", "cdir")}})
    ctx.assume("native datasets are built in memory (netCDF files of these conventions cannot be opened offline: only the scipy engine exists)")
