"""C13 - instrument / model file readers return what the file says; 2-D reconstructions integrate back to the 1-D spectrum.

formats/Instruments.tla specifies (1) the unit factor and direction mapping of every format as a quantity algebra,
(2) the reconstruction identity (the spreading built from the file's moments integrates to one over the reader's uniform
full-circle grid, exact on 60/90 degree lattices) and (3) the record-order contract: whatever order the records (or the
files of a list) are in, Read returns each once, sorted by time.  TLC checks those on the model and enumerates the CASES
format x header variant x number of records x every permutation of the records x grid sizes x 1-D request.
Binding: every case is realised by the independent reference encoders of harness/instruments.py (written from the format,
not from the readers; every printed token parses back to the same double), the records are put in the permutation the
specification chose, the real reader reads the files, and timestamps, frequencies, directions, positions and densities
are compared with what was handed to the encoder; for reconstructing readers sum(efth * dd) and the 1-D request are
compared with the file's frequency spectrum.  The specification's unit factor is checked against the encoder's expected
values (so the factor table of the model is the one the comparison uses).  The vendor samples are decoded independently too.
"""
import os
import random
import shutil
import tempfile

import numpy as np

from harness import ws
from harness.core import MachineryError, run_tlc, setup_repo_imports, VERIF

INVS = ["ReadSortsByTime", "ReconstructionIntegrates", "TwoDirectionsDoNotIntegrate", "FactorsWellFormed", "DirMapsAreBijections", "DirMapMeaning"]
NOPERM = {"freq", "dir", "locs", "files", "opts", "label", "fmt"}
RHO_G = 1025 * 9.81


def cfg(maxrec):
    return ws.write_cfg("instr_%d.cfg" % maxrec, "SPECIFICATION Spec\nCONSTANTS MAXREC = %d\n" % maxrec +
                        "".join("INVARIANT %s\n" % i for i in INVS) + "INVARIANT EmitInv\n")


def opts_of(v, rng):
    """specification case -> (encoder format, encoder options, extra key fields)."""
    fmt, var = v["fmt"], v["variant"]
    o = dict(ntimes=v["nrec"], nfreq=v["nf"], shuffle=False)
    extra = {}
    if fmt == "triaxys":
        o.update(directional=(var == "directional"), ddir=360 // v["nd"])
    elif fmt == "ndbc_ascii":
        o.update(style="realtime" if var.startswith("realtime") else "history")
        o["directional"] = (var == "realtime_2d") if o["style"] == "realtime" else (not v["oned"])
        if o["style"] == "history":
            o["minutes"] = var != "history_nominutes"
        extra["directional"] = o["directional"]
    elif fmt == "spotter":
        fmt = "spotter_" + var
        o["nfiles"] = 1 if v["nrec"] == 1 else rng.choice((1, 2))
        if var == "json":
            off = rng.choice((0, 0, -3600, 1800))
            if off:
                o["spec_time_offset"] = off
            extra["spec_time_offset"] = bool(off)
        extra["nfiles"] = o["nfiles"]
    elif fmt == "swan":
        o["ndir"] = v["nd"]
        o["time"] = var != "notime"
        if var == "LOCATIONS":
            o["loc_kw"] = "LOCATIONS"
        elif var == "RFREQ":
            o["freq_kw"] = "RFREQ"
        elif var == "CDIR":
            o["dir_kw"] = "CDIR"
        elif var == "EnDens":
            o["quant"] = "EnDens"
        elif var == "VaDens":
            o["quant"] = "VaDens"
        elif var == "blocks":
            o["blocks"] = "mixed"
        if not o["time"]:
            o["ntimes"] = 1
    elif fmt == "ww3_station":
        o["ndir"] = v["nd"]
        o["nloc"] = v["nloc"]
        extra["nloc"] = v["nloc"]
    elif fmt == "xwaves":
        o["ndir"] = v["nd"]
        o["td_dtype"] = var
    else:
        o["ndir"] = v["nd"]
    return fmt, o, extra


def permute(case, order):
    """put the records of an ascending case into the file order chosen by the specification (order[k] = rank of the k-th record)."""
    n = len(case["times"])
    if n != len(order):
        return case
    asc = np.argsort(np.array(case["times"]).astype("datetime64[s]").astype("int64"), kind="stable")
    idx = [int(asc[r - 1]) for r in order]
    out = dict(case)
    for k, val in case.items():
        if k in NOPERM:
            continue
        if isinstance(val, np.ndarray) and val.ndim >= 1 and val.shape[0] == n:
            out[k] = val[idx]
        elif isinstance(val, list) and len(val) == n:
            out[k] = [val[i] for i in idx]
    return out


def classify(msg):
    if msg.startswith("reader raised") or msg.startswith("1-D read raised"):
        return "raised:" + msg.split("raised ")[1].split(":")[0]
    if msg.startswith("efth") or msg.startswith("loc "):
        return "integral" if "sum(efth" in msg else "efth"
    for key, tag in (("times not sorted", "order"), ("time", "time"), ("frequencies", "freq"), ("freq ", "freq"), ("sum(efth*dd)", "integral"),
                     ("1-D", "oned"), ("efth", "efth"), ("directions", "dir"), ("dir", "dir"), ("lon", "position"), ("lat", "position"),
                     ("attrs", "position")):
        if key in msg:
            return tag
    return "other"


def factor_value(f):
    num, den, pik, rgk = f
    return num / den * np.pi ** pik * RHO_G ** rgk


def run(ctx):
    setup_repo_imports()
    import warnings
    warnings.filterwarnings("ignore")
    from harness import instruments as I
    maxrec = 3 if ctx.quick else 4
    r = run_tlc("Instruments", cfg(maxrec), workers=8, timeout=3000, cwd=os.path.join(VERIF, "spec", "formats"))
    ctx.states += r.states
    ctx.transitions += r.transitions
    ctx.tlc_runs.append({"module": "formats/Instruments", "label": "cases, <= %d records" % maxrec, "states": r.states, "transitions": r.transitions,
                         "wall_s": round(r.wall, 2), "violated": r.violated})
    for inv in r.violated:
        if inv != "EmitInv":
            ctx.violation({"where": "spec", "invariant": inv}, "Instruments.tla: %s violated" % inv, r.cex[:3000])
    if not r.ok and not r.violated:
        raise MachineryError("TLC failed on Instruments: %s" % r.errors[:5])
    vectors = r.vectors
    ctx.exhaustive = True
    ctx.note("cases_from_tlc", len(vectors))
    rng = ctx.rng
    if ctx.quick and len(vectors) > 1400:
        rng.shuffle(vectors)
        # keep every (format, variant, order) at least once
        seen, keep, rest = set(), [], []
        for v in vectors:
            k = (v["fmt"], v["variant"], tuple(v["order"]), v.get("nloc", 1))
            (keep if k not in seen else rest).append(v)
            seen.add(k)
        vectors = keep + rest[:max(0, 1400 - len(keep))]
    ctx.rule = ("TLC enumerates format x header variant x 1..%d records x every record permutation x grid sizes x 1-D request; each case "
                "(quick: every (format, variant, permutation) and a seeded sample of the rest) is written by the reference encoder with seeded random "
                "contents and read by the real reader. distinct_nontrivial = distinct (case, contents seed) with more than one record or a "
                "non-default header variant." % maxrec)
    tmp = tempfile.mkdtemp(prefix="c13_", dir=os.path.join(VERIF, ".build"))
    reps = 1 if ctx.quick else 3
    try:
        n = 0
        for v in vectors:
            for rep in range(reps):
                n += 1
                fmt, o, extra = opts_of(v, rng)
                seed = "%s-%d-%d" % (fmt, ctx.seed, n)
                crng = random.Random(seed)
                try:
                    case = I.random_case(fmt, crng, **o)
                    if fmt == "swan":
                        # reader options that must not change what is returned (directions are compared by label, locations by position)
                        case["read_kw"] = crng.choice(({}, {}, {"as_site": True}))      # (dirorder=False leaves the file's own labels, e.g. -45 for 315: not compared)
                    exp0 = I.expected(case)
                    case = permute(case, v["order"]) if len(case["times"]) == v["nrec"] else case
                    exp1 = I.expected(case)
                except Exception as ex:  # noqa
                    raise MachineryError("reference encoder failed for %s %s: %s: %s" % (fmt, o, type(ex).__name__, ex))
                for k in ("efth", "ef"):
                    if k in exp0 and not np.array_equal(np.asarray(exp0[k]), np.asarray(exp1[k]), equal_nan=True):
                        raise MachineryError("permuting the records of a %s case changed its sorted expectation (%s)" % (fmt, k))
                # the factor of the specification is the one the expectation uses
                fv = factor_value(v["factor"])
                if fmt in ("obscape", "xwaves", "ww3_station") or (fmt == "triaxys" and o["directional"]):
                    a, b = float(np.nansum(exp1["efth"])), float(np.nansum(case["E"])) * fv
                    if fmt == "triaxys":
                        b = float(np.nansum(np.asarray(case["E"])[..., :exp1["efth"].shape[-1]])) * fv if exp1["efth"].shape != np.asarray(case["E"]).shape else b
                    if not np.isclose(a, b, rtol=1e-9, atol=1e-300):
                        raise MachineryError("specification factor %s of %s disagrees with the reference encoder (%g vs %g)" % (v["factor"], fmt, a, b))
                shuffled = list(v["order"]) != sorted(v["order"])
                ctx.case((fmt, v["variant"], tuple(v["order"]), v["nf"], v["nd"], v["oned"], seed), v["nrec"] > 1 or v["variant"] != "default")
                d = os.path.join(tmp, "c%d" % n)
                os.makedirs(d)
                fails, notes = I.run_case(case, d)
                shutil.rmtree(d, ignore_errors=True)
                if not fails:
                    ctx.replayed()
                    continue
                clause = classify(fails[0])
                key = {"format": fmt, "variant": v["variant"], "clause": clause, "shuffled": shuffled}
                key.update(extra)
                ctx.violation(key, "read_%s [%s; %s]: %s" % (fmt, v["variant"], case.get("label", ""), fails[0][:300]),
                              {"fmt": fmt, "opts": {k: (x if not isinstance(x, (np.generic,)) else x.item()) for k, x in o.items()}, "order": v["order"],
                               "seed": seed, "all": [f[:200] for f in fails[:4]]})
        if vectors:
            ctx.sample({"kind": "case", **{k: vectors[0][k] for k in ("fmt", "variant", "nrec", "order", "nf", "nd", "oned", "factor")}})
        # unconstrained random cases of every format (options left to the encoder's generator)
        nfree = 40 if ctx.quick else 400
        for fmt in I.FORMATS:
            if fmt == "octopus":
                continue
            for i in range(nfree):
                seed = "free-%s-%d-%d" % (fmt, ctx.seed, i)
                crng = random.Random(seed)
                o = {}
                if fmt == "ww3_station":
                    o["shuffle"] = crng.random() < 0.5
                if fmt in ("swan", "xwaves"):
                    o["shuffle"] = crng.random() < 0.3
                if fmt == "xwaves":
                    o["td_dtype"] = crng.choice(("int32", "double"))
                try:
                    case = I.random_case(fmt, crng, **o)
                except Exception as ex:  # noqa
                    raise MachineryError("reference generator failed for %s: %s" % (fmt, ex))
                ctx.case(("free", fmt, seed), True)
                d = os.path.join(tmp, "f%s%d" % (fmt, i))
                os.makedirs(d)
                fails, notes = I.run_case(case, d)
                shutil.rmtree(d, ignore_errors=True)
                if not fails:
                    ctx.replayed()
                    continue
                t = np.array(case["times"]).astype("datetime64[s]").astype("int64")
                key = {"format": fmt, "variant": "free", "clause": classify(fails[0]), "shuffled": bool(np.any(np.diff(t) < 0))}
                if fmt == "ww3_station":
                    key["nloc"] = len(case["locs"])
                if fmt == "spotter_json":
                    key["spec_time_offset"] = bool(case.get("spec_time_offset") or case["opts"].get("spec_time_offset"))
                if fmt == "ndbc_ascii":
                    key["directional"] = case["dir"] is not None or bool(case.get("directional"))
                ctx.violation(key, "read_%s [%s]: %s" % (fmt, case.get("label", ""), fails[0][:300]), {"fmt": fmt, "seed": seed, "all": [f[:200] for f in fails[:4]]})
        # ---- the multi-file SWAN readers on the same encoded files: read_swans (one cycle) must return what read_swan returns;
        # read_swanow concatenates cycles in time and keeps the overlapping dates of the most recent file
        from wavespectra.input.swan import read_swans, read_swanow
        import copy
        for i in range(8 if ctx.quick else 80):
            seed = "multi-%d-%d" % (ctx.seed, i)
            crng = random.Random(seed)
            case = I.random_case("swan", crng, ntimes=3, nloc=crng.choice((1, 2, 3)), time=True, shuffle=(i % 2 == 0), blocks=crng.choice(("FACTOR", "mixed")))
            d = os.path.join(tmp, "m%d" % i)
            os.makedirs(d)
            path = I.encode(case, d)
            exp = I.expected(case)
            ctx.case(("read_swans", seed), True)
            try:
                fails, _ = I.compare(read_swans([path], int_freq=False, int_dir=False).load(), exp)
            except Exception as ex:  # noqa
                fails = ["reader raised %s: %s" % (type(ex).__name__, str(ex)[:150])]
            if fails:
                ctx.violation({"format": "swan", "variant": "read_swans", "clause": classify(fails[0]), "shuffled": i % 2 == 0},
                              "read_swans [%s]: %s" % (case.get("label", ""), fails[0][:300]), {"seed": seed})
            else:
                ctx.replayed()
            # two cycles sharing their last / first date with different spectra (data blocks only: whether a MISSING spectrum of the
            # newer cycle should hide the older one's is not something the property says)
            if any(isinstance(f, str) for row in case["fac"] for f in row):
                case = I.random_case("swan", crng, ntimes=3, nloc=crng.choice((1, 2)), time=True, shuffle=False, blocks="FACTOR")
            a = copy.deepcopy(case)
            order = np.argsort(np.array(a["times"]).astype("datetime64[s]").astype("int64"))
            ts = [a["times"][k] for k in order]
            b = copy.deepcopy(case)
            b["times"] = [ts[-1], ts[-1] + np.timedelta64(3600, "s"), ts[-1] + np.timedelta64(7200, "s")]
            b["E"] = np.asarray(b["E"])[::-1].copy()          # other spectra at the shared date
            b["fac"] = list(b["fac"])[::-1]
            d2 = os.path.join(tmp, "n%d" % i)
            os.makedirs(os.path.join(d2, "a"))
            os.makedirs(os.path.join(d2, "b"))
            pa, pb = I.encode(a, os.path.join(d2, "a")), I.encode(b, os.path.join(d2, "b"))
            os.rename(pa, os.path.join(d2, "20200101_00z.spec"))
            os.rename(pb, os.path.join(d2, "20200101_06z.spec"))
            ea, eb = I.expected(a), I.expected(b)
            ctx.case(("read_swanow", seed), True)
            try:
                got = read_swanow(os.path.join(d2, "*.spec")).load()
                t = got.time.values.astype("datetime64[s]")
                want_t = np.unique(np.concatenate([ea["time"], eb["time"]]))
                probs = []
                if not np.array_equal(t, want_t):
                    probs.append("times %s, expected the sorted union %s" % (t, want_t))
                else:
                    for e_ in (ea, eb):            # the newer file is checked last: its spectra must be the ones at the shared date
                        sub = got.sel(time=e_["time"])
                        f2, _ = I.compare(sub, e_)
                        if e_ is eb and f2:
                            probs.append("spectra of the most recent file not returned on its dates: %s" % f2[0][:200])
                        elif e_ is ea:
                            keep = ~np.isin(e_["time"], eb["time"])
                            f3, _ = I.compare(got.sel(time=e_["time"][keep]), dict(e_, time=e_["time"][keep], efth=np.asarray(e_["efth"])[keep]))
                            if f3:
                                probs.append("spectra of the older file not returned on its own dates: %s" % f3[0][:200])
            except Exception as ex:  # noqa
                probs = ["reader raised %s: %s" % (type(ex).__name__, str(ex)[:150])]
            if probs:
                ctx.violation({"format": "swan", "variant": "read_swanow", "clause": "overlap" if "most recent" in probs[0] else classify(probs[0])},
                              "read_swanow on two overlapping cycles: %s" % probs[0][:300], {"seed": seed})
            else:
                ctx.replayed()
        # ---- several TRIAXYS files of which the later ones resolve fewer frequencies than the first (same initial frequency and
        # spacing): the reader puts them on the first file's grid; every density a file gives at a frequency of that grid - its own
        # highest one included - comes back unchanged, and there is no energy above a file's highest frequency
        for i in range(6 if ctx.quick else 60):
            seed = "triaxys-nf-%d-%d" % (ctx.seed, i)
            crng = random.Random(seed)
            case = I.random_case("triaxys", crng, ntimes=3, nfreq=crng.choice((4, 5, 6)), shuffle=False, toff=0)
            case["names"] = "time"
            nf0 = len(case["freq"])
            cut = [nf0, crng.randint(2, nf0 - 1), crng.randint(2, nf0)]
            case["nf_per_time"] = cut
            d5 = os.path.join(tmp, "tnf%d" % i)
            os.makedirs(d5)
            ctx.case(("triaxys-fewer-frequencies", seed), True)
            try:
                arg = I.encode(case, d5)
                ds = I.read(arg, case).load().sortby("time")
                e = np.asarray(case["E"], float)
                exp = I.expected(case)
                want = np.asarray(exp["efth"] if "efth" in exp else exp["ef"], float).copy()
                order = np.argsort(np.array(case["times"]).astype("datetime64[s]").astype("int64"), kind="stable")
                for pos, it in enumerate(order):
                    want[pos, cut[it]:] = 0.0
                got = np.asarray(ds.efth.transpose("time", "freq", ...).values, float)
                probs = []
                if got.shape != want.shape:
                    probs.append("shape %s, expected %s" % (got.shape, want.shape))
                elif not np.allclose(got, want, rtol=1e-6, atol=1e-12):
                    k = np.unravel_index(np.argmax(np.abs(got - want)), got.shape)
                    probs.append("efth at (time %d, freq index %d) is %.6g, the file says %.6g (files resolve %s frequencies)" % (k[0], k[1], got[k], want[k], cut))
            except Exception as ex:  # noqa
                probs = ["reader raised %s: %s" % (type(ex).__name__, str(ex)[:150])]
            shutil.rmtree(d5, ignore_errors=True)
            if probs:
                ctx.violation({"format": "triaxys", "variant": "fewer-frequencies-in-later-files", "clause": "efth"},
                              "read_triaxys on files with different frequency counts: %s" % probs[0][:300], {"seed": seed, "cut": cut})
            else:
                ctx.replayed()
        # ---- ... and TRIAXYS files with the SAME number of frequencies and the same spacing whose later files start k spacings higher:
        # on the first file's grid a later record holds its own densities at the frequencies both grids share and nothing elsewhere
        for i in range(6 if ctx.quick else 60):
            seed = "triaxys-f0-%d-%d" % (ctx.seed, i)
            crng = random.Random(seed)
            case = I.random_case("triaxys", crng, ntimes=3, nfreq=crng.choice((4, 5, 6)), shuffle=False, toff=0)
            case["names"] = "time"
            nf0 = len(case["freq"])
            shift = [0, crng.randint(1, nf0 - 2), crng.randint(0, 2)]
            case["shift_per_time"] = shift
            d6 = os.path.join(tmp, "tf0%d" % i)
            os.makedirs(d6)
            ctx.case(("triaxys-later-initial-frequency", seed), True)
            try:
                arg = I.encode(case, d6)
                ds = I.read(arg, case).load().sortby("time")
                exp = I.expected(case)
                base = np.asarray(exp["efth"] if "efth" in exp else exp["ef"], float)
                want = np.zeros_like(base)
                order = np.argsort(np.array(case["times"]).astype("datetime64[s]").astype("int64"), kind="stable")
                for pos, it in enumerate(order):
                    k = shift[it]
                    want[pos, k:] = base[pos, :nf0 - k] if k else base[pos]
                got = np.asarray(ds.efth.transpose("time", "freq", ...).values, float)
                probs = []
                if got.shape != want.shape or not np.allclose(np.asarray(ds.freq.values, float), np.asarray(case["freq"], float), rtol=1e-9):
                    probs.append("shape %s / frequencies %s, expected the first file's grid %s" % (got.shape, ds.freq.values, case["freq"]))
                else:
                    # the lowest shared node is a floating-point boundary (f0 + k*df of the first grid against the later file's own
                    # printed f0: equal in decimals, possibly one ulp apart in doubles): there the record may hold its value or nothing
                    for pos, it in enumerate(order):
                        if shift[it] and np.allclose(got[pos, shift[it]], 0.0):
                            want[pos, shift[it]] = 0.0
                if not probs and not np.allclose(got, want, rtol=1e-6, atol=1e-12):
                    k = np.unravel_index(np.argmax(np.abs(got - want)), got.shape)
                    probs.append("efth at (time %d, freq index %d) is %.6g, the file says %.6g (files start %s spacings above the first)" % (k[0], k[1], got[k], want[k], shift))
            except Exception as ex:  # noqa
                probs = ["reader raised %s: %s" % (type(ex).__name__, str(ex)[:150])]
            shutil.rmtree(d6, ignore_errors=True)
            if probs:
                ctx.violation({"format": "triaxys", "variant": "later-initial-frequency-in-later-files", "clause": "efth"},
                              "read_triaxys on files with the same frequency count but different initial frequencies: %s" % probs[0][:300], {"seed": seed, "shift": shift})
            else:
                ctx.replayed()
        # ---- the SWAN ASCII file as a writer/reader protocol (SwanFile.tla): model-checked, replayed into the real writer and
        # reader, and every recorded read validated by SwanFileTrace.tla
        from harness import swanfile_ext
        d3 = os.path.join(tmp, "swanfile")
        os.makedirs(d3)
        swanfile_ext.stage(ctx, d3)
        # ---- read_swans as a loop over files and cycles (Swans.tla): every scenario of file-name order x cycles x site-files
        from harness import swans_ext
        d4 = os.path.join(tmp, "swans")
        os.makedirs(d4)
        swans_ext.stage(ctx, d4)
    finally:
        shutil.rmtree(tmp, ignore_errors=True)
    # vendor samples decoded independently
    import io
    import contextlib
    buf = io.StringIO()
    I.SAMPLES = os.path.join(os.environ.get("VERIF_REPO", "/repo"), "tests", "sample_files")
    with contextlib.redirect_stdout(buf):
        try:
            I.check_samples()
        except Exception as ex:  # noqa
            raise MachineryError("sample decoding failed: %s" % ex)
    for line in buf.getvalue().splitlines():
        if not line.startswith("SAMPLE"):
            continue
        name = line.split()[1]
        if "octopus" in name:
            continue
        ctx.case(("sample", name), True)
        if " DISAGREE" in line:
            ctx.violation({"format": "sample", "file": name, "clause": classify(line.split("DISAGREE", 1)[1].strip())},
                          "vendor sample %s: reader disagrees with an independent decoding: %s" % (name, line.split("DISAGREE", 1)[1].strip()[:300]))
        else:
            ctx.replayed()
    ctx.assume("files are those the reference encoders write (single-point unless the case says otherwise; numbers printed at the precision of the vendor samples)")
