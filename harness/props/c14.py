"""C14 - site selection finds the right stations on a sphere-aware longitude axis.

Select.tla defines nearest / inverse-distance / bounding-box selection on abstract positions of the sphere (half-degree
lattice, stations and queries either side of the 0 and 180 meridians), with the short-way longitude difference, exact
squared distances, tolerance as an inclusive radius, the up-to-max_sites nearest (ties free), the station itself at zero
distance, "missing" when fewer than two are in range, and the box taken in the query's own convention widened by the
tolerance.  MC_Select enumerates station layouts x query points x both conventions for dataset and query independently x
tolerances x max_sites and checks NearestIsMin, ShortWay, IdwWithinTolerance, ToleranceWidens, BBoxContainsEnclosed; every
state is replayed through Dataset.spec.sel (nearest, idw, bbox; list / ndarray queries; with and without precomputed
dset_lons/dset_lats): membership, reported longitudes in the query's convention, and the spectra (inverse-distance
combination of distinct per-station spectra, so a wrong neighbour shows in the values).
"""
import math

import numpy as np

from harness import ws
from harness.core import setup_repo_imports

FREQ = np.array([0.1, 0.2, 0.3])
DIRS = np.array([0.0, 120.0, 240.0])


def cfg(nst, nq, tols, maxs):
    j = lambda xs: "{" + ",".join(map(str, xs)) + "}"  # noqa
    txt = ("SPECIFICATION Spec\nCONSTANTS NST = %d\n NQ = %d\n TOLS = %s\n MAXS = %s\n EMIT = TRUE\n" % (nst, nq, j(tols), j(maxs)))
    txt += "INVARIANT NearestIsMin\nINVARIANT ShortWay\nINVARIANT IdwWithinTolerance\nINVARIANT ToleranceWidens\nINVARIANT BBoxContainsEnclosed\nINVARIANT EmitInv\n"
    return ws.write_cfg("sel_%d_%d_%s_%s.cfg" % (nst, nq, "".join(map(str, tols)), "".join(map(str, maxs))), txt)


def rep(lon_u, conv):
    return (lon_u if conv == 360 or lon_u < 360 else lon_u - 720) / 2.0


def station_spec(k):
    """distinct, linearly independent spectra per station: any wrong neighbour or weight shows up in the values."""
    base = np.zeros((3, 3))
    base[k % 3, (k // 3) % 3] = 10.0
    return base + (k + 1)


def rep_t(lon_u, conv, dten):
    """the same position turned by dten tenths of a degree, written as the decimal a user would type (n/10 is the double nearest
    to that decimal): longitudes that are not binary fractions, so a convention change is not exact in floating point."""
    t = lon_u * 5 + dten
    if conv == 180 and lon_u >= 360:
        t -= 3600
    return t / 10.0


def dataset(st, conv, R=rep):
    import xarray as xr
    n = len(st)
    efth = np.stack([station_spec(k) for k in range(n)])
    ds = xr.Dataset({"efth": (("site", "freq", "dir"), efth),
                     "lon": (("site",), np.array([R(s[0], conv) for s in st])),
                     "lat": (("site",), np.array([s[1] / 2.0 for s in st]))},
                    coords={"site": np.arange(n), "freq": FREQ, "dir": DIRS})
    return ds


def run(ctx):
    setup_repo_imports()
    import warnings
    warnings.filterwarnings("ignore")
    import wavespectra  # noqa
    plans = [(3, 1, (0, 1, 4, 800), (1, 2, 4)), (2, 2, (0, 4), (2,))] if ctx.quick else \
            [(3, 1, (0, 1, 4, 800), (1, 2, 4)), (3, 2, (0, 4, 800), (1, 2)), (4, 1, (1, 4), (2, 4)), (2, 2, (0, 1, 4), (1, 2))]
    vectors = []
    for p in plans:
        r = ctx.tlc("MC_Select", cfg(*p), workers=4, timeout=3000, label="stations=%d queries=%d" % (p[0], p[1]))
        for inv in r.violated:
            if inv != "EmitInv":
                ctx.violation({"where": "spec", "invariant": inv}, "MC_Select: %s violated" % inv, r.cex[:3000])
        vs = r.vectors
        cap = 700 if ctx.quick else 12000
        if len(vs) > cap:
            ctx.rng.shuffle(vs)
            vs = vs[:cap]
        vectors += vs
    ctx.exhaustive = True
    ctx.note("vectors_replayed", len(vectors))
    ctx.rule = ("TLC: 2-4 stations from 8 lattice positions (both sides of 0 and 180 deg) x 1-2 query points from 7 positions x both conventions "
                "for dataset and query x tolerances {0, 0.5, 2, 400 deg} x max_sites {1,2,4}; a seeded sample replayed through spec.sel with "
                "the three methods. distinct_nontrivial = distinct (layout, query, conventions, tolerance, max_sites).")
    for v in vectors:
        st, qs, cd, cq, tol, maxs = v["st"], v["qs"], v["convD"], v["convQ"], v["tol"], v["maxs"]
        # one vector in three is replayed on the globe turned by 0.1 or 0.2 degrees (decimal longitudes): distances are the same, but
        # converting between conventions is no longer exact in floating point. Cases where a station lies exactly AT the tolerance are
        # then undecidable and skipped; a station exactly at the query point (distance zero) is not: the property names it.
        dten = ctx.rng.choice((0, 0, 1, 2))
        if dten and any(d2 == tol * tol and d2 > 0 for info in v["idw"] for d2 in info["d2"]):
            dten = 0
        R = (lambda u, c: rep_t(u, c, dten)) if dten else rep
        # a station exactly on the 180 meridian can be written -180 or +180 in a [-180,180] dataset: both name the same place
        plus180 = (not dten) and ctx.rng.random() < 0.5
        ds = dataset(st, cd, (lambda u, c: 180.0 if (u == 360 and c == 180) else rep(u, c)) if plus180 else R)
        # stations that sit on whole degrees may be STORED as integers (hand-built station lists): the query keeps its fractions
        if (not dten) and all(float(x).is_integer() for x in ds.lon.values) and all(float(x).is_integer() for x in ds.lat.values) and ctx.rng.random() < 0.6:
            ds["lon"] = (("site",), ds.lon.values.astype("int64"))
            ds["lat"] = (("site",), ds.lat.values.astype("int64"))
        qlon = [R(q[0], cq) for q in qs]
        qlat = [q[1] / 2.0 for q in qs]
        # a query whose longitudes all lie in [0,180] reads the same in both conventions: the library then takes it as [0,360]
        told = tol / 2.0
        ctx.case(("sel", str(st), str(qs), cd, cq, tol, maxs), True)
        key0 = {"dset_conv": cd, "query_conv": cq, "tolerance": ">0" if tol > 0 else "0"}
        if dten:
            key0["decimal_longitudes"] = True
        variant = ctx.rng.choice(("list", "ndarray", "precomputed"))
        kw = {}
        ql, qa = (qlon, qlat) if variant == "list" else (np.array(qlon), np.array(qlat))
        if variant == "precomputed":
            kw = {"dset_lons": ds.lon.values.copy(), "dset_lats": ds.lat.values.copy()}
        replon = [(x * 5 + dten) / 10.0 for x in v["replon"]] if dten else [x / 2.0 for x in v["replon"]]
        # a query made only of longitudes in [0,180] cannot tell its convention: reported longitudes may follow either
        ambiguous = all(0 <= x <= 180 for x in qlon)

        def lon_ok(got, k):
            want = replon[k]
            return abs(got - want) < 1e-9 or ((ambiguous or abs(abs(want) - 180.0) < 1e-9) and min((got - want) % 360, (want - got) % 360) < 1e-9)

        # ---- nearest
        fails = any(len(n) == 0 for n in v["nearest"])
        try:
            out = ds.spec.sel(ql, qa, method="nearest", tolerance=told, **kw)
            if fails:
                ctx.violation(dict(key0, method="nearest", clause="tolerance"), "nearest returned a station farther than the tolerance", {"v": _small(v)})
            else:
                ok = out.sizes["site"] == len(qs)
                for i in range(len(qs)):
                    if not ok:
                        break
                    cands = [k - 1 for k in v["nearest"][i]]
                    ok = any(np.array_equal(out.efth.values[i], station_spec(k)) and lon_ok(float(out.lon.values[i]), k)
                             and abs(float(out.lat.values[i]) - st[k][1] / 2.0) < 1e-9 for k in cands)
                if ok:
                    ctx.replayed()
                else:
                    ctx.violation(dict(key0, method="nearest", clause="NearestIsMin/ReportedInQueryConvention"),
                                  "nearest selected lon/lat %s / %s for query %s (stations %s)" % (out.lon.values, out.lat.values, list(zip(qlon, qlat)),
                                                                                                 [(rep(s[0], cd), s[1] / 2.0) for s in st]), {"v": _small(v)})
        except AssertionError:
            if fails:
                ctx.replayed()
            else:
                ctx.violation(dict(key0, method="nearest", clause="fails-within-tolerance"),
                              "nearest raised although a station lies within the tolerance (short way round?)", {"v": _small(v)})
        except Exception as ex:  # noqa
            ctx.violation(dict(key0, method="nearest", raised=type(ex).__name__), "nearest raised %s" % type(ex).__name__, {"v": _small(v), "err": str(ex)[:200]})
        # ---- idw
        try:
            out = ds.spec.sel(ql, qa, method="idw", tolerance=told, max_sites=maxs, **kw)
            for i in range(len(qs)):
                info = v["idw"][i]
                got = np.asarray(out.efth.values[i], float)
                exps = []
                if info["exact"]:
                    exps = [station_spec(k - 1) for k in info["exact"]]
                elif info["missing"]:
                    exps = [np.full((3, 3), np.nan)]
                else:
                    for S in info["choices"]:
                        w = [1.0 / (math.sqrt(info["d2"][k - 1]) / 2.0) for k in S]
                        exps.append(sum(wi * station_spec(k - 1) for wi, k in zip(w, S)) / sum(w))
                lonok = abs(float(out.lon.values[i]) - qlon[i]) < 1e-9 or (ambiguous and abs((float(out.lon.values[i]) - qlon[i]) % 360) < 1e-9)
                if any(np.allclose(got, e, rtol=1e-9, atol=1e-12, equal_nan=True) for e in exps) and lonok:
                    ctx.replayed()
                else:
                    ctx.violation(dict(key0, method="idw", clause="missing" if info["missing"] else ("exact" if info["exact"] else "weights")),
                                  "idw at query %s: spectrum %s, expected %s; reported lon %s" %
                                  ((qlon[i], qlat[i]), np.round(got.ravel()[:4], 6), np.round(exps[0].ravel()[:4], 6), float(out.lon.values[i])),
                                  {"v": _small(v)})
        except Exception as ex:  # noqa
            ctx.violation(dict(key0, method="idw", raised=type(ex).__name__), "idw raised %s" % type(ex).__name__, {"v": _small(v), "err": str(ex)[:200]})
        # ---- bbox
        # a widened box that reaches the seam of the query's own convention is not compared: a station exactly on the seam
        # reads 0 or 360 (-180 or 180) alike there
        lo, hi = min(qlon) - told, max(qlon) + told
        seam_touch = (lo <= 0 or hi >= 360) if (cq == 360 or ambiguous) else (lo <= -180 or hi >= 180)
        want = sorted(k - 1 for k in v["bbox"])
        alt = sorted(k - 1 for k in v["bbox_other"]) if ambiguous else want
        try:
            if dten:
                continue        # box edges through stations are not decidable once the convention change rounds
            if seam_touch and tol > 0:
                # only the stations strictly inside the box as the caller wrote it (before the tolerance widens it across the seam) are
                # decidable: they must be among the stations returned (BBoxContainsEnclosed widened to "inside the raw box")
                ctx.notes["bbox_seam_touch_core_only"] = ctx.notes.get("bbox_seam_touch_core_only", 0) + 1
                core = sorted(k for k in range(len(st)) if min(qlon) <= rep(st[k][0], cq) <= max(qlon) and rep(st[k][0], cq) not in (0.0, 360.0, -180.0, 180.0)
                              and min(qlat) - told <= st[k][1] / 2.0 <= max(qlat) + told and st[k][0] not in (0, 360))
                if core:
                    try:
                        out = ds.spec.sel(ql, qa, method="bbox", tolerance=told, **kw)
                        got = sorted(next((k for k in range(len(st)) if np.array_equal(e, station_spec(k))), -1) for e in out.efth.values)
                    except ValueError:
                        got = []
                    if set(core) <= set(got):
                        ctx.replayed()
                    else:
                        ctx.violation(dict(key0, method="bbox", clause="core-of-seam-reaching-box"),
                                      "bbox [%s..%s] +- %g (reaching the seam of the query's convention once widened) returned stations %s; %s lie inside "
                                      "the box as written (dataset lons %s)" % (min(qlon), max(qlon), told, got, core, ds.lon.values), {"v": _small(v)})
                continue
            out = ds.spec.sel(ql, qa, method="bbox", tolerance=told, **kw)
            got = sorted(next((k for k in range(len(st)) if np.array_equal(e, station_spec(k))), -1) for e in out.efth.values)
            lons_ok = all(lon_ok(float(lo), k) for lo, k in zip(out.lon.values, [next(k for k in range(len(st)) if np.array_equal(e, station_spec(k)))
                                                                                for e in out.efth.values]))
            if (got == want or got == alt) and lons_ok:
                ctx.replayed()
            else:
                ctx.violation(dict(key0, method="bbox", clause="membership" if got != want else "ReportedInQueryConvention",
                                   straddles=_straddles(qlon, cq)),
                              "bbox [%s..%s] +- %g returned stations %s, expected %s (dataset lons %s)" %
                              (min(qlon), max(qlon), told, got, want, ds.lon.values), {"v": _small(v)})
        except ValueError:
            if not want or not alt:
                ctx.replayed()
            else:
                ctx.violation(dict(key0, method="bbox", clause="empty", straddles=_straddles(qlon, cq)),
                              "bbox found no station although %s lie inside" % want, {"v": _small(v)})
        except Exception as ex:  # noqa
            ctx.violation(dict(key0, method="bbox", raised=type(ex).__name__), "bbox raised %s" % type(ex).__name__, {"v": _small(v), "err": str(ex)[:200]})
    if vectors:
        ctx.sample({"kind": "selection vector", **_small(vectors[0])})
    ctx.assume("a query whose longitudes all lie in [0,180] reads the same in both conventions; reported longitudes may then follow either")


def _small(v):
    return {k: v[k] for k in ("st", "qs", "convD", "convQ", "tol", "maxs", "nearest", "bbox")}


def _straddles(qlon, cq):
    return bool(min(qlon) < 0 < max(qlon)) if cq == 180 else bool(min(qlon) < 180 < max(qlon))
