"""C15 - constructed parametric spectra have the parameters they were built from.

Construct.tla models the algebra the constructors apply to ANY non-negative shape and spreading table (scaling by
h^2/Hs^2 with the accessor's Hs and tail rule, cartwright's normalisation, the outer product) and TLC checks on every small
integer table: Hs(Scaled(S,h)) = h exactly, non-negativity, the normalised spreading integrates to one on a full-circle
uniform grid, the product integrates back to the shape, a table symmetric about an axis has no odd part about it.  The
transcendental shapes are beyond TLC; for them the spec enumerates the parameter lattice (shape, hs, fp on/off node, gamma,
number and storage order of directions, mean direction incl. next to 0/360, spread, depth, scalar vs DataArray parameters)
and the harness evaluates the relations on the library's real tables: scaled = unscaled * h^2/Hs(unscaled)^2, measured Hs,
JONSWAP(gamma=1) = PM, TMA(deep) = JONSWAP, integral of the spreading = 1, oned(2D) = shape, measured dm / dspr.
"""
import math

import numpy as np

from harness import lattice as L
from harness import ws
from harness.core import setup_repo_imports

INVS = ["ScaledHasRequestedHs", "ScaledNonNegative", "SpreadIntegratesToOne", "ProductIntegratesToShape", "SymmetricHasAxisAsMean"]


def cfg(mode, svals, gvals, ndirs, hsq, params):
    j = lambda xs: "{" + ",".join(map(str, xs)) + "}"  # noqa
    txt = "SPECIFICATION Spec\nCONSTANTS MODE = \"%s\"\n SVals = %s\n GVals = %s\n NDIRS = %s\n HSQ = %s\n PARAMS <- %s\n" % (
        mode, j(svals), j(gvals), j(ndirs), j(hsq), params)
    txt += "".join("INVARIANT %s\n" % i for i in INVS) + "INVARIANT EmitInv\n"
    return ws.write_cfg("con_%s_%s_%s.cfg" % (mode, "".join(map(str, ndirs)), params), txt)


def exact_spread(s):
    """dspr (deg) whose cos^2s exponent is the integer s: uniform quadrature is then exact for s + 1 < n."""
    return math.degrees(math.sqrt(2.0 / (s + 1)))


def run(ctx):
    setup_repo_imports()
    import warnings
    warnings.filterwarnings("ignore")
    import xarray as xr
    import wavespectra  # noqa
    from wavespectra.construct import construct_partition
    from wavespectra.construct.direction import cartwright
    from wavespectra.construct.frequency import gaussian, jonswap, pierson_moskowitz, tma
    r = ctx.tlc("MC_Construct", cfg("algebra", (0, 1, 3), (0, 1, 2), (3,) if ctx.quick else (3, 4), (1, 4, 9), "ParamSmall"), workers=8,
                label="algebra on integer tables")
    for inv in r.violated:
        if inv != "EmitInv":
            ctx.violation({"where": "spec", "invariant": inv}, "Construct.tla: %s violated" % inv, r.cex[:3000])
    r = ctx.tlc("MC_Construct", cfg("params", (0,), (0,), (3,), (1,), "ParamSmall" if ctx.quick else "ParamSet"), workers=2, label="parameter lattice")
    params = [v["par"] for v in r.vectors]
    ctx.note("parameter_cases", len(params))
    ctx.exhaustive = True
    ctx.rule = ("TLC: algebra on all integer shape tables over {0,1,3} (3-4 frequencies, 3 grids) x spreading tables over {0,1,2} x Hs^2 in "
                "{1,4,9}; parameter lattice shape x hs x fp x gamma x ndir x dm x dspr x depth x scalar/DataArray realised on the real "
                "constructors (quick: seeded sample). distinct_nontrivial = distinct parameter cases.")
    ctx.rng.shuffle(params)
    if ctx.quick:
        params = params[:260]
    fgrids = {"lin": np.arange(0.03, 0.601, 0.01), "log": 0.03 * 1.1 ** np.arange(0, 32)}
    for p in params:
        shape, hs, fp, gamma, nd, dm, dspr, depth, xd = p[0], p[1] / 10.0, p[2] / 100.0, p[3] / 10.0, p[4], p[5] / 10.0, float(p[6]), float(p[7]), p[8]
        gname = ctx.rng.choice(sorted(fgrids))
        freq = fgrids[gname]
        ctx.case(tuple(p) + (gname,), True)
        key = {"shape": shape, "freqgrid": gname, "extra_dim": bool(xd)}

        def P(x):        # scalar or DataArray over an extra dimension
            return xr.DataArray(np.array([x, x * 1.0]), dims=("site",), coords={"site": [0, 1]}) if xd else x
        try:
            if shape == "pm":
                un, sc = pierson_moskowitz(freq=freq, fp=P(fp)), pierson_moskowitz(freq=freq, fp=P(fp), hs=P(hs))
            elif shape == "jonswap":
                un, sc = jonswap(freq=freq, fp=P(fp), gamma=P(gamma)), jonswap(freq=freq, fp=P(fp), gamma=P(gamma), hs=P(hs))
            elif shape == "tma":
                un, sc = tma(freq=freq, fp=P(fp), dep=P(depth), gamma=P(gamma)), tma(freq=freq, fp=P(fp), dep=P(depth), gamma=P(gamma), hs=P(hs))
            else:
                un, sc = None, gaussian(freq=freq, hs=P(hs), fp=P(fp), gw=P(0.02 + 0.01 * (p[6] % 3)))
        except Exception as ex:  # noqa
            ctx.violation(dict(key, raised=type(ex).__name__), "%s constructor raised %s" % (shape, type(ex).__name__), {"par": p, "err": str(ex)[:200]})
            continue
        probs = []
        hsm = np.asarray(sc.spec.hs().values, float)
        if not np.allclose(hsm, hs, rtol=1e-9):
            probs.append(("measured-hs", "measured Hs %s, requested %g" % (hsm, hs)))
        if float(sc.min()) < 0:
            probs.append(("negative", "negative energy %g" % float(sc.min())))
        if un is not None:
            ratio = hs ** 2 / np.asarray(un.spec.hs().values, float) ** 2
            exp = un * xr.DataArray(ratio, dims=un.spec.hs().dims) if xd else un * float(ratio)
            if not np.allclose(sc.transpose(*exp.dims).values, exp.values, rtol=1e-10, atol=0):
                probs.append(("scaled-relation", "scaled table is not unscaled * h^2 / Hs(unscaled)^2"))
        if shape == "jonswap" and p[3] == 10:
            pm = pierson_moskowitz(freq=freq, fp=P(fp), hs=P(hs))
            if not np.allclose(sc.values, pm.transpose(*sc.dims).values, rtol=1e-12):
                probs.append(("jonswap-gamma1", "JONSWAP(gamma=1) differs from Pierson-Moskowitz"))
        if shape == "tma" and depth >= 5000:
            js = jonswap(freq=freq, fp=P(fp), gamma=P(gamma), hs=P(hs))
            if not np.allclose(sc.values, js.transpose(*sc.dims).values, rtol=1e-6):
                probs.append(("tma-deep", "TMA at %g m differs from JONSWAP" % depth))
        # ---- spreading and the 2-D product
        order = ctx.rng.choice(("asc", "desc", "rolled"))
        dirs = np.arange(nd) * (360.0 / nd)
        if order == "desc":
            dirs = dirs[::-1].copy()
        elif order == "rolled":
            dirs = np.roll(dirs, nd // 3)
        # spread classes: integer cos^2s exponents 50, 10, 4, 1 (57.3 deg) and 0 (81.03 deg: the uniform spreading, the broadest there
        # is; its mean direction is undefined), and 66 deg, a broad spreading with a non-integer exponent below one
        s_int = {10: 50, 25: 10, 40: 4, 57: 1, 66: None, 81: 0}[int(dspr)]
        exact = s_int is not None and s_int + 1 < nd
        spr = exact_spread(s_int) if exact else (dspr if s_int is None else exact_spread(s_int))
        key2 = dict(key, dir_order=order, exact_quadrature=exact)
        try:
            G = cartwright(dir=dirs, dm=P(dm), dspr=P(spr))
            dd = 360.0 / nd
            integ = np.asarray((G * dd).sum("dir").values, float)
            if float(G.min()) < 0:
                probs.append(("spread-negative", "negative spreading (min %g), directions %s" % (float(G.min()), order)))
            if not np.allclose(integ, 1.0, rtol=1e-9):
                probs.append(("spread-integral", "spreading integrates to %s over the circle (directions %s)" % (integ, order)))
            two = (sc * G)
            raw = two.rename("efth")            # the product exactly as built (the extra dimension of the parameters may come last)
            two = two.transpose(*([d for d in two.dims if d not in ("freq", "dir")] + ["freq", "dir"]))
            two.name = "efth"
            if not xd:
                # scalar shape parameters with the spreading parameters given over an extra dimension (a scan of directions): the product
                # then carries the extra dimension wherever broadcasting puts it
                Gs = cartwright(dir=dirs, dm=xr.DataArray(np.array([dm, (dm + 140.0) % 360.0, dm]), dims=("case",), coords={"case": [0, 1, 2]}),
                                dspr=xr.DataArray(np.array([spr, spr, spr]), dims=("case",), coords={"case": [0, 1, 2]}))
                raw = (sc * Gs).rename("efth")
                two_ = raw.transpose(*([d for d in raw.dims if d not in ("freq", "dir")] + ["freq", "dir"]))
            else:
                two_ = two
            if tuple(raw.dims) != tuple(two_.dims):
                try:
                    for stat in ("dm", "dspr", "hs"):
                        a_, b_ = getattr(raw.spec, stat)(), getattr(two_.spec, stat)()
                        if not np.allclose(np.asarray(a_.transpose(*b_.dims).values, float), np.asarray(b_.values, float), rtol=1e-9, atol=1e-9, equal_nan=True):
                            probs.append(("measured-as-built", "%s measured on the product as built (dims %s) differs from the same spectra with the spectral dims last" % (stat, raw.dims)))
                except Exception as ex:  # noqa
                    probs.append(("measured-as-built", "measuring the product as built (dims %s) raised %s: %s" % (raw.dims, type(ex).__name__, str(ex)[:100])))
            one = two.spec.oned()
            if not np.allclose(one.transpose(*sc.dims).values, sc.values, rtol=1e-9, atol=1e-300):
                probs.append(("oned-of-product", "oned(shape x spreading) differs from the shape"))
            mdm = np.asarray(two.spec.dm().values, float)
            mds = np.asarray(two.spec.dspr().values, float)
            tol_dm, tol_ds = (1e-6, 1e-6) if exact else (0.05, 0.02 * spr)
            # an under-resolved spreading cannot reproduce its parameters (a broad one has a kink opposite the mean direction: 24 bins)
            resolved = exact or (dd <= spr / 2.5 and (dspr < 50 or nd >= 24))
            if not resolved:
                mdm, mds = np.array([dm]), np.array([spr])
                ctx.notes["under_resolved_spreads_not_compared"] = ctx.notes.get("under_resolved_spreads_not_compared", 0) + 1
            if s_int != 0 and not np.all(np.abs((mdm - dm + 180.0) % 360.0 - 180.0) <= tol_dm):
                probs.append(("measured-dm", "measured dm %s, requested %g (n=%d, s=%s)" % (mdm, dm, nd, s_int if exact else "not exact")))
            if not np.allclose(mds, spr, rtol=0, atol=tol_ds):
                probs.append(("measured-dspr", "measured dspr %s, requested %g (n=%d)" % (mds, spr, nd)))
            if ctx.rng.random() < 0.15 and not xd and shape != "gaussian":
                cp = construct_partition(shape if shape != "pm" else "pierson_moskowitz", "cartwright",
                                         {"freq": freq, "fp": fp, "hs": hs, **({"gamma": gamma} if shape != "pm" else {}), **({"dep": depth} if shape == "tma" else {})},
                                         {"dir": dirs, "dm": dm, "dspr": spr})
                if not np.allclose(cp.transpose("freq", "dir").values, two.values, rtol=1e-12):
                    probs.append(("construct_partition", "construct_partition differs from shape x spreading"))
        except Exception as ex:  # noqa
            probs.append(("raised-" + type(ex).__name__, "spreading / product raised %s: %s" % (type(ex).__name__, str(ex)[:150])))
        if probs:
            for clause, msg in probs:
                ctx.violation(dict(key2, clause=clause), "%s: %s" % (shape, msg), {"par": p, "dirs": order})
        else:
            ctx.replayed()
    # ---- the truncated spreading (under_90=True) and rotation of any spreading: non-negative, integrates to one, symmetric about the
    # mean direction, and moving the mean direction by whole bins (also across 0/360, also given outside [0,360)) rolls it
    from wavespectra.construct.direction import cartwright
    for nd in (12, 24, 36):
        dd = 360.0 / nd
        dirs = np.arange(nd) * dd
        for dspr in (15.0, 30.0, 50.0):
            for under in (False, True):
                ref = np.asarray(cartwright(dirs, 180.0, dspr, under_90=under).values, float)
                for k in range(-nd, nd + 1, max(1, nd // 12)):
                    dm = 180.0 + k * dd               # runs from -180 to 540: outside [0,360) too
                    ctx.case(("spread-rot", nd, dspr, under, k), True)
                    g = np.asarray(cartwright(dirs, dm, dspr, under_90=under).values, float)
                    probs = []
                    if g.min() < 0 or not np.isclose(g.sum() * dd, 1.0, rtol=1e-9):
                        probs.append(("spreading-normalised", "min %.3g, integral %.12g" % (g.min(), g.sum() * dd)))
                    if not np.allclose(g, np.roll(ref, k), rtol=1e-9, atol=1e-15):
                        probs.append(("spreading-rotates", "cartwright(dm=%g, under_90=%s) is not the dm=180 spreading rolled by %d bins" % (dm, under, k)))
                    # the same circle labelled -180..180, or with north as 360: the same spreading at the same physical directions
                    for lname, lab in ((("-180..180", np.where(dirs > 180, dirs - 360, dirs)), ("north=360", np.where(dirs == 0, 360.0, dirs)))
                                       if 0 <= dm < 360 else ()):       # (a mean direction outside [0,360) AND relabelled bins: not claimed)
                        g2 = np.asarray(cartwright(lab, dm, dspr, under_90=under).values, float)
                        if not np.allclose(g2, g, rtol=1e-9, atol=1e-15):
                            probs.append(("spreading-label-convention", "cartwright(dm=%g, under_90=%s) on directions labelled %s differs from the 0..360 labelling" % (dm, under, lname)))
                    if probs:
                        for clause, msg in probs:
                            ctx.violation({"shape": "cartwright", "clause": clause, "under_90": under}, msg, {"nd": nd, "dspr": dspr, "dm": dm})
                    else:
                        ctx.replayed()
    # ---- every shape parameter reaches the shape: TMA in deep water equals JONSWAP for non-default alpha / sigma_a / sigma_b too
    # (scaled and unscaled), and JONSWAP(gamma=1) equals Pierson-Moskowitz for non-default alpha
    from wavespectra.construct.frequency import jonswap as cj2, tma as ctma, pierson_moskowitz as cpm
    fq = np.linspace(0.04, 0.5, 47)
    for alpha, sa, sb, gamma, hs in ((0.0081, 0.07, 0.09, 3.3, None), (0.02, 0.05, 0.12, 2.0, None), (0.004, 0.1, 0.06, 5.0, 2.5), (0.0081, 0.05, 0.09, 1.0, 1.0)):
        for fp in (0.08, 0.2):
            ctx.case(("shape-params", alpha, sa, sb, gamma, hs, fp), True)
            kw = dict(alpha=alpha, gamma=gamma, sigma_a=sa, sigma_b=sb, hs=hs)
            a = np.asarray(ctma(freq=fq, fp=fp, dep=4000.0, **kw).values, float)
            b = np.asarray(cj2(freq=fq, fp=fp, **kw).values, float)
            probs = []
            if not np.allclose(a, b, rtol=1e-9, atol=1e-300):
                probs.append(("tma-deep-is-jonswap", "TMA(dep=4000 m) differs from JONSWAP for alpha=%g sigma=(%g, %g): max relative difference %.3g" %
                              (alpha, sa, sb, float(np.nanmax(np.abs(a - b) / np.maximum(np.abs(b), 1e-300))))))
            if gamma == 1.0:
                c = np.asarray(cpm(freq=fq, fp=fp, alpha=alpha, hs=hs).values, float)
                if not np.allclose(b, c, rtol=1e-9, atol=1e-300):
                    probs.append(("jonswap-gamma1-is-pm", "JONSWAP(gamma=1, alpha=%g) differs from Pierson-Moskowitz" % alpha))
            if probs:
                for clause, msg in probs:
                    ctx.violation({"shape": "tma", "clause": clause, "default_sigma": (sa, sb) == (0.07, 0.09)}, msg, {"alpha": alpha, "sigma_a": sa, "sigma_b": sb, "gamma": gamma, "hs": hs, "fp": fp})
            else:
                ctx.replayed()
    # ---- the numpy twins of the shape functions (model functions of fit_jonswap / fit_gaussian): scaled = unscaled * h^2 / Hs^2
    # under the twin's own measure (trapezoid + tail above 0.333 Hz), same shape as the constructor, gaussian identical
    from wavespectra.core import npstats
    from wavespectra.construct.frequency import jonswap as cj, gaussian as cg
    for fmax in (0.3, 0.33, 0.4, 0.5, 1.0):
        for nf in (12, 25, 40):
            freq = np.linspace(0.04, fmax, nf)
            for fp in (0.08, 0.15, 0.25, 0.3):
                for hs, gamma in ((0.5, 1.0), (2.0, 2.0), (7.5, 3.3)):
                    if fp >= fmax:
                        continue
                    ctx.case(("twin", fmax, nf, fp, hs, gamma), True)
                    tw = npstats.jonswap(freq, fp, hs, gamma)
                    un = npstats.jonswap(freq, fp, None, gamma)
                    shape = np.asarray(cj(freq=freq, fp=fp, gamma=gamma, hs=None).values, float)
                    probs = []
                    if not np.isclose(float(npstats.hs(tw, freq)), hs, rtol=1e-9):
                        probs.append(("twin-hs", "npstats.jonswap(hs=%g) measures %.9g with npstats.hs" % (hs, float(npstats.hs(tw, freq)))))
                    if not np.allclose(tw * float(npstats.hs(un, freq)) ** 2, un * hs ** 2, rtol=1e-9):
                        probs.append(("twin-scaling", "scaled twin is not unscaled * h^2 / Hs^2"))
                    if not np.allclose(un, shape, rtol=1e-9, atol=1e-300):
                        probs.append(("twin-shape", "unscaled twin differs from construct.frequency.jonswap"))
                    gw = 0.02
                    # the constructor rescales its discretised Gaussian to the requested height, the twin is the analytic one: same shape
                    ga, gb = npstats.gaussian(freq, fp, hs, gw), np.asarray(cg(freq=freq, fp=fp, hs=hs, gw=gw).values, float)
                    big = gb > 1e-12 * gb.max()
                    if not np.allclose(ga[big] / gb[big], (ga[big] / gb[big])[0], rtol=1e-9):
                        probs.append(("twin-gaussian", "npstats.gaussian is not proportional to construct.frequency.gaussian"))
                    if probs:
                        for clause, msg in probs:
                            ctx.violation({"shape": "jonswap-twin", "clause": clause, "tail": bool(fmax > 0.333)}, msg, {"fmax": fmax, "nf": nf, "fp": fp, "hs": hs, "gamma": gamma})
                    else:
                        ctx.replayed()
    if params:
        ctx.sample({"kind": "parameter case <<shape, hs*10, fp*100, gamma*10, ndir, dm*10, dspr, depth, extra-dim>>", "par": params[0]})
    ctx.assume("exactness of measured dm / dspr is demanded for integer spreading exponents s with s + 1 < n (uniform quadrature is exact for that "
               "trigonometric polynomial); otherwise a discretisation tolerance (0.05 deg, 2 % of the spread) is used")
