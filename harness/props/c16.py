"""C16 - smoothing is a local circular average that keeps the grid.

Smooth.tla defines the smoothing of smooth_spec as an exact-rational window mean (circular in direction on a full-circle
grid, input value where the whole window does not fit, even windows rejected) on the stored, possibly unsorted,
direction order.  MC_Smooth enumerates spectra x direction grids (sorted, rolled, descending, unsorted, partial, 3-6
directions) x independent odd/even windows and checks WithinWindowMinMax, NonNegative, ConstantPreserved,
WindowOneIdentity, CommutesWithDirShift and EvenRejected; every state is replayed into spec.smooth / smooth_spec
(dimensions, coordinates and their order must be the input's; values equal the exact rationals); extra leading
dimensions and dyadic spacings are covered by the replay; shift commutation is also run as a metamorphic pair on the code.
"""
from concurrent.futures import ThreadPoolExecutor

import numpy as np

from harness import lattice as L
from harness import ws
from harness.core import MachineryError, run_tlc, setup_repo_imports

INVS = ["WithinWindowMinMax", "NonNegative", "ConstantPreserved", "WindowOneIdentity", "CommutesWithDirShift", "EvenRejected"]
NDIRS = {1: 4, 2: 4, 3: 4, 4: 4, 5: 6, 6: 3, 7: 4, 8: 5, 9: 4, 10: 4, 11: 4}


def cfg(vals, nf, dsets, wins, emit=True):
    j = lambda xs: "{" + ",".join(map(str, xs)) + "}"  # noqa
    txt = "SPECIFICATION Spec\nCONSTANTS Vals = %s\n NF = %d\n DSETS = %s\n WINS = %s\n EMIT = %s\n" % (j(vals), nf, j(dsets), j(wins), "TRUE" if emit else "FALSE")
    txt += "".join("INVARIANT %s\n" % i for i in INVS)
    if emit:
        txt += "INVARIANT EmitInv\n"
    return ws.write_cfg("sm_%s_%d_%s_%s.cfg" % ("".join(map(str, vals)), nf, "".join(map(str, dsets)), "".join(map(str, wins))), txt)


def run(ctx):
    setup_repo_imports()
    import warnings
    warnings.filterwarnings("ignore")
    import xarray as xr
    import wavespectra  # noqa
    from wavespectra.core.utils import smooth_spec
    jobs = []
    for d in range(1, 12):
        nd = NDIRS[d]
        if ctx.quick:
            nf, vals = (3, (0, 4)) if nd <= 4 else (2, (0, 4))
            if nd == 6:
                nf = 1
            jobs.append((vals, nf, (d,), (1, 2, 3, 5)))
        else:
            nf, vals = (3, (0, 1, 4)) if nd <= 3 else ((3, (0, 4)) if nd == 4 else (2, (0, 4)))
            jobs.append((vals, nf, (d,), (1, 2, 3, 5)))
            if nd == 4:
                jobs.append(((0, 1, 5), 2, (d,), (1, 3)))

    def one(job):
        return job, run_tlc("MC_Smooth", cfg(*job), workers=1, timeout=3000)
    vectors = []
    with ThreadPoolExecutor(max_workers=10) as ex:
        for job, r in ex.map(one, jobs):
            ctx.states += r.states
            ctx.transitions += r.transitions
            ctx.tlc_runs.append({"module": "MC_Smooth", "label": "dirs %s nf=%d" % (job[2], job[1]), "states": r.states, "transitions": r.transitions,
                                 "wall_s": round(r.wall, 2), "violated": r.violated})
            for inv in r.violated:
                if inv != "EmitInv":
                    ctx.violation({"where": "spec", "invariant": inv}, "MC_Smooth: %s violated" % inv, r.cex[:4000])
            if not r.ok and not r.violated:
                raise MachineryError("TLC failed on MC_Smooth %s: %s" % (job, r.errors[:5]))
            vectors += r.vectors
    ctx.exhaustive = True
    ctx.note("lattice_vectors", len(vectors))
    ctx.rule = ("TLC: 11 direction grids x spectra over a 2-3 symbol alphabet x windows {1,2,3,5}^2 (even ones must be rejected); every state "
                "replayed through spec.smooth and smooth_spec on a Dataset, plus leading-dimension and dyadic-spacing variants. "
                "distinct_nontrivial = distinct non-constant (grid, spectrum, windows).")
    cap = 2500 if ctx.quick else 40000       # the replay is single-threaded python: thorough replays a seeded 40 000 of the states
    if len(vectors) > cap:
        ctx.rng.shuffle(vectors)
        vectors = vectors[:cap]
    for v in vectors:
        nf, D, E = v["nf"], v["D"], v["E"]
        F = [2 + 2 * i for i in range(nf)]
        flat = [x for r_ in E for x in r_]
        ctx.case(("sm", nf, tuple(D), tuple(flat), v["fw"], v["fd"]), len(set(flat)) > 1)
        # dyadic scaling of the labels keeps them exactly representable (float32 cast inside smooth_spec)
        # ... and labels that float32 cannot represent (3.6-degree multiples, a 0.1-degree offset) must be looked up all the same:
        # smooth_spec casts its working copy of the directions to float32, the result carries the caller's float64 labels
        scale = ctx.rng.choice((1.0, 1.0, 0.5, 0.04))
        offset = ctx.rng.choice((0.0, 0.0, 0.1))
        da = L.build(F, D, E)
        if scale != 1.0 and not v["circular"]:
            da = da.assign_coords(dir=da.dir * scale)
        if offset and float(da.dir.max()) + offset < 360.0:
            da = da.assign_coords(dir=da.dir + offset)
        variants = [("spec.smooth", lambda: da.spec.smooth(freq_window=v["fw"], dir_window=v["fd"]), da)]
        ds = da.to_dataset(name="efth")
        variants.append(("smooth_spec(Dataset)", lambda: smooth_spec(ds, freq_window=v["fw"], dir_window=v["fd"])["efth"], da))
        for name, fn, ref in variants:
            try:
                out = fn()
            except ValueError:
                if v["rejected"]:
                    ctx.replayed()
                else:
                    ctx.violation({"fn": name, "outcome": "ValueError"}, "%s rejected odd windows (%d, %d)" % (name, v["fw"], v["fd"]), {"D": D, "E": E})
                continue
            except Exception as ex:  # noqa
                ctx.violation({"fn": name, "raised": type(ex).__name__}, "%s raised %s" % (name, type(ex).__name__), {"D": D, "E": E, "err": str(ex)[:200]})
                continue
            if v["rejected"]:
                ctx.violation({"fn": name, "outcome": "accepted-even-window"}, "%s accepted an even window (%d, %d)" % (name, v["fw"], v["fd"]), {"D": D})
                continue
            exp = np.array([[c[0] / c[1] for c in row] for row in v["out"]], float)
            problems = []
            if tuple(out.dims) != tuple(ref.dims):
                problems.append("dimension order %s instead of %s" % (out.dims, ref.dims))
            elif not (np.array_equal(out.dir.values.astype(float), ref.dir.values.astype(float)) and np.array_equal(out.freq.values, ref.freq.values)):
                problems.append("coordinates changed: dir %s vs %s" % (out.dir.values, ref.dir.values))
            else:
                got = np.asarray(out.values, float)
                if got.shape != exp.shape or not np.allclose(got, exp, rtol=1e-9, atol=1e-12, equal_nan=False):
                    k = np.unravel_index(np.argmax(np.abs(np.nan_to_num(got, nan=1e99) - exp)), exp.shape)
                    problems.append("value at %s is %.12g, exact %.12g" % (k, got[k], exp[k]))
            if problems:
                ctx.violation({"fn": name, "fw": v["fw"], "fd": v["fd"], "circular": v["circular"], "sorted": D == sorted(D)},
                              "%s(%d, %d): %s" % (name, v["fw"], v["fd"], problems[0]), {"D": D, "E": E, "nf": nf})
            else:
                ctx.replayed()
    if vectors:
        ctx.sample({"kind": "smooth vector", **{k: vectors[0][k] for k in ("nf", "D", "E", "fw", "fd", "circular", "out")}})
    # leading dimensions + metamorphic shift commutation on the code, larger grids (24 directions, dyadic spacing 11.25 via 32 dirs)
    rng = np.random.RandomState(ctx.seed)
    # (spacings 15, 11.25, 45 and the fractional 7.5, 5.625, 4.5, 2.5 degrees: a full circle whatever the spacing's fractional part)
    for nd, nf in ((24, 6), (32, 5), (8, 7), (48, 4), (64, 4), (80, 3), (144, 3)):
        dirs = np.arange(nd) * (360.0 / nd)
        vals = rng.randint(0, 50, size=(2, 3, nf, nd)).astype(float)
        da = xr.DataArray(vals, coords={"time": [0, 1], "site": [0, 1, 2], "freq": np.linspace(0.05, 0.3, nf), "dir": dirs},
                          dims=("time", "site", "freq", "dir"), name="efth")
        for fw, fd in ((1, 5), (3, 3), (1, 7), (3, 9), (5, 1), (5, 3)):
            if fd > nd or fw > nf:
                continue
            ctx.case(("big", nd, nf, fw, fd), True)
            a = da.spec.smooth(fw, fd)
            k = int(rng.randint(1, nd))
            shifted = da.copy(data=np.roll(da.values, k, axis=-1))
            b = shifted.spec.smooth(fw, fd)
            hf, hd = fw // 2, fd // 2
            # direct window mean on the circle where the frequency window fits
            exp = np.array(da.values)
            acc = np.zeros_like(exp)
            for di in range(-hf, hf + 1):
                for dj in range(-hd, hd + 1):
                    acc += np.roll(np.roll(exp, -dj, axis=-1), -di, axis=-2)
            mean = acc / (fw * fd)
            inner = slice(hf, nf - hf)
            ok = (a.dims == da.dims and np.array_equal(a.dir.values.astype(float), dirs)
                  and np.allclose(np.roll(a.values, k, axis=-1), b.values, rtol=1e-12, atol=1e-12)
                  and np.allclose(a.values[..., inner, :], mean[..., inner, :], rtol=1e-9, atol=1e-9)
                  and np.array_equal(a.values[..., :hf, :], exp[..., :hf, :]))
            if ok:
                ctx.replayed()
            else:
                ctx.violation({"fn": "spec.smooth", "fw": fw, "fd": fd, "relation": "shift/mean on large grid"},
                              "smooth(%d, %d) on a %d-direction full circle: not the circular window mean / does not commute with a shift by %d bins" % (fw, fd, nd, k),
                              {"nd": nd, "nf": nf, "seed": ctx.seed})
    # ---- "exactly the input's dimensions, coordinates and their order" for every storage order of the dimensions, through the
    # DataArray accessor, the Dataset accessor and smooth_spec on a Dataset alike
    dirs = np.arange(8) * 45.0
    base = xr.DataArray(rng.randint(0, 50, size=(2, 3, 5, 8)).astype(float), coords={"time": [0, 1], "site": [0, 1, 2], "freq": np.linspace(0.05, 0.3, 5), "dir": dirs},
                        dims=("time", "site", "freq", "dir"), name="efth")
    ref = base.spec.smooth(3, 3)
    for order in (("freq", "dir", "time", "site"), ("time", "dir", "freq", "site"), ("dir", "site", "time", "freq"), ("site", "freq", "time", "dir")):
        dat = base.transpose(*order)
        for how, fn in (("DataArray accessor", lambda x: x.spec.smooth(3, 3)), ("Dataset accessor", lambda x: x.to_dataset(name="efth").spec.smooth(3, 3)),
                        ("smooth_spec(Dataset)", lambda x: smooth_spec(x.to_dataset(name="efth"), 3, 3)["efth"])):
            ctx.case(("dim-order", order, how), True)
            try:
                out = fn(dat)
                ok = tuple(out.dims) == tuple(order) and np.allclose(out.transpose(*base.dims).values, ref.values, rtol=1e-12, atol=1e-12) and \
                    all(np.array_equal(np.asarray(out[d].values, float), np.asarray(dat[d].values, float)) for d in order)
                what = "dims %s" % (tuple(out.dims),)
            except Exception as ex:  # noqa
                ok, what = False, "raised %s: %s" % (type(ex).__name__, str(ex)[:120])
            if ok:
                ctx.replayed()
            else:
                ctx.violation({"fn": how, "relation": "dimension order kept", "order": list(order)},
                              "smooth through the %s on spectra stored as %s: %s" % (how, order, what))
    ctx.assume("windows do not exceed the grid size; direction labels: whole, dyadic, 3.6-degree multiples and 0.1-degree offsets (float64 labels that float32 cannot represent)")
