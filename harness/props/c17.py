"""C17 - no operation modifies the data it is given.

Frame.tla: only the driver's own edits may change an object's fingerprint; a call never does (ArgsImmutable), also when
it raises.  TLC enumerates all programs of bounded length over the operation alphabet (accessor statistics and
transforms, selection with every method and list / ndarray / DataArray queries in both longitude conventions, partition
methods with wind and depth arrays, construction helpers with keyword dictionaries, in-memory reader helpers, every
writer); each program is executed on the same set of objects (numpy- and dask-backed, arrays that are views of a
caller-owned buffer), every argument object is fingerprinted deeply before and after each call, and the recorded events
are validated by FrameTrace.tla.
"""
import hashlib
import json
import os
import pickle
import tempfile

import numpy as np

from harness import session as S
from harness import ws
from harness.core import BUILD, MachineryError, run_tlc, setup_repo_imports


def fingerprint(obj, depth=0):
    """deep, order-sensitive fingerprint: values, coordinates, attrs, encodings, dims, chunks; lists/dicts recursively."""
    import xarray as xr
    h = hashlib.sha1()

    def add(x):
        h.update(repr(x).encode())

    if isinstance(obj, xr.Dataset):
        add(("ds", tuple(obj.dims.items()) if hasattr(obj.dims, "items") else tuple(obj.dims), tuple(obj.data_vars), tuple(obj.coords)))
        add(sorted((k, repr(v)) for k, v in obj.attrs.items()))
        add(sorted((k, repr(v)) for k, v in obj.encoding.items()))
        for k in list(obj.data_vars) + list(obj.coords):
            h.update(fingerprint(obj[k], depth + 1).encode())
    elif isinstance(obj, xr.DataArray):
        add(("da", obj.name, obj.dims, str(obj.dtype), obj.shape, getattr(obj.data, "chunks", None)))
        add(sorted((k, repr(v)) for k, v in obj.attrs.items()))
        add(sorted((k, repr(v)) for k, v in obj.encoding.items()))
        vals = np.asarray(obj.values)
        h.update(vals.tobytes())
        add(vals.strides if not hasattr(obj.data, "chunks") else None)
        if depth == 0:
            for c in obj.coords:
                h.update(fingerprint(obj[c], depth + 1).encode())
    elif isinstance(obj, np.ndarray):
        add(("np", obj.shape, str(obj.dtype), obj.strides, obj.flags.writeable))
        h.update(np.ascontiguousarray(obj).tobytes())
    elif isinstance(obj, dict):
        add("dict")
        for k in obj:                      # insertion order matters too
            add(k)
            h.update(fingerprint(obj[k], depth + 1).encode())
    elif isinstance(obj, (list, tuple)):
        add(type(obj).__name__)
        for x in obj:
            h.update(fingerprint(x, depth + 1).encode())
    else:
        add(obj)
    return h.hexdigest()


_FILES = {}


def file_fixtures():
    """files for the multi-file readers, written once per process: two single-site SWAN files whose names sort AGAINST the order the caller
    lists them in, and three TRIAXYS files; a World holds fresh lists of these paths (caller-owned query lists like any other)."""
    if _FILES:
        return _FILES
    import random
    import xarray as xr
    import wavespectra  # noqa
    from harness import instruments as I
    d = tempfile.mkdtemp(prefix="c17-files-", dir=os.path.join(BUILD, "traces"))
    t = np.datetime64("2020-01-01") + np.arange(2) * np.timedelta64(3600, "s")
    swan = []
    for name, lon in (("b_east.spec", 12.0), ("a_west.spec", 3.0)):
        e = xr.DataArray(S.base_values(1)[:2, None], dims=("time", "site", "freq", "dir"),
                         coords={"time": t, "site": [0], "freq": S.FREQ, "dir": S.GRIDS[1]}, name="efth").to_dataset()
        e["lon"], e["lat"] = (("site",), [lon]), (("site",), [40.0])
        pth = os.path.join(d, name)
        e.spec.to_swan(pth)
        swan.append(pth)
    case = I.random_case("triaxys", random.Random("c17"), ntimes=3, nfreq=5, shuffle=False, toff=0)
    case["names"] = "time"
    os.makedirs(os.path.join(d, "tx"))
    tx = list(I.encode(case, os.path.join(d, "tx")))
    _FILES.update(swan=swan, triaxys=sorted(tx, reverse=True))
    import atexit
    import shutil
    atexit.register(shutil.rmtree, d, True)
    return _FILES


class World:
    """the objects a program operates on (rebuilt for every program)."""

    def __init__(self, variant, rng):
        import xarray as xr
        self.variant = variant
        base = np.zeros((3, 4, S.FREQ.size, 8))
        for k in range(4):
            base[:, k] = S.base_values(k + 1)
        self.buffer = np.zeros((3, 4, S.FREQ.size, 16))          # caller-owned buffer; efth is a strided view of it
        view = self.buffer[..., ::2]
        view[...] = base
        lon180 = np.array([-175.0, -10.0, 3.0, 170.0])
        lons = lon180 if variant["dset_conv"] == 180 else lon180 % 360
        lats = np.array([-30.0, 10.0, 12.0, 40.0])
        efth = xr.DataArray(view, dims=("time", "site", "freq", "dir"),
                            coords={"time": np.datetime64("2020-01-01") + np.arange(3) * np.timedelta64(3600, "s"),
                                    "site": np.arange(4), "freq": S.FREQ, "dir": S.GRIDS[1].copy()}, name="efth")
        efth.attrs = {"units": "m2/Hz/deg", "note": "caller attribute"}
        ds = efth.to_dataset()
        ds["lon"] = (("site",), lons.copy())
        ds["lat"] = (("site",), lats.copy())
        ds["wspd"] = (("time", "site"), np.full((3, 4), 12.0))
        ds["wdir"] = (("time", "site"), np.full((3, 4), 45.0))
        ds["dpt"] = (("time", "site"), np.full((3, 4), 80.0))
        ds.attrs = {"title": "world", "history": "a"}
        ds.efth.encoding = {"dtype": "float32", "_FillValue": -1}
        if variant["dask"]:
            ds = ds.chunk({"time": 1, "site": 2})
        self.ds = ds
        q180 = np.array([-9.0, 3.5, 171.0])
        q = q180 if variant["query_conv"] == 180 else q180 % 360
        self.qlons_np = q.copy()
        self.qlats_np = np.array([9.0, 11.0, 39.0])
        self.qlons_list = [float(x) for x in q]
        self.qlats_list = [9.0, 11.0, 39.0]
        self.qlons_da = xr.DataArray(q.copy(), dims=("p",))
        self.qlats_da = xr.DataArray(np.array([9.0, 11.0, 39.0]), dims=("p",))
        self.dset_lons = lons.copy()
        self.dset_lats = lats.copy()
        self.bboxes = [dict(fmin=0.04, fmax=0.16, dmin=10.0, dmax=190.0), dict(fmin=0.17, fmax=0.5)]
        self.freq_kwargs = {"freq": S.FREQ.copy(), "fp": 0.1, "hs": 2.0, "gamma": 2.0}
        self.dir_kwargs = {"dir": S.GRIDS[1].copy(), "dm": 90.0, "dspr": 25.0}
        self.stats_dict = {"hs": {}, "tp": {"smooth": False}}
        self.time_encoding = {"dtype": "float64"}
        self.tgt_freq = np.array([0.06, 0.12, 0.22, 0.33])
        self.tgt_dir = [0.0, 60.0, 120.0, 180.0, 240.0, 300.0]
        self.tmp = tempfile.mkdtemp(prefix="c17-", dir=os.path.join(BUILD, "traces"))
        # a frequency-only (1-D) spectra dataset with instrument attributes, dask-backed in the dask variant
        ds1 = xr.Dataset({"efth": (("time", "site", "freq"), base.sum(axis=-1) * 45.0)},
                         coords={"time": ds.time.values, "site": np.arange(4), "freq": S.FREQ.copy()})
        ds1.efth.attrs = {"instrument": "waverider 0042", "units": "m2 s"}
        ds1.attrs = {"title": "1-D world"}
        if variant["dask"]:
            ds1 = ds1.chunk({"time": 1})
        self.ds1d = ds1
        # a single buoy: efth has a site dimension of one, the position is kept as scalar data variables
        buoy = ds[["efth"]].isel(site=[2]).copy(deep=True)
        buoy["lon"] = ((), 3.0)
        buoy["lat"] = ((), 12.0)
        buoy.attrs = {"title": "buoy"}
        self.buoy = buoy
        # a DataArray the caller holds with ONE direction bin (a single-beam instrument), float64 labels
        self.onedir = xr.DataArray(base[:, 0, :, 3:4].copy(), dims=("time", "freq", "dir"),
                                   coords={"time": ds.time.values, "freq": S.FREQ.copy(), "dir": np.array([135.0])}, name="efth")
        self.onedir.attrs = {"units": "m2/Hz/deg"}
        # single-precision spectra in C order with missing bins (an instrument gap): the buffer the C routine would see directly
        nanf = np.ascontiguousarray(base[:, :2].astype("float32"))
        nanf[0, 0, 2, 3] = np.nan
        nanf[2, 1, :, 5] = np.nan
        self.nanf32 = xr.DataArray(nanf, dims=("time", "site", "freq", "dir"),
                                   coords={"time": ds.time.values, "site": [0, 1], "freq": S.FREQ.copy(), "dir": S.GRIDS[1].copy()}, name="efth")
        # in-memory datasets in the native layout of the model readers (what xr.open_dataset would hand to from_<model> / read_dataset)
        from harness.props import c12
        vec = {"F": [2, 3, 5, 7], "D": [0, 1440, 2880, 4320], "E": [[1, 2, 0, 3], [4, 0, 5, 1], [0, 6, 2, 2], [1, 1, 3, 0]]}
        self.native = {}
        for conv in ("ww3", "ncswan", "wwm"):
            nds = c12.native_dataset(dict(vec, conv=conv), rng, True, conv != "wwm" and variant["dset_conv"] == 360)[0]
            nds.attrs = {"source": conv}
            for k in nds.data_vars:
                nds[k].attrs = {"native": k}
            if variant["dask"]:
                nds = nds.chunk({list(nds.sizes)[0]: 1})
            self.native[conv] = nds
        era = xr.Dataset({"d2fd": (("time", "frequency", "direction", "latitude", "longitude"), np.log10(np.arange(1.0, 1 + 2 * 30 * 24 * 2 * 2).reshape(2, 30, 24, 2, 2)))},
                         coords={"time": np.datetime64("2020-01-01") + np.arange(2) * np.timedelta64(1, "h"), "frequency": np.arange(1, 31), "direction": np.arange(1, 25),
                                 "latitude": [10.0, 9.5], "longitude": [100.0, 100.5]})
        era["d2fd"].values[0, 0, 0, 0, 0] = np.nan
        self.native["era5"] = era
        # datasets ALREADY in the library's own layout (a native dataset converted earlier in the session): handing one to a converter or
        # to read_dataset again is a call like any other
        import wavespectra.input.ww3 as _iww3
        import wavespectra.input.ncswan as _incswan
        self.converted = {"ww3": _iww3.from_ww3(self.native["ww3"].copy(deep=True)), "ncswan": _incswan.from_ncswan(self.native["ncswan"].copy(deep=True))}
        for k, c in self.converted.items():
            c.attrs = {"source": "converted " + k}
            c["efth"].attrs = dict(c["efth"].attrs, mine="yes")
        fx = file_fixtures()
        self.swanfiles = list(fx["swan"])           # listed east first: not in file-name order
        self.triaxysfiles = list(fx["triaxys"])     # listed latest first

    def objects(self):
        return [self.ds, self.buffer, self.qlons_np, self.qlats_np, self.qlons_list, self.qlats_list, self.qlons_da, self.qlats_da,
                self.dset_lons, self.dset_lats, self.bboxes, self.freq_kwargs, self.dir_kwargs, self.stats_dict, self.tgt_freq, self.tgt_dir,
                self.native["ww3"], self.native["ncswan"], self.native["wwm"], self.native["era5"], self.ds1d, self.time_encoding, self.buoy, self.onedir, self.nanf32,
                self.swanfiles, self.triaxysfiles, self.converted["ww3"], self.converted["ncswan"]]

    NAMES = ["dataset", "caller buffer", "query lons (ndarray)", "query lats (ndarray)", "query lons (list)", "query lats (list)",
             "query lons (DataArray)", "query lats (DataArray)", "dset_lons", "dset_lats", "bboxes list", "freq_kwargs", "dir_kwargs",
             "stats dict", "target freq", "target dir list", "native WW3 dataset", "native SWAN-nc dataset", "native WWM dataset", "native ERA5 dataset", "1-D spectra dataset", "time_encoding dict", "single-buoy dataset (scalar lon/lat)", "one-direction DataArray", "float32 C-ordered spectra with NaN bins",
             "list of SWAN file names", "list of TRIAXYS file names", "dataset converted from WW3 earlier", "dataset converted from SWAN-nc earlier"]


def xr_full(da, v):
    import xarray as xr
    return xr.DataArray(np.full((da.sizes["time"], da.sizes["site"]), v), coords={"time": da.time.values, "site": da.site.values}, dims=("time", "site"))


def ops_table():
    from wavespectra.construct import construct_partition
    from wavespectra.construct.frequency import jonswap
    import wavespectra.input.ww3 as iww3
    import wavespectra.input.ncswan as incswan
    import wavespectra.input.wwm as iwwm
    import wavespectra.input.era5 as iera5
    from wavespectra import read_dataset
    w = lambda W: (W.ds.wspd, W.ds.wdir, W.ds.dpt)  # noqa
    t = {
        "hs": lambda W: W.ds.spec.hs(),
        "tp": lambda W: W.ds.spec.tp(),
        "dm": lambda W: W.ds.efth.spec.dm(),
        "dpm": lambda W: W.ds.spec.dpm(),
        "alpha": lambda W: W.ds.efth.spec.alpha(),
        "oned": lambda W: W.ds.efth.spec.oned(),
        "to_energy": lambda W: W.ds.efth.spec.to_energy(),
        "stats": lambda W: W.ds.spec.stats(W.stats_dict, fmin=0.08, fmax=0.3),
        "stats_bad": lambda W: W.ds.spec.stats(["hs", "nope"]),
        "smooth": lambda W: W.ds.efth.spec.smooth(3, 3),
        "smooth_bad": lambda W: W.ds.efth.spec.smooth(2, 3),
        "interp": lambda W: W.ds.efth.spec.interp(freq=W.tgt_freq, dir=W.tgt_dir),
        "interp_ds": lambda W: W.ds.spec.interp(freq=W.tgt_freq),
        "rotate": lambda W: W.ds.efth.spec.rotate(33.0),
        "split": lambda W: W.ds.efth.spec.split(fmin=0.08, fmax=0.27, dmin=40, dmax=200),
        "split_bad": lambda W: W.ds.efth.spec.split(fmin=0.3, fmax=0.1),
        "scale_by_hs": lambda W: W.ds.efth.spec.scale_by_hs("2*hs", hs_min=1.0, tp_max=30.0),
        "ptm1": lambda W: W.ds.spec.partition.ptm1(*w(W), swells=2),
        "ptm2": lambda W: W.ds.spec.partition.ptm2(*w(W), swells=2, smooth=True),
        "ptm3": lambda W: W.ds.spec.partition.ptm3(parts=3),
        "ptm4": lambda W: W.ds.spec.partition.ptm4(*w(W)),
        "ptm5": lambda W: W.ds.spec.partition.ptm5(fcut=0.17),
        "bbox": lambda W: W.ds.spec.partition.bbox(W.bboxes),
        "ptm1_track": lambda W: W.ds.spec.partition.ptm1_track(*w(W), swells=2),
        "sel_nearest_np": lambda W: W.ds.spec.sel(W.qlons_np, W.qlats_np, method="nearest", tolerance=5.0),
        "sel_nearest_list": lambda W: W.ds.spec.sel(W.qlons_list, W.qlats_list, method="nearest", tolerance=5.0),
        "sel_nearest_da": lambda W: W.ds.spec.sel(W.qlons_da, W.qlats_da, method="nearest", tolerance=5.0, dset_lons=W.dset_lons, dset_lats=W.dset_lats),
        "sel_idw_np": lambda W: W.ds.spec.sel(W.qlons_np, W.qlats_np, method="idw", tolerance=15.0),
        "sel_idw_list": lambda W: W.ds.spec.sel(W.qlons_list, W.qlats_list, method="idw", tolerance=15.0, dset_lons=W.dset_lons, dset_lats=W.dset_lats),
        "sel_bbox_np": lambda W: W.ds.spec.sel(W.qlons_np, W.qlats_np, method="bbox", tolerance=1.0),
        "sel_bbox_da": lambda W: W.ds.spec.sel(W.qlons_da, W.qlats_da, method="bbox", tolerance=0.0),
        "sel_exact_miss": lambda W: W.ds.spec.sel(W.qlons_np, W.qlats_np, method=None),
        "construct": lambda W: construct_partition("jonswap", "cartwright", W.freq_kwargs, W.dir_kwargs),
        "jonswap": lambda W: jonswap(freq=W.freq_kwargs["freq"], fp=0.1, hs=2.0),
        "hs_1d": lambda W: W.ds1d.spec.hs(),
        "tp_1d": lambda W: W.ds1d.efth.spec.tp(),
        "stats_1d": lambda W: W.ds1d.spec.stats(["hs", "tm02"]),
        "oned_1d": lambda W: W.ds1d.efth.spec.oned(),
        "from_ww3": lambda W: iww3.from_ww3(W.native["ww3"]),
        "from_ncswan": lambda W: incswan.from_ncswan(W.native["ncswan"]),
        "from_wwm": lambda W: iwwm.from_wwm(W.native["wwm"]),
        "from_era5": lambda W: iera5.from_era5(W.native["era5"]),
        "read_dataset_ww3": lambda W: read_dataset(W.native["ww3"]),
        "from_ww3_again": lambda W: iww3.from_ww3(W.converted["ww3"]),
        "from_ncswan_again": lambda W: incswan.from_ncswan(W.converted["ncswan"]),
        "read_dataset_converted": lambda W: read_dataset(W.converted["ww3"]),
        "read_dataset_ncswan": lambda W: read_dataset(W.native["ncswan"]),
        "to_swan": lambda W: W.ds.spec.to_swan(os.path.join(W.tmp, "a.spec")),
        "to_swan_ntime": lambda W: W.ds.spec.to_swan(os.path.join(W.tmp, "b.spec"), ntime=2),
        "to_swan_buoy": lambda W: W.buoy.spec.to_swan(os.path.join(W.tmp, "c.spec")),
        "to_octopus_buoy": lambda W: W.buoy.spec.to_octopus(os.path.join(W.tmp, "c.oct")),
        "smooth_onedir": lambda W: W.onedir.spec.smooth(3, 1),
        "hs_onedir": lambda W: W.onedir.spec.hs(),
        "smooth_spec_onedir": lambda W: __import__("wavespectra").core.utils.smooth_spec(W.onedir, 3, 1),
        "ptm3_nanf32": lambda W: W.nanf32.spec.partition.ptm3(parts=2),
        "ptm1_nanf32": lambda W: W.nanf32.spec.partition.ptm1(xr_full(W.nanf32, 12.0), xr_full(W.nanf32, 45.0), xr_full(W.nanf32, 80.0), swells=2),
        "hs_nanf32": lambda W: W.nanf32.spec.hs(),
        "to_json": lambda W: W.ds.spec.to_json(os.path.join(W.tmp, "a.json")),
        "to_octopus": lambda W: W.ds.isel(site=[1]).spec.to_octopus(os.path.join(W.tmp, "a.oct")),
        "to_octopus_full": lambda W: W.ds.spec.to_octopus(os.path.join(W.tmp, "b.oct"), site_id="s"),
        "to_funwave": lambda W: W.ds.isel(time=0, site=0).spec.to_funwave(os.path.join(W.tmp, "a.txt")),
        "to_netcdf3": lambda W: W.ds.spec.to_netcdf(os.path.join(W.tmp, "a.nc"), ncformat="NETCDF3_64BIT", compress=False, packed=False),
        "to_netcdf3_kw": lambda W: W.ds.spec.to_netcdf(os.path.join(W.tmp, "k.nc"), ncformat="NETCDF3_64BIT", compress=False, packed=False,
                                                        time_encoding=W.time_encoding, specname="efth"),
        "read_swans_list": lambda W: __import__("wavespectra").input.swan.read_swans(W.swanfiles, int_freq=False),
        "read_swanow_list": lambda W: __import__("wavespectra").input.swan.read_swanow(W.swanfiles),
        "read_hotswan_list": lambda W: __import__("wavespectra").input.swan.read_hotswan(W.swanfiles[:1]),
        "read_triaxys_list": lambda W: __import__("wavespectra").read_triaxys(W.triaxysfiles),
        "to_ww3": lambda W: W.ds.spec.to_ww3(os.path.join(W.tmp, "w.nc"), ncformat="NETCDF3_64BIT", compress=False),
    }
    return t


def run(ctx):
    setup_repo_imports()
    import warnings
    warnings.filterwarnings("ignore")
    import shutil
    import wavespectra  # noqa
    os.makedirs(os.path.join(BUILD, "traces"), exist_ok=True)
    table = ops_table()
    names = sorted(table)
    maxlen = 2
    q = "{" + ",".join('"%s"' % n for n in names) + "}"
    cfg = ws.write_cfg("frame_%d.cfg" % maxlen, "SPECIFICATION Spec\nCONSTANTS OPS = %s\n NOBJ = 27\n MAXLEN = %d\nPROPERTY ArgsImmutable\nINVARIANT EmitInv\n" % (q, maxlen))
    r = ctx.tlc("Frame", cfg, workers=4, label="programs of %d calls over %d operations" % (maxlen, len(names)))
    for inv in r.violated:
        if inv != "EmitInv":
            ctx.violation({"where": "spec", "property": inv}, "Frame.tla: %s violated" % inv, r.cex[:2000])
    programs = [v["prog"] for v in r.vectors]
    ctx.note("programs_from_tlc", len(programs))
    ctx.exhaustive = True
    ctx.rule = ("TLC enumerates all programs of %d calls over %d operations; quick replays a seeded sample (every operation at least once in "
                "first and in second position), thorough all; each on 4 world variants (dataset/query longitude conventions, numpy/dask). "
                "distinct_nontrivial = distinct (program, variant)." % (maxlen, len(names)))
    ctx.rng.shuffle(programs)
    if ctx.quick:
        chosen, first, second = [], set(), set()
        for p in programs:
            if p[0] not in first or p[1] not in second:
                chosen.append(p)
                first.add(p[0])
                second.add(p[1])
        programs = chosen + programs[:40]
    variants = [dict(dset_conv=180, query_conv=360, dask=False), dict(dset_conv=360, query_conv=180, dask=False),
                dict(dset_conv=180, query_conv=180, dask=True), dict(dset_conv=360, query_conv=360, dask=False)]
    lines = []
    index = {}
    tid = 0
    for prog in programs:
        for vi, variant in enumerate(variants):
            if ctx.quick and (hash((tuple(prog), vi, ctx.seed)) % 2) and vi >= 2:
                continue
            W = World(variant, ctx.rng)
            ctx.case((tuple(prog), vi), True)
            seq = 0
            for op in prog:
                objs = W.objects()
                pre = [fingerprint(o) for o in objs]
                raised = 0
                try:
                    out = table[op](W)
                    if hasattr(out, "compute") and variant["dask"]:
                        out.compute()
                except Exception:  # noqa  (a raising call must leave its arguments alone too)
                    raised = 1
                post = [fingerprint(o) for o in objs]
                ids = {}
                pairs = []
                for a, b in zip(pre, post):
                    pairs.append([ids.setdefault(a, len(ids)), ids.setdefault(b, len(ids))])
                lines.append({"tid": tid, "seq": seq, "op": op, "raised": raised, "objs": pairs})
                index[(tid, seq)] = (prog, variant, op)
                seq += 1
            tid += 1
            shutil.rmtree(W.tmp, ignore_errors=True)
    fd, path = tempfile.mkstemp(prefix="frame-", suffix=".ndjson", dir=os.path.join(BUILD, "traces"))
    with os.fdopen(fd, "w") as fh:
        for ln in lines:
            fh.write(json.dumps(ln, separators=(",", ":")) + "\n")
    tc = ws.write_cfg("frametrace.cfg", "SPECIFICATION TSpec\nPOSTCONDITION Verdict\n")
    rt = run_tlc("FrameTrace", tc, workers=1, env={"TRACE_FILE": path}, timeout=1500)
    ctx.states += rt.states
    ctx.transitions += rt.transitions
    ctx.tlc_runs.append({"module": "FrameTrace", "label": "call events x%d" % len(lines), "states": rt.states, "transitions": rt.transitions,
                         "wall_s": round(rt.wall, 2)})
    v = [x for x in rt.vectors if isinstance(x, dict) and x.get("verdict") == "FrameTrace"]
    if not v:
        raise MachineryError("FrameTrace gave no verdict: %s\n%s" % (rt.errors[:5], rt.out[-2000:]))
    v = v[-1]
    if v["accepted"] + len(v["rejected"]) != len(lines):
        raise MachineryError("FrameTrace verdict not total")
    ctx.replayed(v["accepted"])
    os.unlink(path)
    for x in v["rejected"]:
        prog, variant, op = index[(x["tid"], x["seq"])]
        ctx.violation({"op": op, "object": World.NAMES[x["obj"] - 1]},
                      "%s modified its argument '%s' (program %s, dataset lons in %d, query in %d, %s-backed)" %
                      (op, World.NAMES[x["obj"] - 1], prog, variant["dset_conv"], variant["query_conv"], "dask" if variant["dask"] else "numpy"),
                      {"program": prog, "variant": variant})
    if lines:
        ctx.sample({"kind": "call event", "event": lines[0], "objects": World.NAMES})
    ctx.assume("fingerprints cover values, coordinates, attrs, encodings, dims, strides/chunks of every argument object; the results are not inspected here")
