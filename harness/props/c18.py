"""C18 - results reflect the object's current contents, not earlier calls.

Mechanisms.tla models, shaped like the code, the places where state survives between calls (the accessor object xarray
caches per Dataset/DataArray and what SpecDataset binds at creation, the direction-width memo, the attribute table that
inserts on lookup, the watershed's static work area) and TLC checks Fresh (every observation equals what a fresh object
with the same contents gives) over all interleavings of accessor calls, in-place edits, unknown-attribute lookups and
partition calls of two shapes.  The pre-repair mechanisms (snapshot binding, memoised dd) are kept as regression
configurations whose expected result is TLC's shortest stale history.
Binding: Session.tla enumerates every history of access / other call / ds['efth']= / obj['dir']= / unknown statistic /
partition-and-reader calls on other objects up to a length bound; each is replayed on a Dataset and on a DataArray, and
the final observation is compared with the same operation on a freshly constructed object evaluated in a pristine
child process.  H1 traces of the partition calls check that the static work area matches the shape of each call.
"""
import numpy as np

from harness import session as S
from harness import ws
from harness.core import run_forked, setup_repo_imports

EDITACTS = ["access", "call_other", "set_efth", "set_dir", "set_freq", "call_unknown", "other_shape", "reader_calls"]
OBS_OPS = ["hs", "dm", "dspr", "tp", "oned", "smooth33", "rotate45", "ptm3", "dd", "stats_dict", "tm02", "dp", "rmse_partial", "meta", "hp01"]
# sample files of the repository read as "reader calls on other objects": one- and two-dimensional instrument files, model output
READER_SAMPLES = [("read_triaxys", "triaxys.NONDIRSPEC"), ("read_triaxys", "triaxys.DIRSPEC"), ("read_swan", "swanfile.spec"),
                  ("read_octopus", "octopusfile.oct"), ("read_json", "jsonfile.json"), ("read_funwave", "funwavefile.txt"),
                  ("read_spotter", "spotter_20180214.json"), ("read_ww3_station", "ww3station.spec"), ("read_ww3", "ww3file.nc"),
                  ("read_era5", "era5file.nc"), ("read_swan", "swanhot.spec")]


def reader_calls():
    """every reader that runs offline, on the repository's own samples; returns {reader/file: metadata of what it returned}."""
    import wavespectra
    from harness.core import REPO
    out = {}
    for fn, name in READER_SAMPLES:
        try:
            d = getattr(wavespectra, fn)(REPO + "/tests/sample_files/" + name)
            out["%s(%s)" % (fn, name)] = meta_of(d)
        except Exception as ex:  # noqa
            out["%s(%s)" % (fn, name)] = "raised " + type(ex).__name__
    return out


def meta_of(x):
    """name, attributes of the object, of its variables and of its coordinates - the part of a result that is not numbers."""
    import xarray as xr
    norm = lambda a: sorted((str(k), repr(v)) for k, v in dict(a).items())  # noqa
    if isinstance(x, xr.Dataset):
        return {"vars": {k: norm(x[k].attrs) for k in sorted(x.variables)}, "dims": sorted(x.dims)}
    return {"name": str(x.name), "attrs": norm(x.attrs), "coords": {k: norm(x[k].attrs) for k in sorted(x.coords)}, "dims": list(x.dims)}


def meta_observe(obj):
    """metadata of results that are stamped from the library's attribute table, on this object and on a file read now."""
    import xarray as xr
    from wavespectra import read_swan, read_triaxys
    from wavespectra.construct.frequency import jonswap
    from harness.core import REPO
    da = obj["efth"] if isinstance(obj, xr.Dataset) else obj
    s = obj.spec
    out = {"oned": meta_of(s.oned()), "ptm3": meta_of(s.partition.ptm3(parts=2)), "hs": meta_of(s.hs()), "tp": meta_of(s.tp()),
           "stats": meta_of(s.stats(["hs"])), "split": meta_of(s.split(fmin=0.08, fmax=0.3)), "smooth": meta_of(s.smooth()),
           "bbox": meta_of(s.partition.bbox([dict(fmin=0.04, fmax=0.16)])), "fit_jonswap": meta_of(da.isel(time=0).spec.fit_jonswap()),
           "jonswap": meta_of(jonswap(freq=da.freq, fp=0.1, hs=2.0)),
           "read_swan": meta_of(read_swan(REPO + "/tests/sample_files/swanfile.spec")),
           "read_triaxys_2d": meta_of(read_triaxys(REPO + "/tests/sample_files/triaxys.DIRSPEC"))}
    return out


def mech_cfg(binding, memo, steps, attrtab="copy"):
    return ws.write_cfg("mech_%s_%s_%s_%d.cfg" % (binding, memo, attrtab, steps),
                        "SPECIFICATION Spec\nCONSTANTS BINDING = \"%s\"\n DDMEMO = %s\n NVER = 2\n NGRID = 2\n MAXSTEPS = %d\n ATTRTAB = \"%s\"\n"
                        "INVARIANT Fresh\nINVARIANT BufferShapeConsistent\n" % (binding, "TRUE" if memo else "FALSE", steps, attrtab))


def observe(obj, op):
    if op == "meta":
        return meta_observe(obj)
    if op == "rmse_partial":
        # a statistic of two spectra whose time windows overlap only partly (rmse documents that coordinates are broadcast / aligned):
        # how xarray aligns them is process-wide state a library call must not have changed
        da = obj["efth"] if hasattr(obj, "data_vars") else obj
        a, b = da.isel(time=slice(0, 2)), da.isel(time=slice(1, 3)) * 1.5
        return S.project(a.spec.rmse(b))
    if op == "dd":
        return {"dims": (), "coords": {}, "values": np.asarray(float(obj.spec.dd))}
    import xarray as xr
    if isinstance(obj, xr.Dataset):
        if op in ("ptm3",):
            return S.project(obj.spec.partition.ptm3(parts=3))
        if op == "hp01":
            return S.project(S.call(obj["efth"], "hp01", ds_accessor=True))
        return S.project(S.call(obj["efth"], op, ds_accessor=False) if False else call_ds(obj, op))
    return S.project(S.call(obj, op))


def call_ds(ds, op):
    """through the *cached* Dataset accessor of this very object."""
    s = ds.spec
    if op == "stats_dict":
        return s.stats({"hs": {}, "tm02": {}, "dm": {}}, fmin=0.08, fmax=0.32)
    if op == "smooth33":
        return s.smooth(3, 3)
    if op == "rotate45":
        return s.rotate(45.0)
    return getattr(s, op)()


def fresh_table():
    """expected values on freshly constructed objects, computed in a pristine child process."""
    import warnings
    warnings.filterwarnings("ignore")
    import wavespectra  # noqa
    out = {}
    for ver in (1, 2):
        for grid in (1, 2):
            for fg in (1, 2):
                for kind in ("da", "ds"):
                    for op in OBS_OPS:
                        obj = S.make(ver, grid, fgrid=fg)
                        if kind == "ds":
                            obj = obj.to_dataset(name="efth")
                        out[(kind, ver, grid, fg, op)] = observe(obj, op)
    out[("readers",)] = reader_calls()
    return out


STATION_LONS = {1: np.array([-0.5, 10.0, 170.0, -120.0]), 2: np.array([359.5, 10.0, 170.0, 200.0])}
STATION_LATS = np.array([0.0, 5.0, -20.0, 30.0])


def station_efth(v):
    return np.stack([np.full((3, 4), float(k + 1)) + np.eye(3, 4) * (k + 2) for k in range(4)])[None] * np.array([1.0, 0.5])[:, None, None, None] * float(v)


def station_ds(g, v=1):
    import xarray as xr
    n = 4
    return xr.Dataset({"efth": (("time", "site", "freq", "dir"), station_efth(v)), "lon": (("site",), STATION_LONS[g].copy()),
                       "lat": (("site",), STATION_LATS.copy())},
                      coords={"time": np.array(["2021-03-01T00", "2021-03-01T03"], dtype="datetime64[ns]"), "site": np.arange(n),
                              "freq": [0.1, 0.2, 0.3], "dir": [0.0, 90.0, 180.0, 270.0]})


def swan_text(ds, **kw):
    """what to_swan writes for this very object (through its cached accessor)."""
    import os
    import tempfile
    with tempfile.TemporaryDirectory() as tmp:
        f = os.path.join(tmp, "w.spec")
        ds.spec.to_swan(f, **kw)
        with open(f, "rb") as fh:
            return np.frombuffer(fh.read(), dtype=np.uint8).astype(float)


def station_observe(ds):
    out = {}
    out["coords"] = (np.asarray(ds.lon.values, float).copy(), np.asarray(ds.lat.values, float).copy(), np.asarray(ds.efth.values, float).copy())
    for name, kw in (("nearest", dict(method="nearest", tolerance=3.0)), ("idw", dict(method="idw", tolerance=30.0, max_sites=2)),
                     ("bbox", dict(method="bbox", tolerance=1.0))):
        try:
            r = ds.spec.sel([-0.4, 171.0], [0.1, -19.0], **kw)
            out[name] = (np.asarray(r.efth.values, float), np.asarray(r.lon.values, float), np.asarray(r.lat.values, float))
        except Exception as ex:  # noqa
            out[name] = ("raised", type(ex).__name__)
    # the ASCII writers stack a copy of the dataset: the file must hold the present contents, and the lons/lats of this call
    for name, kw in (("to_swan", {}), ("to_swan_at", dict(lons=[20.0, 21.0, 22.0, 23.0], lats=[1.0, 2.0, 3.0, 4.0]))):
        try:
            out[name] = (swan_text(ds, **kw),)
        except Exception as ex:  # noqa
            out[name] = ("raised", type(ex).__name__)
    return out


def station_histories(ctx, hist):
    fresh = {(g, v): station_observe(station_ds(g, v)) for g in (1, 2) for v in (1, 2)}
    done = set()
    for acts, _ in hist:
        if any(a not in ("access", "call_other", "set_dir", "set_efth", "call_unknown") for a, _ in acts):
            continue
        if acts in done:
            continue
        done.add(acts)
        ds = station_ds(1)
        cg, cv = 1, 1
        for a, arg in acts:
            if a == "access":
                ds.spec
            elif a == "set_efth":
                cv = arg
                ds["efth"] = (("time", "site", "freq", "dir"), station_efth(cv))
            elif a == "call_other":
                swan_text(ds, lons=[10.0, 11.0, 12.0, 13.0], lats=[0.0, 0.0, 0.0, 0.0])      # an earlier write: nothing of it may survive
                # ANOTHER dataset (stations in [-180,180]) queried at this dataset's own station arrays: an operation on another object
                try:
                    station_ds(1).spec.sel(ds.lon.values, ds.lat.values, method="nearest", tolerance=400.0)
                    station_ds(1).spec.sel(ds.lon.values, ds.lat.values, method="idw", tolerance=400.0)
                except Exception:  # noqa
                    pass
                ds.spec.sel([9.0], [5.5], method="nearest", tolerance=5.0)
                try:
                    ds.spec.sel([-130.0, -100.0], [20.0, 40.0], method="bbox", tolerance=0.0)     # a box written in [-180,180]
                except ValueError:
                    pass
            elif a == "set_dir":
                cg = arg
                ds["lon"] = (("site",), STATION_LONS[cg].copy())
            elif a == "call_unknown":
                try:
                    ds.spec.sel([9.0], [5.5], method="no_such_method")
                except Exception:  # noqa
                    pass
        got = station_observe(ds)
        for name in got:
            ctx.case(("station", acts, name), bool(acts))
            a, b = got[name], fresh[(cg, cv)][name]
            same = (a[0] == "raised" and b[0] == "raised" and a[1] == b[1]) if (isinstance(a[0], str) or isinstance(b[0], str)) else \
                all(x.shape == y.shape and np.allclose(x, y, rtol=1e-12, atol=1e-12, equal_nan=True) for x, y in zip(a, b))
            if same:
                ctx.replayed()
            else:
                ctx.violation({"history": [x for x, _ in acts], "kind": "ds", "op": "sel_" + name},
                              "%s after history %s differs from a fresh dataset with the same contents" % (("sel(method=%s)" % name) if not name.startswith("to_") else name, [(x, g) for x, g in acts]),
                              {"got_lon": a[1].tolist() if len(a) > 1 and not isinstance(a[0], str) else None,
                               "fresh_lon": b[1].tolist() if len(b) > 1 and not isinstance(b[0], str) else None})


HP_DIRS = np.arange(0.0, 360.0, 15.0)
HP_FREQ = {"A": 0.04 + 0.01 * np.arange(25), "B": 2 * (0.04 + 0.01 * np.arange(25))}
HP_PEAKS = {"A": [(0.08, 200, 0.01, 20, 1.0), (0.18, 40, 0.02, 25, 0.5)], "B": [(0.20, 90, 0.015, 30, 1.0), (0.28, 90, 0.015, 30, 0.6)]}


def hp_array(k):
    """two swell systems on one of two frequency grids of the SAME shape; on grid B the two swells are neighbours that HP01's
    spread criterion decides about (merged on B's own grid)."""
    import xarray as xr
    F, D = np.meshgrid(HP_FREQ[k], HP_DIRS, indexing="ij")
    data = sum(amp * np.exp(-0.5 * ((F - f0) / sf) ** 2 - 0.5 * (((D - d0 + 180) % 360 - 180) / sd) ** 2) for f0, d0, sf, sd, amp in HP_PEAKS[k])
    return xr.DataArray(data, coords={"freq": HP_FREQ[k].copy(), "dir": HP_DIRS.copy()}, dims=("freq", "dir"), name="efth")


def hp_obs(x):
    return np.asarray(x.spec.partition.hp01(swells=3).transpose("part", "freq", "dir").values, float)


def hp_fresh():
    import warnings
    warnings.filterwarnings("ignore")
    import wavespectra  # noqa
    out = {}
    for k in ("A", "B"):
        out[k] = hp_obs(hp_array(k))      # each in ... the same pristine child: A first
    return out


def hp_fresh_b():
    import warnings
    warnings.filterwarnings("ignore")
    import wavespectra  # noqa
    return hp_obs(hp_array("B"))


def hp01_grids(ctx):
    """HP01 on arrays of one shape but different frequency grids, in every order, and on one array whose frequencies are reassigned
    in place: each result is the one a pristine process gives for that array."""
    from harness.core import run_forked
    k1, fa = run_forked(hp_fresh)
    k2, fb = run_forked(hp_fresh_b)
    if k1 == "crash" or k2 == "crash":
        ctx.violation({"where": "process", "kind": "crash", "stage": "hp01"}, "pristine HP01 evaluation crashed")
        return
    fresh = {"A": fa["A"], "B": fb}
    for hist in (("A",), ("B",), ("A", "A"), ("A", "B"), ("B", "A"), ("B", "B"), ("A", "inplace"), ("B", "inplace")):
        for observed in ("A", "B"):
            def scenario(hist=hist, observed=observed):
                import warnings
                warnings.filterwarnings("ignore")
                x = None
                for h in hist:
                    if h == "inplace":
                        x = hp_array("A")
                        hp_obs(x)
                        x["freq"] = HP_FREQ[observed]
                        x.values[...] = hp_array(observed).values
                    else:
                        hp_obs(hp_array(h))
                return hp_obs(x if (x is not None and hist[-1] == "inplace") else hp_array(observed))
            kind, got = run_forked(scenario)
            ctx.case(("hp01-grids", hist, observed), True)
            if kind == "crash":
                ctx.violation({"stage": "hp01", "history": list(hist), "kind": "crash"}, "HP01 history %s crashed" % (hist,))
            elif got.shape == fresh[observed].shape and np.array_equal(got, fresh[observed], equal_nan=True):
                ctx.replayed()
            else:
                ctx.violation({"stage": "hp01", "history": list(hist), "op": "hp01", "observed": observed},
                              "hp01 on array %s after earlier hp01 calls %s differs from a pristine process: %d vs %d non-empty partitions" %
                              (observed, list(hist), int((np.nan_to_num(got).sum(axis=(1, 2)) > 0).sum()), int((np.nan_to_num(fresh[observed]).sum(axis=(1, 2)) > 0).sum())))


def run(ctx):
    setup_repo_imports()
    import warnings
    warnings.filterwarnings("ignore")
    kind, table = run_forked(fresh_table)
    if kind == "crash":
        ctx.violation({"where": "process", "kind": "crash"}, "pristine evaluation crashed: %s" % table)
        return
    import xarray as xr
    import wavespectra  # noqa
    from wavespectra import read_swan
    steps = 6 if ctx.quick else 7
    r = ctx.tlc("Mechanisms", mech_cfg("dynamic", False, steps), workers=8, label="mechanisms as in the tree (dynamic binding, no memo)")
    for inv in r.violated:
        ctx.violation({"where": "spec", "invariant": inv}, "Mechanisms.tla: %s violated for the current mechanisms" % inv, r.cex[:4000])
    # regression configurations: the pre-repair mechanisms must still be seen as stale by TLC
    sens = {}
    for binding, memo, tab in (("snapshot", False, "copy"), ("dynamic", True, "copy"), ("dynamic", False, "live")):
        rr = ctx.tlc("Mechanisms", mech_cfg(binding, memo, 4, tab), workers=4, expect_ok=False,
                     label="regression %s/memo=%s/attrtab=%s (expected: Fresh violated)" % (binding, memo, tab))
        sens["%s/memo=%s/attrtab=%s" % (binding, memo, tab)] = "Fresh" in rr.violated
        if "Fresh" not in rr.violated:
            from harness.core import MachineryError
            raise MachineryError("Mechanisms.tla no longer detects the %s/memo=%s/attrtab=%s staleness (vacuous model?)" % (binding, memo, tab))
    ctx.note("spec_sensitivity", sens)
    maxlen = 3 if ctx.quick else 4
    cfg = S.session_cfg("c18_%d" % maxlen, ["op"], [], EDITACTS, maxlen)
    r = ctx.tlc("Session", cfg, workers=4, label="histories, length <= %d" % maxlen)
    hist = []
    seen = set()
    for v in r.vectors:
        acts = tuple((p["act"], p["arg"]) for p in v["path"] if p["act"] != "call")
        if acts not in seen:
            seen.add(acts)
            hist.append((acts, v["ver"]))
    ctx.note("histories_from_tlc", len(hist))
    ctx.exhaustive = True
    ctx.rule = ("TLC: all interleavings of <= %d mechanism actions; Session.tla: all histories of <= %d edit/call actions; every history x "
                "{Dataset, DataArray} x observed operations (quick: all histories of <= 2 actions and a seeded fifth of the longer ones, a seeded third of the operations) replayed and compared with a fresh object evaluated in a "
                "pristine child process. distinct_nontrivial = distinct (history, kind, operation) with a non-empty history." % (steps, maxlen))
    other = xr.DataArray(np.arange(30.0).reshape(5, 6) % 7, coords={"freq": np.linspace(0.05, 0.25, 5), "dir": np.arange(0.0, 360.0, 60.0)},
                         dims=("freq", "dir"), name="efth")
    from harness.core import REPO
    sample = REPO + "/tests/sample_files/swanfile.spec"
    for acts, ver in hist:
        if ctx.quick and len(acts) >= 3 and hash((acts, ctx.seed)) % 5:
            continue          # quick: every history of one or two actions, a seeded fifth of those of three
        for kind_ in ("ds", "da"):
            obj = S.make(1, 1)
            if kind_ == "ds":
                obj = obj.to_dataset(name="efth")
            cv, cg, cf = 1, 1, 1
            try:
                for a, arg in acts:
                    if a == "access":
                        obj.spec
                    elif a == "call_other":
                        obj.spec.hs()
                        obj.spec.dd
                        obj.spec.dm()
                        S.call(obj["efth"] if kind_ == "ds" else obj, "hp01")      # the merging tables of HP01 are built for this grid now
                    elif a == "set_efth":
                        cv = arg
                        if kind_ == "ds":
                            obj["efth"] = S.make(cv, cg, fgrid=cf)
                        else:
                            obj.values[...] = S.base_values(cv)       # edited in place
                    elif a == "set_dir":
                        cg = arg
                        obj["dir"] = S.GRIDS[cg]
                    elif a == "set_freq":
                        cf = arg
                        obj["freq"] = S.FREQS[cf]
                    elif a == "call_unknown":
                        try:
                            obj.spec.stats(["no_such_statistic"])
                        except ValueError:
                            pass
                    elif a == "reader_calls":
                        rc = reader_calls()
                        ctx.case(("reader_calls", acts), True)
                        bad = [k for k in rc if rc[k] != table[("readers",)][k]]
                        if bad:
                            ctx.violation({"history": [x for x, _ in acts], "op": "reader_calls", "readers": bad[:3]},
                                          "reader calls after history %s return other metadata than in a fresh process: %s" % ([x for x, _ in acts], bad[:3]),
                                          {"got": rc[bad[0]], "fresh": table[("readers",)][bad[0]]})
                        else:
                            ctx.replayed()
                    elif a == "other_shape":
                        other.spec.partition.ptm3(parts=2)
                        read_swan(sample).spec.hs()
                        other.spec.fit_jonswap()          # reaches the construct helpers (scaled, jonswap) on another object
                        for fg in (1, 2):                 # HP01 on OTHER arrays of this object's shape, on either frequency grid
                            S.call(S.make(2, 1, fgrid=fg), "hp01")
            except Exception as ex:  # noqa
                ctx.violation({"history": [a for a, _ in acts], "kind": kind_, "raised": type(ex).__name__},
                              "history %s raised %s" % ([a for a, _ in acts], type(ex).__name__), {"err": str(ex)[:300]})
                continue
            for op in OBS_OPS:
                if ctx.quick and len(acts) >= 2 and hash((acts, kind_, op, ctx.seed)) % 3:
                    continue
                if ctx.quick and op == "meta" and len(acts) >= 2 and not any(a in ("reader_calls", "other_shape", "call_unknown") for a, _ in acts):
                    continue
                if ctx.quick and op == "hp01" and len(acts) >= 2 and not any(a in ("call_other", "other_shape") for a, _ in acts):
                    continue      # HP01's tables could only be left behind by an earlier HP01 call      # metadata is stamped from the attribute table: observed after the histories that reach the table
                ctx.case((acts, kind_, op), bool(acts))
                try:
                    got = observe(obj, op)
                except Exception as ex:  # noqa
                    ctx.violation({"history": [a for a, _ in acts], "kind": kind_, "op": op, "raised": type(ex).__name__},
                                  "%s after history %s raised %s" % (op, list(acts), type(ex).__name__), {"err": str(ex)[:300]})
                    continue
                exp = table[(kind_, cv, cg, cf, op)]
                if op == "meta":
                    bad = [k for k in exp if got.get(k) != exp[k]]
                    if bad:
                        ctx.violation({"history": [a for a, _ in acts], "kind": kind_, "op": "meta", "of": bad[:3]},
                                      "metadata of %s on the %s accessor after history %s differs from a fresh object: %s vs %s" %
                                      (bad[:3], "Dataset" if kind_ == "ds" else "DataArray", [(a, g) for a, g in acts], str(got[bad[0]])[:300], str(exp[bad[0]])[:300]))
                    else:
                        ctx.replayed()
                    continue
                d = S.circular_same(got, exp, 1e-9) if op in ("dm", "dp") else S.same(got, exp, 1e-9)
                if d is None:
                    ctx.replayed()
                else:
                    ctx.violation({"history": [a for a, _ in acts], "kind": kind_, "op": op},
                                  "%s on the %s accessor after history %s differs from a fresh object with the same contents: %s" %
                                  (op, "Dataset" if kind_ == "ds" else "DataArray", [(a, g) for a, g in acts], d), {"version": cv, "grid": cg, "fgrid": cf})
    # ---- the same histories on a station dataset: edits replace the station longitudes in place (version 2 = the same stations
    # written in [0,360] and one of them moved), the earlier call is a selection, the observation is a selection by each method
    station_histories(ctx, hist)
    hp01_grids(ctx)
    if hist:
        ctx.sample({"kind": "history", "actions": [list(x) for x in hist[len(hist) // 2][0]], "observed": OBS_OPS[:5]})
    # static work area across interleaved partition calls of different shapes: H1 traces (pinit event) validated by WatershedTrace
    rng = ctx.rng
    cases = []
    for k in range(24 if ctx.quick else 200):
        nk, nth = rng.choice(((6, 4), (4, 6), (3, 8), (8, 3), (5, 5), (2, 12), (12, 2)))
        e = [rng.randint(1, 900) for _ in range(nk * nth)]
        e[0], e[-1] = 0, 997
        if ws.level_tie_free(e, 100):
            cases.append((nk, nth, 100, e))
    res, events, rc, err = ws.record_traces(cases, sanitize=False)
    if rc == 0 and len(res) == len(cases) == len(events):
        groups = {}
        for i, (c, ev, o) in enumerate(zip(cases, events, res)):
            groups.setdefault(tuple(c[:3]), []).append(ws.trace_lines(i, c, ev, o))
            ctx.case(("ws", i, tuple(c[:2])), True)
        acc, rej = ws.validate_traces(ctx, groups, checkpost=False, label="interleaved shapes")
        ctx.replayed(acc)
        for shape, tid, clause, line in rej:
            ctx.violation({"where": "trace", "clause": clause, "shape": list(shape[:2])},
                          "partition call on shape %s after other shapes rejected at '%s' (static work area not rebuilt?)" % (shape[:2], clause),
                          {"sequence_of_shapes": [c[:2] for c in cases[:tid + 1]][-4:]})
    else:
        ctx.violation({"where": "native", "kind": "driver"}, "driver failed while recording interleaved shapes rc=%d" % rc, err[-2000:])
    ctx.assume("the expected values come from freshly constructed objects in a forked child of a process that has only imported the library")
