"""C19 - partition tracking assigns consistent wave-system identifiers over time.

Tracking.tla: one action per time step shaped like tracking.py (Match = match_consecutive_partitions,
Propagate = id bookkeeping of np_track_partitions); the clauses of the property are invariants.
 1. TLC exhaustive over all histories of T steps on several alphabets (seam crossings, threshold edges,
    wind-sea frequency drops decided by the sea gap, crossing systems with exact distance ties).
 2. spec -> code: every emitted behaviour (exhaustive short ones + simulated long ones) is replayed into
    match_consecutive_partitions (step level), np_track_partitions (history level, thresholds realised through
    dt / wind speed / source distance) and track_partitions (two sites with different histories).
 3. code -> spec: recorded runs on random histories (and all behaviours with distance ties, where the code may
    take either branch) are validated by TrackingTrace.tla.
"""
import json
import math
import os
import tempfile

import numpy as np

from harness import ws
from harness.core import BUILD, MachineryError, run_tlc, setup_repo_imports

G = 9.80665
DD_SEA, DD_SWELL, DF_SWELL = 30, 20, 25
DT = 21600.0   # constant time step (s); makes the Ewans-Kibblewhite sea threshold span the lattice gaps
INV = ["EmptyIffMissing", "UniqueWithinStep", "IdsBelowCount", "NewIdsInOrder", "NewIdsAreFresh",
       "CarriedOnlyWithinThresholds", "RetiredNeverReturns", "CountMatches"]


def cfg(np_, alpha, gaps, T, emit, inv=True):
    txt = ("SPECIFICATION Spec\nCONSTANTS NP = %d\n Alphabet <- %s\n Gaps <- %s\n DdSea = %d\n DdSwell = %d\n DfSwell = %d\n"
           " T = %d\n EMIT = %s\n" % (np_, alpha, gaps, DD_SEA, DD_SWELL, DF_SWELL, T, "TRUE" if emit else "FALSE"))
    if inv:
        txt += "".join("INVARIANT %s\n" % i for i in INV)
    if emit:
        txt += "INVARIANT EmitInv\n"
    return ws.write_cfg("trk_%d_%s_%s_%d_%d.cfg" % (np_, alpha, gaps, T, emit), txt)


def dfp_wsea_ref(wspd, fp, dt, scaling=1.0):
    tmp = 15.8 * (G / wspd) ** 0.57
    t0 = (fp / tmp) ** (-1 / 0.43)
    return scaling * tmp * (t0 + dt) ** (-0.43) - fp


def wind_for_gap(fp0_units, gap):
    """wind speed whose sea threshold (in 0.001 Hz) lies inside the lattice gap that `gap` stands for."""
    lo = math.floor(gap / 10.0) * 10
    target = lo + 5.0
    best = None
    for w in np.linspace(1.5, 70, 1400):
        th = dfp_wsea_ref(w, fp0_units / 1000.0, DT) * 1000.0
        if lo + 1.5 < th < lo + 8.5 and abs(th) < DF_SWELL - 1:
            if best is None or abs(th - target) < abs(best[1] - target):
                best = (float(w), th)
    return best


def arrays(hist, npart):
    T = len(hist)
    fp = np.full((npart, T), np.nan)
    dpm = np.full((npart, T), np.nan)
    for t, h in enumerate(hist):
        for p, (f, d) in enumerate(h["obs"]):
            if f >= 0:
                fp[p, t] = f / 1000.0
                dpm[p, t] = float(d)
    return fp, dpm


def winds(hist):
    """wspd[t] realising hist[t+1].gap given fp0[t]; None if not realisable."""
    T = len(hist)
    w = np.full(T, 10.0)
    for t in range(T - 1):
        f0 = hist[t]["obs"][0][0]
        if f0 < 0:
            continue
        if hist[t + 1]["gap"] == 1:          # Tracking!MISSINGGAP: the wind of the previous step is missing (NaN) or calm (0: inf * 0)
            w[t] = float("nan") if (t + f0) % 20 else 0.0
            continue
        r = wind_for_gap(f0, hist[t + 1]["gap"])
        if r is None:
            return None
        w[t] = r[0]
    return w


def run_np_track(tracking, hist, npart):
    fp, dpm = arrays(hist, npart)
    w = winds(hist)
    if w is None:
        return None
    T = len(hist)
    times = np.datetime64("2020-01-01T00:00:00") + (np.arange(T) * int(DT)).astype("timedelta64[s]")
    dist = DT * G / (4 * math.pi * (DF_SWELL / 1000.0))
    ids, n = tracking.np_track_partitions(times, fp, dpm, w, ddpm_sea_max=DD_SEA, ddpm_swell_max=DD_SWELL,
                                          dfp_sea_scaling=1, dfp_swell_source_distance=dist)
    return np.asarray(ids).astype(int), int(n), (times, fp, dpm, w, dist)


def trace_lines(tid, hist, ids, n):
    lines = []
    T = len(hist)
    for t, h in enumerate(hist):
        lines.append({"tid": tid, "t": t, "obs": [list(o) for o in h["obs"]], "gap": h["gap"] if t else 0,
                      "ids": [int(x) for x in ids[:, t]], "last": 1 if t == T - 1 else 0, "n": int(n)})
    return lines


def validate(ctx, groups, label):
    """groups: npart -> list of traces (each a list of lines). Returns rejected [(np, tid, clause, line)]."""
    rej = []
    os.makedirs(os.path.join(BUILD, "traces"), exist_ok=True)
    for npart, traces in groups.items():
        if not traces:
            continue
        fd, path = tempfile.mkstemp(prefix="trk-", suffix=".ndjson", dir=os.path.join(BUILD, "traces"))
        with os.fdopen(fd, "w") as fh:
            for tr in traces:
                for line in tr:
                    fh.write(json.dumps(line, separators=(",", ":")) + "\n")
        c = ws.write_cfg("trktrace_%d.cfg" % npart,
                         "SPECIFICATION TSpec\nCONSTANTS NP = %d\n Alphabet <- A1\n Gaps <- G1\n DdSea = %d\n DdSwell = %d\n"
                         " DfSwell = %d\n T = 0\n EMIT = FALSE\nPOSTCONDITION Verdict\n" % (npart, DD_SEA, DD_SWELL, DF_SWELL))
        r = run_tlc("MC_TrackingTrace", c, workers=1, env={"TRACE_FILE": path}, timeout=1500)
        ctx.states += r.states
        ctx.transitions += r.transitions
        ctx.tlc_runs.append({"module": "TrackingTrace", "label": "%s NP=%d x%d" % (label, npart, len(traces)),
                             "states": r.states, "transitions": r.transitions, "wall_s": round(r.wall, 2)})
        v = [x for x in r.vectors if isinstance(x, dict) and x.get("verdict") == "TrackingTrace"]
        if not v:
            raise MachineryError("TrackingTrace gave no verdict: %s\n%s" % (r.errors[:6], r.out[-2500:]))
        v = v[-1]
        if v["accepted"] + len(v["rejected"]) != len(traces):
            raise MachineryError("TrackingTrace verdicts not total: %s" % v)
        ctx.replayed(v["accepted"])
        for x in v["rejected"]:
            rej.append((npart, x["tid"], x["clause"], x["line"]))
        os.unlink(path)
    return rej


def compose_ptm1_track(ctx, tracking):
    import xarray as xr
    freq = np.round(np.arange(0.04, 0.405, 0.01), 3)
    dirs = np.arange(0.0, 360.0, 15.0)
    T, S = 8, 2
    ff, dd_ = np.meshgrid(freq, dirs, indexing="ij")

    def bump(f0, d0, amp, sf=0.012, sd=18.0):
        dj = np.abs((dd_ - d0 + 180.0) % 360.0 - 180.0)
        return amp * np.exp(-0.5 * ((ff - f0) / sf) ** 2 - 0.5 * (dj / sd) ** 2)
    arr = np.zeros((T, S, freq.size, dirs.size))
    for t in range(T):
        for s_ in range(S):
            arr[t, s_] = (bump(0.07 + 0.01 * t * (1 if s_ == 0 else 0.5), 210.0, 3.0) +            # swell drifting in frequency
                          bump(0.12, (300.0 + 15.0 * t) % 360.0, 2.0) +                              # swell veering 15 deg per step
                          bump(0.27 - 0.005 * t, 60.0, 0.8 + 0.1 * s_, sf=0.03, sd=25.0))          # wind sea
    times = np.datetime64("2021-06-01T00:00:00") + (np.arange(T) * 10800).astype("timedelta64[s]")
    da = xr.DataArray(arr, coords={"time": times, "site": np.arange(S), "freq": freq, "dir": dirs}, dims=("time", "site", "freq", "dir"), name="efth")
    mk = lambda v: xr.DataArray(np.full((T, S), v), coords={"time": times, "site": np.arange(S)}, dims=("time", "site"))  # noqa
    wspd, wdir, dpt = mk(12.0), mk(60.0), mk(500.0)
    custom = dict(ddpm_sea_max=45, ddpm_swell_max=10, dfp_sea_scaling=4, dfp_swell_source_distance=4.0e5)
    defaults = dict(ddpm_sea_max=30, ddpm_swell_max=20, dfp_sea_scaling=1, dfp_swell_source_distance=1e6)
    settings = [custom] + [dict(defaults, **{k: custom[k]}) for k in custom]
    try:
        parts = da.spec.partition.ptm1(wspd, wdir, dpt, swells=2)
        stats = parts.spec.stats(["fp", "dpm"])
        base = tracking.track_partitions(stats, wspd, **defaults).part_id.values
    except Exception as ex:  # noqa
        ctx.violation({"where": "replay", "fn": "ptm1_track", "raised": type(ex).__name__}, "PTM1 + track_partitions raised on the reference series", {"err": str(ex)[:300]})
        return
    matter = 0
    for st in settings:
        ctx.case(("compose", json.dumps(st, sort_keys=True)), True)
        try:
            exp = tracking.track_partitions(stats, wspd, **st)
            got = da.spec.partition.ptm1_track(wspd, wdir, dpt, swells=2, **st)
        except Exception as ex:  # noqa
            ctx.violation({"where": "replay", "fn": "ptm1_track", "raised": type(ex).__name__}, "ptm1_track raised %s" % type(ex).__name__, {"err": str(ex)[:300], "thresholds": st})
            continue
        matter += int(not np.array_equal(exp.part_id.values, base))
        same = (np.array_equal(got.part_id.transpose(*exp.part_id.dims).values, exp.part_id.values)
                and np.array_equal(got.npart_id.values, exp.npart_id.values)
                and np.allclose(got.efth.transpose(*parts.dims).values, parts.values, rtol=1e-12, equal_nan=True))
        if same:
            ctx.replayed()
        else:
            ctx.violation({"where": "replay", "fn": "ptm1_track", "clause": "thresholds-are-the-callers"},
                          "ptm1_track(%s) does not give the identifiers of track_partitions on the PTM1 statistics with the same thresholds" % st,
                          {"thresholds": st, "got": got.part_id.transpose(*exp.part_id.dims).values.tolist(), "expected": exp.part_id.values.tolist()})
    ctx.note("ptm1_track_threshold_settings_that_change_the_ids", matter)
    if matter < 3:
        from harness.core import MachineryError
        raise MachineryError("the ptm1_track reference series is insensitive to the thresholds (%d of 5 settings change the identifiers)" % matter)


def run(ctx):
    setup_repo_imports()
    import xarray as xr
    from wavespectra.partition import tracking
    rng = ctx.rng
    ctx.rule = ("TLC enumerates all histories of T+1 steps over each alphabet (3 partitions x 3-4 symbols + missing, 2 partitions x "
                "5 symbols) with the clause invariants; emitted behaviours (exhaustive short + simulated long) are replayed into "
                "match_consecutive_partitions, np_track_partitions and track_partitions (2 sites); random histories are validated "
                "by TrackingTrace. distinct_nontrivial = distinct histories with at least one non-missing partition.")
    # ---- 1. invariants, exhaustive
    plan = [(3, "A1", "G4", 2), (3, "A3", "G2", 1), (2, "A4", "G1", 2), (3, "A5", "G1", 1), (2, "A2", "G1", 2), (3, "A3", "G4", 1)]
    if not ctx.quick:
        plan = [(3, "A1", "G1", 2), (3, "A2", "G1", 2), (3, "A3", "G3", 2), (2, "A4", "G2", 3), (3, "A5", "G1", 2),
                (4, "A3", "G1", 1), (2, "A2", "G1", 4), (3, "A4", "G1", 1), (3, "A3", "G5", 2), (3, "A1", "G4", 2)]
    for (npart, alpha, gaps, T) in plan:
        r = ctx.tlc("MC_Tracking", cfg(npart, alpha, gaps, T, False), label="invariants NP=%d %s %s T=%d" % (npart, alpha, gaps, T))
        for inv in r.violated:
            ctx.violation({"where": "spec", "invariant": inv, "alphabet": alpha}, "Tracking.tla: %s violated" % inv, r.cex[:5000])
    ctx.exhaustive = True
    # ---- 2. behaviours: exhaustive short + simulated long
    behaviours = []
    short = [(3, "A1", "G4", 1), (3, "A3", "G2", 1), (2, "A4", "G1", 1), (3, "A5", "G1", 1), (3, "A2", "G1", 1), (3, "A3", "G4", 1)]
    for (npart, alpha, gaps, T) in short:
        r = ctx.tlc("MC_Tracking", cfg(npart, alpha, gaps, T, True, inv=False), workers=4,
                    label="emit NP=%d %s T=%d" % (npart, alpha, T))
        behaviours += [(npart, v) for v in r.vectors]
    # in -simulate mode TLC evaluates invariants on every generated successor, so each trace of depth T+1 prints
    # ~|successors| complete behaviours that share a prefix and differ in the last step
    nsim = 8 if ctx.quick else 80
    for (npart, alpha, gaps) in [(3, "A1", "G1"), (3, "A3", "G5"), (2, "A4", "G2"), (3, "A5", "G4"), (4, "A2", "G1"), (3, "A4", "G1")]:
        for T in ((6,) if ctx.quick else (4, 8, 12)):
            r = ctx.tlc("MC_Tracking", cfg(npart, alpha, gaps, T, True, inv=True), workers=1, simulate="num=%d" % nsim,
                        depth=T + 1, seed=ctx.seed + T, expect_ok=False, label="simulate NP=%d %s T=%d" % (npart, alpha, T))
            for inv in r.violated:
                if inv != "EmitInv":
                    ctx.violation({"where": "spec", "invariant": inv, "alphabet": alpha}, "Tracking.tla: %s violated" % inv, r.cex[:5000])
            behaviours += [(npart, v) for v in r.vectors]
    cap = 3000 if ctx.quick else 40000
    if len(behaviours) > cap:
        keep = [b for b in behaviours if len(b[1]["hist"]) > 3]
        rest = [b for b in behaviours if len(b[1]["hist"]) <= 3]
        rng.shuffle(rest)
        rng.shuffle(keep)
        keep = keep[:cap * 2 // 3]
        behaviours = keep + rest[:cap - len(keep)]
    ctx.note("behaviours_from_tlc", len(behaviours))
    tie_groups = {}
    skipped = 0
    tid = 0
    raised = 0
    for npart, v in behaviours:
        hist = v["hist"]
        key = ("b", npart, json.dumps([(h["obs"], h["gap"]) for h in hist]))
        ctx.case(key, any(o[0] >= 0 for h in hist for o in h["obs"]))
        has_tie = any(h["tie"] for h in hist)
        # step level: match_consecutive_partitions with exact off-lattice thresholds
        fp, dpm = arrays(hist, npart)
        for t in range(1, len(hist)):
            m = tracking.match_consecutive_partitions(fp[:, t - 1:t + 1], dpm[:, t - 1:t + 1], float("nan") if hist[t]["gap"] == 1 else hist[t]["gap"] / 1000.0,
                                                      DF_SWELL / 1000.0, DD_SEA, DD_SWELL)
            if not hist[t]["tie"] and [int(x) for x in m] != hist[t]["m"]:
                ctx.violation({"where": "replay", "fn": "match_consecutive_partitions", "np": npart},
                              "match_consecutive_partitions differs from Tracking!Match",
                              {"prev": hist[t - 1]["obs"], "cur": hist[t]["obs"], "gap": hist[t]["gap"],
                               "spec": hist[t]["m"], "impl": [int(x) for x in m]})
        # history level
        try:
            out = run_np_track(tracking, hist, npart)
        except Exception as ex:  # noqa
            raised += 1
            ctx.violation({"where": "replay", "fn": "np_track_partitions", "raised": type(ex).__name__},
                          "np_track_partitions raised %s on a valid history: %s" % (type(ex).__name__, str(ex)[:200]),
                          {"hist": hist})
            continue
        if out is None:
            skipped += 1
            continue
        ids, n, _ = out
        if has_tie:
            tie_groups.setdefault(npart, []).append(trace_lines(tid, hist, ids, n))
            tid += 1
        else:
            exp = np.array([h["ids"] for h in hist]).T
            if not np.array_equal(exp, ids) or n != v["n"]:
                ctx.violation({"where": "replay", "fn": "np_track_partitions", "np": npart},
                              "np_track_partitions identifiers differ from Tracking.tla's behaviour",
                              {"hist": hist, "impl_ids": ids.tolist(), "impl_n": n, "spec_n": v["n"]})
            else:
                ctx.replayed()
    if behaviours:
        ctx.sample({"kind": "TLC behaviour replayed", "np": behaviours[-1][0], "hist": behaviours[-1][1]["hist"][:4],
                    "n": behaviours[-1][1]["n"]})
    ctx.note("skipped_unrealisable_sea_threshold", skipped)
    for (npart, tidr, clause, line) in validate(ctx, tie_groups, "tie behaviours"):
        ctx.violation({"where": "trace", "fn": "np_track_partitions", "clause": clause, "kind": "tie-behaviour"},
                      "recorded np_track_partitions run rejected by TrackingTrace (%s)" % clause, {"np": npart, "line": line})

    # ---- two sites through track_partitions: each site must follow its own behaviour
    long_b = [b for b in behaviours if len(b[1]["hist"]) >= 5 and not any(h["tie"] for h in b[1]["hist"])]
    rng.shuffle(long_b)
    npairs = 0
    for i in range(0, min(len(long_b) - 1, 60 if ctx.quick else 600), 2):
        (n1, v1), (n2, v2) = long_b[i], long_b[i + 1]
        if n1 != n2 or len(v1["hist"]) != len(v2["hist"]):
            continue
        w1, w2 = winds(v1["hist"]), winds(v2["hist"])
        if w1 is None or w2 is None:
            continue
        f1, d1 = arrays(v1["hist"], n1)
        f2, d2 = arrays(v2["hist"], n1)
        T = len(v1["hist"])
        times = np.datetime64("2020-01-01T00:00:00") + (np.arange(T) * int(DT)).astype("timedelta64[s]")
        stats = xr.Dataset({"fp": (("site", "part", "time"), np.stack([f1, f2])),
                            "dpm": (("site", "part", "time"), np.stack([d1, d2]))},
                           coords={"time": times, "site": [0, 1], "part": np.arange(n1)})
        wspd = xr.DataArray(np.stack([w1, w2]), dims=("site", "time"), coords={"time": times, "site": [0, 1]})
        dist = DT * G / (4 * math.pi * (DF_SWELL / 1000.0))
        try:
            out = tracking.track_partitions(stats, wspd, DD_SEA, DD_SWELL, 1, dist)
            got = out.part_id.transpose("site", "part", "time").values.astype(int)
            gn = out.npart_id.values.astype(int)
        except Exception as ex:  # noqa
            ctx.violation({"where": "replay", "fn": "track_partitions", "raised": type(ex).__name__},
                          "track_partitions raised %s on a valid two-site history" % type(ex).__name__, {"err": str(ex)[:300]})
            break
        for s, v in enumerate((v1, v2)):
            exp = np.array([h["ids"] for h in v["hist"]]).T
            ctx.case(("site", s, json.dumps(v["hist"])), True)
            if not np.array_equal(exp, got[s]) or int(gn[s]) != v["n"]:
                ctx.violation({"where": "replay", "fn": "track_partitions", "site": s},
                              "track_partitions: a site's identifiers differ from its own single-site behaviour (sites not independent?)",
                              {"hist": v["hist"], "impl": got[s].tolist(), "n": [int(gn[s]), v["n"]]})
            else:
                ctx.replayed()
        npairs += 1
    ctx.note("two_site_pairs", npairs)

    # ---- 3. random histories, code -> spec
    groups = {}
    index = {}
    nrand = 120 if ctx.quick else 1500
    fps = [80, 90, 100, 110, 120, 130, 150, 180, 200]
    for k in range(nrand):
        npart = rng.choice((2, 3, 4, 4))
        T = rng.randint(2, 12 if ctx.quick else 50)
        hist = []
        state = [(rng.choice(fps), rng.randrange(0, 360, 5)) if rng.random() < 0.7 else (-1, -1) for _ in range(npart)]
        for t in range(T):
            new = []
            for (f, d) in state:
                u = rng.random()
                if f < 0:
                    new.append((rng.choice(fps), rng.randrange(0, 360, 5)) if u < 0.3 else (-1, -1))
                elif u < 0.12:
                    new.append((-1, -1))
                elif u < 0.2:
                    new.append((rng.choice(fps), rng.randrange(0, 360, 5)))
                else:
                    new.append((max(50, f + rng.choice((-20, -10, 0, 0, 10, 20))), (d + rng.choice((-25, -15, -5, 0, 5, 15, 25))) % 360))
            if rng.random() < 0.25:
                rng.shuffle(new)     # partitions change rank (ordered by Hs in the library): crossings
            state = new
            hist.append({"obs": [list(o) for o in state], "gap": rng.choice((-5, -15, -5, -15, 1)) if t else 0})
        try:
            out = run_np_track(tracking, hist, npart)
        except Exception as ex:  # noqa
            ctx.violation({"where": "replay", "fn": "np_track_partitions", "raised": type(ex).__name__},
                          "np_track_partitions raised %s on a valid history: %s" % (type(ex).__name__, str(ex)[:200]), {"hist": hist})
            continue
        if out is None:
            continue
        ids, n, _ = out
        ctx.case(("r", json.dumps(hist)), True)
        groups.setdefault(npart, []).append(trace_lines(tid, hist, ids, n))
        index[tid] = (hist, ids.tolist(), n)
        tid += 1
    for (npart, tidr, clause, line) in validate(ctx, groups, "random histories"):
        hist, ids, n = index.get(tidr, (None, None, None))
        ctx.violation({"where": "trace", "fn": "np_track_partitions", "clause": clause},
                      "recorded np_track_partitions run rejected by TrackingTrace (%s)" % clause,
                      {"np": npart, "line": line, "hist": hist, "ids": ids, "n": n})
    if index:
        k = sorted(index)[0]
        ctx.sample({"kind": "random history validated by TrackingTrace", "hist": index[k][0][:5], "ids": index[k][1]})
    # ---- 4. the accessor entry point: ptm1_track = Track o PTM1 with the caller's thresholds.  The identifiers it returns must be
    # those track_partitions gives for the statistics of the PTM1 partitions under the SAME four thresholds (each of which is
    # shown to matter on this series: with it at its default the identifiers differ)
    compose_ptm1_track(ctx, tracking)
    # the sea threshold formula itself (closed form) against the library's
    for w in (3.0, 10.0, 25.0):
        for f in (0.08, 0.2):
            a, b = dfp_wsea_ref(w, f, DT), float(tracking.dfp_wsea(w, f, DT))
            if abs(a - b) > 1e-9:
                ctx.violation({"where": "replay", "fn": "dfp_wsea"}, "dfp_wsea differs from the published closed form", {"w": w, "f": f, "ref": a, "impl": b})
            # the scaling multiplies the predicted peak frequency (not the change): scaling * f_pred - fp
            for sc in (0.5, 1.05, 4.0):
                ctx.case(("dfp_wsea", w, f, sc), True)
                a, b = dfp_wsea_ref(w, f, DT, sc), float(tracking.dfp_wsea(w, f, DT, scaling=sc))
                if abs(a - b) > 1e-9:
                    ctx.violation({"where": "replay", "fn": "dfp_wsea", "scaling": sc}, "dfp_wsea(scaling=%g) differs from the closed form scaling*f_pred - fp" % sc,
                                  {"w": w, "f": f, "ref": a, "impl": b})
                else:
                    ctx.replayed()
    ctx.assume("thresholds handed to the implementation are off the lattice; |sea threshold| < swell threshold (normalisation = swell threshold)")
    ctx.assume("exact distance ties are nondeterministic in the spec; such behaviours are validated by TrackingTrace instead of by equality")
    ctx.assume("ptm1_track is covered only through track_partitions (its statistics come from real spectra and are off the lattice)")
