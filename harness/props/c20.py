"""C20 - valid spectra never crash the library, down to the native code.

Native half (Watershed.tla): every array access of the transcription carries a ghost bounds check (BoundsOK), the
neighbour table is inside the buffers and equals circular 8-adjacency (TableOK), the routine terminates (liveness
under weak fairness).  TLC: every shape up to 8x8 over the pattern family of MC_Watershed!PatternSet, several ihmax.
Binding: all enumerated inputs + seeded random sequences (alternating shapes, constants in between, up to 40x40)
through specpart.c compiled with ASan+UBSan; outputs must equal the spec's on the enumerated ones, and H1 traces
(incl. the static work-area state after partinit) are validated for a sample.

Python half (Robust.tla): TLC enumerates the outcome table (grid class x spectrum class x operation x argument
class) and checks it is total/consistent; each case is realised with a representative spectrum and the real
outcome must be in the allowed set (finite | nan | ValueError), never another exception.
"""
import math
import os
from concurrent.futures import ThreadPoolExecutor

import numpy as np

from harness import ws
from harness.core import MachineryError, run_tlc, setup_repo_imports

F8 = [0.05, 0.1, 0.15, 0.2, 0.25, 0.3, 0.4, 0.5]
FREQS = {1: [0.1], 2: [0.1, 0.2], 3: [0.1, 0.2, 0.3], 8: F8}


def shapes_for(tier, rng):
    allshapes = [(a, b) for a in range(1, 9) for b in range(1, 9)]
    if tier == "thorough":
        return [(s, ih) for s in allshapes for ih in (1, 2, 3, 100)]
    small = [(s, ih) for s in allshapes if s[0] * s[1] <= 9 for ih in (1, 3)]
    big = [s for s in allshapes if s[0] * s[1] > 9]
    rng.shuffle(big)
    return small + [(s, (1, 2, 3, 100)[i % 4]) for i, s in enumerate(big[:10])] + [((8, 8), 100), ((1, 8), 2), ((8, 1), 2)]


def native_half(ctx):
    rng = ctx.rng
    jobs = shapes_for(ctx.tier, rng)

    def one(job):
        (nk, nth), ih = job
        cfg = ws.mc_cfg(nk, nth, ih, (0, 1), tworun=False, emit=True, patterns=True,
                        invariants=["BoundsOK", "TableOK", "AllLabelled", "OnePerRegionalMax"])
        return job, run_tlc("MC_Watershed", cfg, workers=2, timeout=1200)

    all_cases, all_exp = [], []
    with ThreadPoolExecutor(max_workers=7) as ex:
        for job, r in ex.map(one, jobs):
            (nk, nth), ih = job
            ctx.states += r.states
            ctx.transitions += r.transitions
            ctx.tlc_runs.append({"module": "MC_Watershed", "label": "patterns %dx%d ihmax=%d" % (nk, nth, ih),
                                 "states": r.states, "transitions": r.transitions, "wall_s": round(r.wall, 2),
                                 "violated": r.violated})
            if r.violated:
                ctx.violation({"where": "spec", "invariant": r.violated[0], "shape": [nk, nth], "ihmax": ih},
                              "TLC: %s violated on the transcription of specpart.c" % r.violated[0], r.cex[:5000])
                continue
            if not r.ok:
                raise MachineryError("TLC failed for %s: %s" % (job, r.errors[:5]))
            for v in r.vectors:
                all_cases.append((nk, nth, ih, v["e"]))
                all_exp.append(v)
    # liveness: the routine terminates (weak fairness on the step relation), a few shapes
    for (nk, nth, ih) in ([(3, 3, 3), (2, 5, 100)] if ctx.quick else [(3, 3, 3), (2, 5, 100), (4, 4, 2), (1, 6, 5), (6, 1, 5), (5, 5, 1)]):
        cfg = ws.mc_cfg(nk, nth, ih, (0, 1), False, False, invariants=[], patterns=True, spec="FairSpec", prop="Terminates")
        r = ctx.tlc("MC_Watershed", cfg, workers=4, label="termination %dx%d ihmax=%d" % (nk, nth, ih))
        if r.violated:
            ctx.violation({"where": "spec", "property": "Terminates", "shape": [nk, nth]}, "watershed does not terminate", r.cex[:4000])
    # replay all enumerated inputs in ONE sanitizer process, in shuffled order (static buffers are reallocated between shapes)
    order = list(range(len(all_cases)))
    rng.shuffle(order)
    cases = [all_cases[i] for i in order]
    res, rc, err = ws.run_driver(cases, sanitize=True)
    if rc != 0 or len(res) != len(cases):
        ctx.violation({"where": "native", "kind": "sanitizer", "phase": "enumerated"},
                      "AddressSanitizer/UBSan report or crash in specpart.c (rc=%d) after %d/%d cases" % (rc, len(res), len(cases)),
                      {"stderr": err[-4000:], "next_case": cases[len(res)] if len(res) < len(cases) else None,
                       "prev_case": cases[len(res) - 1][:3] if res else None})
    for k, (p, npart) in enumerate(res):
        v = all_exp[order[k]]
        c = cases[k]
        ctx.case(("n",) + tuple(c[:3]) + tuple(c[3]), len(set(c[3])) > 1)
        if list(p) != v["p"] or npart != v["np"]:
            ctx.violation({"where": "replay", "shape": [c[0], c[1]], "ihmax": c[2], "e": c[3]},
                          "C routine output differs from the specification (in-process sequence of shapes)",
                          {"spec": v["p"], "impl": list(p), "npart": [v["np"], npart]})
        else:
            ctx.replayed()
    if all_exp:
        ctx.sample({"kind": "pattern vector", "shape": all_cases[0][:3], "e": all_cases[0][3], "labels": all_exp[0]["p"]})
    # random sequences under the sanitizers (no spec output at these sizes: monitor only + sampled H1 traces)
    nrand = 20000 if ctx.quick else 400000
    seq = []
    shapes_pool = [(rng.randint(1, 40), rng.randint(1, 40)) for _ in range(60)] + [(1, 1), (1, 2), (2, 1), (40, 40), (6, 4), (4, 6), (3, 8), (8, 3)]
    total_bins = 0
    while len(seq) < nrand and total_bins < (2_000_000 if ctx.quick else 60_000_000):
        nk, nth = rng.choice(shapes_pool)
        ih = rng.choice((1, 2, 3, 5, 50, 100, 1000))
        kind = rng.random()
        n = nk * nth
        if kind < 0.12:
            e = [rng.choice((0, 5))] * n
        elif kind < 0.3:
            e = [0] * n
            e[rng.randrange(n)] = 9
        elif kind < 0.6:
            e = [rng.randint(0, 3) for _ in range(n)]
        else:
            e = [rng.randint(0, 997) for _ in range(n)]
        seq.append((nk, nth, ih, e))
        total_bins += n
    res, rc, err = ws.run_driver(seq, sanitize=True)
    ctx.note("sanitizer_random_cases", len(seq))
    if rc != 0 or len(res) != len(seq):
        k = len(res)
        ctx.violation({"where": "native", "kind": "sanitizer", "phase": "random-sequence"},
                      "AddressSanitizer/UBSan report or crash in specpart.c (rc=%d) at case %d of a random sequence" % (rc, k),
                      {"stderr": err[-4000:], "case_shape": seq[k][:3] if k < len(seq) else None,
                       "prev_shape": seq[k - 1][:3] if k else None,
                       "case_const": (len(set(seq[k][3])) == 1) if k < len(seq) else None})
    else:
        for c, (p, npart) in zip(seq, res):
            ctx.case(("r",) + tuple(c[:3]) + (hash(tuple(c[3])),), len(set(c[3])) > 1)
            const = len(set(c[3])) == 1
            bad = (const and (set(p) != {1} or npart != 1)) or (not const and (min(p) < 1 or max(p) != npart))
            if bad:
                ctx.violation({"where": "native", "kind": "labels-out-of-range", "shape": list(c[:2]), "ihmax": c[2]},
                              "label map not in 1..npart (or not the single partition of a constant spectrum)", {"case": c[:3], "npart": npart})
    # sampled traces (<= 12x12) from an interleaved sequence, validated step by step
    tcases = []
    for c in seq:
        if c[0] * c[1] <= 144 and c[2] <= 100 and ws.level_tie_free(c[3], c[2]):
            tcases.append(c)
        if len(tcases) >= (40 if ctx.quick else 400):
            break
    res, events, rc, err = ws.record_traces(tcases, sanitize=True)
    if rc == 0 and len(res) == len(tcases) == len(events):
        groups = {}
        for i, (c, ev, o) in enumerate(zip(tcases, events, res)):
            groups.setdefault(tuple(c[:3]), []).append(ws.trace_lines(i, c, ev, o))
        acc, rej = ws.validate_traces(ctx, groups, checkpost=False, label="C20 trace")
        ctx.replayed(acc)
        for shape, tid, clause, line in rej:
            ctx.violation({"where": "trace", "clause": clause, "shape": list(shape[:2]), "ihmax": shape[2]},
                          "recorded execution rejected by WatershedTrace at '%s'" % clause, {"case": tcases[tid]})
    else:
        ctx.violation({"where": "native", "kind": "sanitizer", "phase": "trace-recording"}, "sanitizer failure while recording traces rc=%d" % rc, err[-3000:])


# ------------------------------------------------------------------ Python half
def representative(nf, dirs, spectrum, rng):
    import xarray as xr
    F = FREQS[nf]
    if dirs == "none":
        D = None
    elif dirs == "one":
        D = [float(rng.choice((0, 90, 355)))]
    elif dirs == "two":
        s = rng.choice((0, 45, 170))
        D = [float(s), float(s + 180)]
    else:
        s = rng.choice((0, 5, 22.5))
        D = [s + 45.0 * k for k in range(8)]
    nd = len(D) if D else 1
    g = np.zeros(nf)
    if spectrum == "zero":
        pass
    elif spectrum == "const":
        g[:] = 2.0
    elif spectrum == "single":
        g[1 if nf >= 3 else 0] = 3.0
    elif spectrum == "peakfirst":
        g[:] = [5.0 / (i + 1) for i in range(nf)]
    elif spectrum == "peaklast":
        g[-1] = 5.0
    elif spectrum == "onealpha":
        if nf == 8:
            g[:] = [0.1, 0.2, 0.3, 0.5, 1.0, 4.0, 0.8, 0.2]   # peak at 0.3 Hz: only 0.5 Hz lies in (1.35 fp, 2 fp)
        elif nf >= 3:
            g[:] = [0.5, 3.0, 0.4]
        else:
            g[:] = 1.0
    elif spectrum == "ordinary":
        if nf == 8:
            g[:] = [0.1, 0.6, 1.5, 4.0, 1.2, 0.5, 0.2, 0.1]
        elif nf == 3:
            g[:] = [0.5, 3.0, 0.4]
        else:
            g[:] = [1.0, 2.0][:nf]
    elif spectrum == "twopeaks":
        if nf == 8:
            g[:] = [0.1, 3.0, 0.4, 0.3, 2.0, 0.5, 0.2, 0.1]
        elif nf == 3:
            g[:] = [0.2, 2.0, 0.3]
        else:
            g[:] = [2.0, 1.0][:nf]
    if D is None:
        return xr.DataArray(g, coords={"freq": F}, dims=("freq",), name="efth")
    if spectrum == "single":
        h = np.zeros(nd)
        h[0] = 1.0
    elif spectrum in ("zero", "const"):
        h = np.ones(nd)
    else:
        h = np.array([1.0 + ((3 * j) % nd) * 0.5 for j in range(nd)])
    E = np.outer(g, h)
    return xr.DataArray(E, coords={"freq": F, "dir": D}, dims=("freq", "dir"), name="efth")


def classify(r):
    import xarray as xr
    vals = []

    def add(x):
        if isinstance(x, (tuple, list)):
            for y in x:
                add(y)
        elif isinstance(x, xr.Dataset):
            for v in x.data_vars.values():
                add(v)
        elif isinstance(x, xr.DataArray):
            vals.append(np.asarray(x.values, dtype=float))
        else:
            vals.append(np.asarray(x, dtype=float))
    add(r)
    if any(np.isinf(v).any() for v in vals):
        return "inf"
    if any(np.isnan(v).any() for v in vals):
        return "nan"
    return "finite"


def call(da, op, arg):
    s = da.spec
    F = da.freq.values
    nf = F.size
    if op == "tp_raw":
        return s.tp(smooth=False)
    if op == "smooth":
        w = {"ok": (3, 3), "win1": (1, 1), "evenwindow": (2, 3)}[arg]
        return s.smooth(freq_window=w[0], dir_window=w[1])
    if op == "interp":
        if arg == "ok":
            fnew = (F[:-1] + F[1:]) / 2 if nf > 1 else F
        else:
            fnew = np.concatenate([[F[0] / 2], F, [F[-1] * 1.5]])
        return s.interp(freq=fnew, dir=(da.dir.values if "dir" in da.dims and da.dir.size > 1 else None))
    if op == "rotate":
        return s.rotate(37.0)
    if op == "split":
        if arg == "ok":
            return s.split(fmin=float(F[0]), fmax=float(F[-1])) if nf > 1 else s.split(fmin=float(F[0]))
        if arg == "offgrid":
            return s.split(fmin=float(F[0] + F[-1]) / 2 * 0.93)
        if arg == "inverted_f":
            return s.split(fmin=0.3, fmax=0.1)
        if arg == "equal_f":        # "fmax needs to be greater than fmin": equal limits are rejected, on a grid node or between two
            f = float(F[nf // 2]) if (nf + int(F[0] * 1000)) % 2 else float(F[0] + F[-1]) / 2 * 0.97
            return s.split(fmin=f, fmax=f)
        if arg == "equal_d":
            return s.split(dmin=90.0, dmax=90.0)
        return s.split(dmin=200, dmax=100)
    if op == "scale_by_hs":
        return s.scale_by_hs("2*hs")
    if op == "stats":
        if arg == "ok":
            return s.stats(["hs", "tm01"])
        if arg == "unknown_name":
            return s.stats(["hs", "no_such_stat"])
        if arg == "not_a_container":
            return s.stats(42)
        return s.stats(["hs", "tm01"], names=["a"])
    if op in ("ptm1", "ptm2", "ptm4"):
        import xarray as xr
        kw = dict(wspd=xr.DataArray(12.0), wdir=xr.DataArray(40.0), dpt=xr.DataArray(60.0))
        if op == "ptm4":
            return s.partition.ptm4(**kw)
        if arg == "more_than_detected":
            kw["swells"] = 6
        if arg == "ihmax1":
            kw["ihmax"] = 1
        return getattr(s.partition, op)(**kw)
    if op == "ptm3":
        kw = {}
        if arg == "more_than_detected":
            kw["parts"] = 7
        if arg == "ihmax1":
            kw["ihmax"] = 1
        return s.partition.ptm3(**kw)
    if op == "ptm5":
        return s.partition.ptm5(fcut=float(F[0] + F[-1]) / 2 * 1.01 if nf > 1 else float(F[0]))
    if op == "bbox":
        if arg == "ok":
            return s.partition.bbox([dict(fmin=0.01, fmax=0.12, dmin=10, dmax=100), dict(fmin=0.13, fmax=0.6)])
        return s.partition.bbox([dict(fmin=0.01, fmax=0.3, dmin=10, dmax=200), dict(fmin=0.2, fmax=0.6, dmin=100, dmax=300)])
    return getattr(s, op)()


def python_half(ctx):
    import warnings
    warnings.filterwarnings("ignore")
    cfg = ws.write_cfg("robust.cfg", "SPECIFICATION Spec\nINVARIANT Total\nINVARIANT InvalidRejected\n"
                       "INVARIANT NeverOtherException\nINVARIANT NanOnlyWhenDegenerate\nINVARIANT ValidNondegenerateIsFinite\n")
    r = ctx.tlc("Robust", cfg, workers=1, label="outcome table")
    for inv in r.violated:
        ctx.violation({"where": "spec", "invariant": inv}, "Robust.tla: %s violated" % inv, r.cex[:3000])
    vecs = r.vectors
    if ctx.quick:
        # every (op,arg,dirs-class) with all spectra on a seeded half of the nf classes
        keep = []
        for v in vecs:
            h = hash((v["op"], v["arg"], v["dirs"], v["spectrum"], v["nf"], ctx.seed)) % 4
            if h == 0 or (v["nf"] == 3 and h == 1):
                keep.append(v)
        vecs = keep
    ctx.note("outcome_table_cases", len(r.vectors))
    import random

    def realise(vecs=vecs, seed=ctx.seed):
        rng = random.Random(seed)
        outs = []
        for v in vecs:
            da = representative(v["nf"], v["dirs"], v["spectrum"], rng)
            # optional leading dimensions: absent, a time axis with ONE record, two records at one site (the outcome of a valid
            # spectrum does not depend on them)
            lead = rng.choice(("none", "none", "time1", "time2site1"))
            if lead == "time1":
                da = da.expand_dims(time=[np.datetime64("2020-01-01T00:00:00")])
            elif lead == "time2site1":
                import xarray as xr
                t = np.array(["2020-01-01T00:00:00", "2020-01-01T03:00:00"], dtype="datetime64[s]")
                da = xr.concat([da, da], dim=xr.DataArray(t, dims="time", name="time")).expand_dims(site=[7], axis=1)
            # non-index (scalar) coordinates left behind by a selection - isel(dir=k) / sel(site=..) keep the label as a 0-d
            # coordinate: a frequency spectrum that still carries a scalar `dir` is a 1-D spectrum like any other
            if rng.choice(("none", "none", "scalars")) == "scalars":
                sc_ = {k: val for k, val in (("dir", 90.0), ("site", 3), ("lon", 170.5), ("lat", -40.0)) if k not in da.dims}
                da = da.assign_coords(**sc_)
            # storage: a valid spectrum is valid whether it sits in memory or is dask-backed with its spectral dimensions in several
            # chunks (what split(rechunk=False), a concatenation of bands or open_dataset(chunks=...) leave behind)
            if rng.choice(("numpy", "numpy", "lazy_split")) == "lazy_split":
                da = da.chunk({d_: max(1, da.sizes[d_] // 2) for d_ in ("freq", "dir") if d_ in da.dims})
            try:
                out = classify(call(da, v["op"], v["arg"]))
            except ValueError:
                out = "ValueError"
            except Exception as ex:  # noqa
                out = "raised:" + type(ex).__name__
            outs.append((out, lead))
        return outs
    from harness.core import run_forked
    kind, outs = run_forked(realise)
    if kind == "crash":
        ctx.violation({"where": "python", "kind": "interpreter-crash"},
                      "the interpreter died while the library processed valid spectra (native memory corruption?): %s" % outs)
        return
    rng2 = random.Random(ctx.seed)
    for v, (out, lead) in zip(vecs, outs):
        da = representative(v["nf"], v["dirs"], v["spectrum"], rng2)
        rng2.choice(("none", "none", "time1", "time2site1"))       # keep the generator in step with realise()
        rng2.choice(("none", "none", "scalars"))
        rng2.choice(("numpy", "numpy", "lazy_split"))
        if v["op"] == "hmax" and v["spectrum"] == "zero" and lead == "time2site1" and out == "nan":
            ctx.replayed()      # with a real time axis the wave count of a zero-energy record is 0/0: degenerate, NaN allowed
            continue
        ctx.case(("py", v["nf"], v["dirs"], v["spectrum"], v["op"], v["arg"]), v["spectrum"] not in ("zero",))
        if out in v["allowed"]:
            ctx.replayed()
        else:
            ctx.violation({"where": "python", "op": v["op"], "arg": v["arg"], "dirs": v["dirs"],
                           "nf": v["nf"], "spectrum": v["spectrum"], "outcome": out},
                          "%s(%s) on %s/%s/nf=%d: outcome %s not in allowed %s" %
                          (v["op"], v["arg"], v["dirs"], v["spectrum"], v["nf"], out, sorted(v["allowed"])),
                          {"freq": FREQS[v["nf"]], "values": np.asarray(da.values).tolist(),
                           "dir": (da.dir.values.tolist() if "dir" in da.dims else None)})
    # ---- interp_like between spectra of different rank: every combination of 1-D / 2-D self and other returns a result on the
    # other's frequencies (and keeps the own directions when the other has none)
    import xarray as xr
    rng3 = random.Random(ctx.seed + 1)
    for spectrum in ("ordinary", "twopeaks", "zero"):      # (energy wholly outside the target range is degenerate: not part of this stage)
        two = representative(8, "many", spectrum, rng3)
        one = representative(8, "none", spectrum, rng3)
        fo = np.array([0.06, 0.11, 0.19, 0.27])
        others = {"2-D": xr.DataArray(np.ones((4, 3)), coords={"freq": fo, "dir": [10.0, 130.0, 250.0]}, dims=("freq", "dir"), name="efth"),
                  "1-D": xr.DataArray(np.ones(4), coords={"freq": fo}, dims=("freq",), name="efth")}
        for sname, me in (("2-D", two), ("1-D", one)):
            for oname, other in others.items():
                if sname == "1-D" and oname == "2-D":
                    continue        # a frequency spectrum cannot be given directions
                for okind, o in (("DataArray", other), ("Dataset", other.to_dataset())):
                    ctx.case(("interp_like", spectrum, sname, oname, okind), True)
                    try:
                        out = me.spec.interp_like(o)
                        ok = np.allclose(out.freq.values, fo) and classify(out) in ("finite", "nan" if spectrum == "zero" else "finite")
                        what = "result on frequencies %s, values %s" % (out.freq.values, classify(out))
                    except Exception as ex:  # noqa
                        ok, what = False, "raised %s: %s" % (type(ex).__name__, str(ex)[:120])
                    if ok:
                        ctx.replayed()
                    else:
                        ctx.violation({"where": "python", "op": "interp_like", "self": sname, "other": oname, "other_kind": okind, "spectrum": spectrum},
                                      "interp_like of a %s spectrum onto a %s %s: %s" % (sname, oname, okind, what))
    # ---- rmse between two valid spectra on the same grid: a finite non-negative number for 2-D and for 1-D spectra, with and
    # without leading dimensions
    for spectrum in ("ordinary", "twopeaks", "zero"):
        for dirs in ("many", "one", "none"):
            for nf in (1, 3, 8):
                me = representative(nf, dirs, spectrum, rng3)
                for lead in ("none", "time2"):
                    a = me if lead == "none" else xr.concat([me, me * 0.5], dim=xr.DataArray(np.array(["2020-01-01T00", "2020-01-01T03"], dtype="datetime64[s]"), dims="time", name="time"))
                    ctx.case(("rmse", spectrum, dirs, nf, lead), True)
                    try:
                        out = a.spec.rmse(a * 1.5 + 0.25)
                        v = np.asarray(out.values, float)
                        # the error is relative to the energy of self: for a zero-energy self it is a ratio over 0 (degenerate, anything but an exception)
                        ok = (spectrum == "zero" or bool(np.all(np.isfinite(v)) and np.all(v >= 0))) and not (set(out.dims) & {"freq", "dir"})
                        what = "values %s dims %s" % (v.ravel()[:3], out.dims)
                    except Exception as ex:  # noqa
                        ok, what = False, "raised %s: %s" % (type(ex).__name__, str(ex)[:120])
                    if ok:
                        ctx.replayed()
                    else:
                        ctx.violation({"where": "python", "op": "rmse", "dirs": dirs, "nf": nf, "spectrum": spectrum, "lead": lead},
                                      "rmse of two valid %s spectra (dirs=%s, nf=%d, lead=%s): %s" % (spectrum, dirs, nf, lead, what))
    # ---- valid spectra partitioned from several threads at once (what a threaded dask scheduler does): a result, not a crash
    from harness.props.c04 import _threaded_maps
    n, nk, nth, workers = (24, 40, 48, 8) if ctx.quick else (96, 48, 72, 16)
    kindc, valc = run_forked(_threaded_maps, ctx.seed, n, nk, nth, workers, timeout=900)
    ctx.case(("py", "threads", n, nk, nth, workers), True)
    if kindc == "crash":
        ctx.violation({"where": "python", "kind": "interpreter-crash", "stage": "concurrent callers"},
                      "the interpreter died while %d threads partitioned valid spectra concurrently (%s)" % (workers, valc))
    elif valc[0]:
        ctx.violation({"where": "python", "kind": "concurrent-result", "stage": "concurrent callers"},
                      "%d of %d watershed calls from %d concurrent threads raised or returned another spectrum's map" % (valc[0], valc[1], workers))
    else:
        ctx.replayed(valc[1])
    if vecs:
        ctx.sample({"kind": "outcome-table case", "case": vecs[len(vecs) // 2]})


def run(ctx):
    setup_repo_imports()
    import wavespectra  # noqa
    ctx.rule = ("native: every shape up to 8x8 (quick: all shapes <= 9 bins + a seeded sample) x MC_Watershed!PatternSet x ihmax, "
                "all replayed in one ASan/UBSan process in shuffled order, plus random shape-alternating sequences up to 40x40; "
                "python: every case of Robust.tla's outcome table realised by a representative. "
                "distinct_nontrivial = distinct non-constant native inputs + distinct non-zero python cases.")
    ctx.exhaustive = not ctx.quick
    native_half(ctx)
    python_half(ctx)
    ctx.assume("the sanitizer build of specpart.c is a monitor on the replay; the bounds argument is BoundsOK in Watershed.tla")
    ctx.assume("crsd (undocumented), hp01 (experimental) and plotting are outside the outcome table")


def replay(ctx, rep):
    setup_repo_imports()
    import wavespectra  # noqa
    k = rep["key"]
    print("stored violation:", rep["what"])
    if k.get("where") == "python":
        da = representative(k["nf"], k["dirs"], k["spectrum"], ctx.rng)
        try:
            print("outcome now:", classify(call(da, k["op"], k["arg"])))
        except Exception as ex:
            print("outcome now: raised", type(ex).__name__, ex)
    else:
        print(rep.get("detail"))
