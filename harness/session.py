"""Replay of Session.tla behaviours on the real library: object construction per (contents, representation),
the operation table, and the projection of results to labelled values."""
import numpy as np

from harness import ws

NLEAD = 3
FREQ = np.array([0.05, 0.1, 0.15, 0.2, 0.25, 0.3, 0.4])          # irregular top, > 0.333 (tail)
GRIDS = {1: np.arange(0.0, 360.0, 45.0),                          # full circle, 8 x 45
         2: np.arange(0.0, 180.0, 22.5)}                          # same size, other spacing (partial circle)


def base_values(version, seed=0):
    """integer-valued spectra (lead, freq, dir): smooth two-system shapes so that watershed basins are unambiguous."""
    rng = np.random.RandomState(1000 * version + seed)
    nf, nd = FREQ.size, 8
    out = np.zeros((NLEAD, nf, nd))
    for k in range(NLEAD):
        for _ in range(2):
            ci, cj, a = rng.randint(1, nf - 1), rng.randint(0, nd), rng.randint(40, 90)
            for i in range(nf):
                for j in range(nd):
                    dj = min((j - cj) % nd, (cj - j) % nd)
                    out[k, i, j] += max(0, a - 9 * (abs(i - ci) + dj) ** 2)
        out[k] += rng.randint(0, 3, size=(nf, nd))
    return out


FREQS = {1: FREQ, 2: np.array([0.04, 0.07, 0.1, 0.14, 0.19, 0.25, 0.36])}      # second frequency grid for in-place edits of 'freq'


def make(version=1, grid=1, seed=0, fgrid=1):
    import xarray as xr
    vals = base_values(version, seed)
    da = xr.DataArray(vals, coords={"time": np.arange(NLEAD), "freq": FREQS[fgrid].copy(), "dir": GRIDS[grid].copy()},
                      dims=("time", "freq", "dir"), name="efth")
    return da


def wind_args(da):
    """one wind / depth record per time step, chosen by the time LABEL (so a selection of records keeps its own winds); scalars
    for an object without a time dimension."""
    import xarray as xr
    W, D, P = np.array([8.0, 14.0, 20.0]), np.array([10.0, 100.0, 250.0]), np.array([30.0, 200.0, 3000.0])
    if "time" not in da.dims:
        return dict(wspd=14.0, wdir=100.0, dpt=200.0)
    t = da.time
    k = np.asarray(t.values)
    k = (k.astype(int) if np.issubdtype(k.dtype, np.integer) else np.arange(k.size)) % 3
    return dict(wspd=xr.DataArray(W[k], coords={"time": t}, dims=("time",)), wdir=xr.DataArray(D[k], coords={"time": t}, dims=("time",)),
                dpt=xr.DataArray(P[k], coords={"time": t}, dims=("time",)))


def _readonly(d):
    d = d.copy(deep=True)
    d.values.flags.writeable = False
    return d


# Session.tla's derivation steps: the object becomes what a public operation / an xarray selection returned
DERIVE = {
    "isel_time_list": lambda d: d.isel(time=[1]),
    "isel_time_scalar": lambda d: d.isel(time=1),
    "sel_dirs": lambda d: d.isel(dir=slice(None, None, 2)),
    "sel_dir_one": lambda d: d.isel(dir=[2]),
    "isel_freq_slice": lambda d: d.isel(freq=slice(1, 6)),
    "sel_freq_one": lambda d: d.isel(freq=[3]),
    "smooth": lambda d: d.spec.smooth(),
    "interp": lambda d: d.spec.interp(freq=np.array([0.06, 0.1, 0.16, 0.22, 0.3, 0.38]), dir=np.arange(0.0, 360.0, 30.0)),
    "split": lambda d: d.spec.split(fmin=0.08, fmax=0.32),
    "rotate": lambda d: d.spec.rotate(45.0),
    "ptm3": lambda d: d.spec.partition.ptm3(parts=2),
    "bbox": lambda d: d.spec.partition.bbox([dict(fmin=0.04, fmax=0.16)]),
    "oned": lambda d: d.spec.oned(),
    "times2": lambda d: d * 2.0,
    "concat": lambda d: __import__("xarray").concat([d, d.assign_coords(time=d.time + 3) * 0.5], "time"),
    "expand_site": lambda d: d.expand_dims(site=[5]),
    "expand_site_last": lambda d: d.expand_dims(site=[5], axis=-1),
    "readonly": _readonly,
    "sortby_time_desc": lambda d: d.sortby("time", ascending=False),
    "where": lambda d: d.where(d > 3, 0.0),
    "scale_by_hs": lambda d: d.spec.scale_by_hs("2*hs"),
}


def _via(writer, reader, ext, **kw):
    def f(d):
        import os
        import tempfile
        import wavespectra
        stamps = np.datetime64("2020-01-01T00:00:00") + (np.arange(d.sizes["time"]) * 10800).astype("timedelta64[s]")
        ds = d.assign_coords(time=stamps).to_dataset(name="efth")
        with tempfile.TemporaryDirectory() as tmp:
            path = os.path.join(tmp, "x." + ext)
            getattr(ds.spec, writer)(path, **kw)
            out = getattr(wavespectra, reader)(path).load()
        return out.efth
    return f


DERIVE.update({"via_swan": _via("to_swan", "read_swan", "spec"), "via_json": _via("to_json", "read_json", "json"),
               "via_netcdf": _via("to_netcdf", "read_netcdf", "nc", ncformat="NETCDF3_64BIT", compress=False, packed=False),
               "via_octopus": _via("to_octopus", "read_octopus", "oct")})


def fresh(x):
    """a freshly constructed object with the same labelled values: new C-contiguous buffer, leading dimensions first, own coordinate
    arrays, no scalar coordinates, no attributes; the dtype is kept (it is part of the contents)."""
    import xarray as xr
    order = [d for d in x.dims if d not in ("freq", "dir")] + [d for d in ("freq", "dir") if d in x.dims]
    y = x.transpose(*order)
    if hasattr(y.data, "compute"):
        y = y.compute()
    return xr.DataArray(np.array(y.values), coords={d: np.array(y[d].values) for d in order}, dims=order, name="efth")


def apply_rep(da, act):
    """one representation action of Session.tla on a DataArray."""
    import xarray as xr
    lead = [d for d in da.dims if d not in ("freq", "dir")]
    if act == "transpose_df":
        order = list(da.dims)
        i, j = order.index("freq"), order.index("dir")
        order[i], order[j] = order[j], order[i]
        return da.transpose(*order)
    if act == "transpose_lead":
        if list(da.dims)[0] in ("freq", "dir"):
            return da.transpose(*(lead + ["freq", "dir"]))
        return da.transpose(*([d for d in da.dims if d in ("freq", "dir")] + lead))
    if act == "fortran":
        return da.copy(data=np.asfortranarray(da.values))
    if act == "strided":
        big = np.zeros(tuple(2 * s for s in da.shape), dtype=da.dtype)
        view = big[tuple(slice(None, None, 2) for _ in da.shape)]
        view[...] = da.values
        return da.copy(data=view)
    if act == "cast32":
        return da.astype("float32")
    if act == "bigendian":
        return da.copy(data=np.asarray(da.values).astype(da.dtype.newbyteorder(">")))
    if act in ("roll1", "roll_seam"):
        nd = da.sizes["dir"]
        # stored sequence starts one bin later / starts at the last direction (seam between the first two stored)
        idx = list(range(1, nd)) + [0] if act == "roll1" else [nd - 1] + list(range(nd - 1))
        cur = np.argsort(np.argsort(da.dir.values))      # positions in ascending order
        asc = da.isel(dir=np.argsort(da.dir.values))
        return asc.isel(dir=idx)
    if act == "flip":
        return da.isel(dir=slice(None, None, -1))
    if act == "sortdir":
        return da.sortby("dir")
    if act == "chunk_lead":
        return da.chunk({lead[0]: 1})
    if act == "chunk_freq":
        return da.chunk({"freq": 3})
    if act == "chunk_dir":
        return da.chunk({"dir": 3})
    if act == "chunk_all1":
        return da.chunk({d: 1 for d in da.dims})
    raise ValueError(act)


STAT_OPS = ["hs", "hs_notail", "hrms", "tm01", "tm02", "dm", "dspr", "tp", "tp_raw", "fp", "dp", "dpm", "dpspr", "swe", "sw", "gw", "goda",
            "alpha", "gamma", "momf2", "uss", "uss_x", "mss", "oned", "to_energy", "momd", "fdspr", "stats_dict"]
TRANSFORM_OPS = ["smooth33", "smooth35", "interp_fd", "interp_like", "rotate45", "rotate_m20", "split_f", "split_fd", "scale_by_hs"]
RULE_PART_OPS = ["ptm4", "ptm5", "bbox"]
WATERSHED_OPS = ["ptm1", "ptm2", "ptm3", "ptm1_smooth", "ptm2_smooth", "ptm3_smooth"]
ALL_OPS = STAT_OPS + TRANSFORM_OPS + RULE_PART_OPS + WATERSHED_OPS + ["rmse_rolled"]
# iterative least-squares fits (results compared at 1e-4: float32 outputs of an optimiser) and the dispersion helpers
FIT_OPS = ["fit_jonswap", "fit_gaussian", "celerity", "wavelen"]
# a statistic of two spectra: the other operand is a function of the labelled spectrum, stored in another order
PAIR_OPS = ["rmse_rolled"]
TRACK_OPS = ["ptm1_track"]      # winds are chunked like the spectra (see call)


def call(da, op, ds_accessor=False):
    """run operation `op` on a DataArray (or through the Dataset accessor)."""
    import xarray as xr
    s = da.to_dataset(name="efth").spec if ds_accessor else da.spec
    tgt_f = np.array([0.04, 0.075, 0.1, 0.18, 0.3, 0.35, 0.45])
    tgt_d = np.arange(10.0, 370.0, 30.0) % 360
    if op == "hs_notail":
        return s.hs(tail=False)
    if op == "tp_raw":
        return s.tp(smooth=False)
    if op == "momf2":
        return s.momf(2)
    if op == "momd":
        a, b = s.momd(1)
        return xr.concat([a, b], dim="comp")
    if op == "stats_dict":
        return s.stats({"hs": {}, "tm02": {}, "dm": {}}, fmin=0.08, fmax=0.32)
    if op == "smooth33":
        return s.smooth(3, 3)
    if op == "smooth35":
        return s.smooth(3, 5)
    if op == "interp_fd":
        return s.interp(freq=tgt_f, dir=tgt_d)
    if op == "interp_like":
        other = xr.DataArray(np.zeros((tgt_f.size, tgt_d.size)), coords={"freq": tgt_f, "dir": np.sort(tgt_d)}, dims=("freq", "dir"), name="efth")
        return s.interp_like(other)
    if op == "rotate45":
        return s.rotate(45.0)
    if op == "rotate_m20":
        return s.rotate(-20.0)
    if op == "split_f":
        return s.split(fmin=0.08, fmax=0.27)
    if op == "split_fd":
        return s.split(fmin=0.1, fmax=0.3, dmin=40.0, dmax=200.0)
    if op == "scale_by_hs":
        return s.scale_by_hs("0.5*hs+1", hs_min=1.0)
    if op not in ("ptm1", "ptm1_smooth", "ptm2", "ptm2_smooth", "ptm3", "ptm3_smooth", "ptm4", "ptm5", "bbox", "ptm1_track", "rmse_rolled", "hp01"):
        return getattr(s, op)()
    w = wind_args(da) if op in ("ptm1", "ptm1_smooth", "ptm2", "ptm2_smooth", "ptm4", "hp01") else None
    if op == "hp01":
        return s.partition.hp01(w["wspd"], w["wdir"], w["dpt"], swells=2)
    if op == "rmse_rolled":
        # the other operand is a function of the labels (not a shifted copy: a shift would pair up the same way in every storage
        # order), stored with the directions rolled by three bins and the frequencies reversed
        other = da * (1.0 + da.freq * 2.0)
        if "dir" in other.dims:
            other = (other * (1.5 + np.cos(np.deg2rad(da.dir)) + 0.25 * np.sin(np.deg2rad(2 * da.dir)))).transpose(*da.dims)
            other = other.roll(dir=3, roll_coords=True)
        other = other.isel(freq=slice(None, None, -1))
        return s.rmse(other)
    if op == "ptm1_track":
        # tracking needs real time stamps: three-hourly records
        stamps = np.datetime64("2020-01-01T00:00:00") + (np.arange(da.sizes["time"]) * 10800).astype("timedelta64[s]")
        da = da.assign_coords(time=stamps)
        s = da.to_dataset(name="efth").spec if ds_accessor else da.spec
        w = wind_args(da)
        if getattr(da, "chunks", None) and "time" in da.dims:
            tch = dict(zip(da.dims, da.chunks))["time"]
            w = {k: v.chunk({"time": tch}) for k, v in w.items()}       # the winds come from the same chunked dataset
        r = s.partition.ptm1_track(w["wspd"], w["wdir"], w["dpt"], swells=2)
        return r[["part_id", "npart_id"]].astype(float)
    if op == "ptm1":
        return s.partition.ptm1(w["wspd"], w["wdir"], w["dpt"], swells=3)
    if op == "ptm1_smooth":
        return s.partition.ptm1(w["wspd"], w["wdir"], w["dpt"], swells=2, smooth=True)
    if op == "ptm2":
        return s.partition.ptm2(w["wspd"], w["wdir"], w["dpt"], swells=2)
    if op == "ptm2_smooth":
        return s.partition.ptm2(w["wspd"], w["wdir"], w["dpt"], swells=2, smooth=True)
    if op == "ptm3_smooth":
        return s.partition.ptm3(parts=3, smooth=True, freq_window=3, dir_window=3)
    if op == "ptm3":
        return s.partition.ptm3(parts=3)
    if op == "ptm4":
        return s.partition.ptm4(w["wspd"], w["wdir"], w["dpt"])
    if op == "ptm5":
        return s.partition.ptm5(fcut=0.17)
    if op == "bbox":
        return s.partition.bbox([dict(fmin=0.04, fmax=0.16, dmin=10.0, dmax=190.0), dict(fmin=0.17, fmax=0.5)])
    return getattr(s, op)()


def project(res):
    """labelled view of a result: canonical dimension order, sorted coordinates, float64 numpy; name/attrs ignored."""
    import xarray as xr
    if isinstance(res, xr.Dataset):
        return {k: project(res[k]) for k in sorted(res.data_vars)}
    if not isinstance(res, xr.DataArray):
        return {"dims": (), "coords": {}, "values": np.asarray(res, dtype=float)}
    r = res
    if hasattr(r.data, "compute"):
        r = r.compute()
    for d in ("dir", "freq"):
        if d in r.dims:
            r = r.sortby(d)
    order = sorted([d for d in r.dims if d not in ("part", "freq", "dir", "comp")]) + [d for d in ("comp", "part", "freq", "dir") if d in r.dims]
    r = r.transpose(*order)
    return {"dims": tuple(order), "coords": {d: np.asarray(r[d].values, dtype=float) for d in order if d in r.coords and d != "time"},
            "values": np.asarray(r.values, dtype=float)}


def same(a, b, rel, abs_=1e-9):
    """compare two projections; returns None or a short description of the first difference."""
    if isinstance(a, dict) and "values" not in a:
        if set(a) != set(b):
            return "variables differ: %s vs %s" % (sorted(a), sorted(b))
        for k in a:
            d = same(a[k], b[k], rel, abs_)
            if d:
                return "%s: %s" % (k, d)
        return None
    if a["dims"] != b["dims"]:
        return "dims %s vs %s" % (a["dims"], b["dims"])
    if a["values"].shape != b["values"].shape:
        return "shape %s vs %s" % (a["values"].shape, b["values"].shape)
    for d in a["coords"]:
        if d in b["coords"] and not np.allclose(a["coords"][d], b["coords"][d], rtol=1e-6, atol=1e-6):
            return "coordinate %s differs: %s vs %s" % (d, a["coords"][d][:6], b["coords"][d][:6])
    x, y = a["values"], b["values"]
    nanx, nany = np.isnan(x), np.isnan(y)
    if not np.array_equal(nanx, nany):
        return "NaN pattern differs (%d vs %d NaNs)" % (nanx.sum(), nany.sum())
    scale = np.nanmax(np.abs(y)) if y.size and not np.all(nany) else 1.0
    diff = np.abs(np.where(nanx, 0, x) - np.where(nany, 0, y))
    tol = abs_ + rel * np.maximum(np.abs(np.where(nany, 0, y)), 1e-3 * scale)
    if (diff > tol).any():
        k = np.unravel_index(np.argmax(diff - tol), diff.shape)
        return "values differ at %s: %.9g vs %.9g (max abs diff %.3g)" % (k, x[k], y[k], diff.max())
    return None


def circular_same(a, b, rel):
    """for direction-valued statistics: compare on the circle."""
    x, y = a["values"], b["values"]
    if x.shape != y.shape:
        return "shape"
    nan = np.isnan(x) | np.isnan(y)
    if not np.array_equal(np.isnan(x), np.isnan(y)):
        return "NaN pattern differs"
    d = np.abs((np.where(nan, 0, x) - np.where(nan, 0, y) + 180.0) % 360.0 - 180.0)
    if (d > max(1e-6, rel * 360)).any():
        return "directions differ by up to %.6g deg" % d.max()
    return None


def session_cfg(name, ops, repacts, editacts, maxlen, nver=2, ngrid=2, emit=True, derives=()):
    q = lambda xs: "{" + ",".join('"%s"' % x for x in xs) + "}"  # noqa
    txt = ("SPECIFICATION Spec\nCONSTANTS OPS = %s\n REPACTS = %s\n EDITACTS = %s\n MAXLEN = %d\n NVER = %d\n NGRID = %d\n DERIVES = %s\n"
           "INVARIANT ResultIsFunctionOfContents\nINVARIANT DerivedKeepFreq\nPROPERTY CallsDoNotModify\n" % (q(ops), q(repacts), q(editacts), maxlen, nver, ngrid, q(derives)))
    if emit:
        txt += "INVARIANT EmitInv\n"
    return ws.write_cfg("session_%s.cfg" % name, txt)
