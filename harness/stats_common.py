"""MC_Stats runs shared by C01, C02 and C10."""
import json

from harness import ws

INVS = ["OnedConsistent", "TailRule", "HrmsHsRelation", "CauchySchwarz", "PeriodBounds",
        "VertexBetweenNeighbours", "PeakIsInterior", "NoPeakWhenMonotone", "DpIsACoordinate"]


def cfg(vals, fsets, dsets, emit, small, invs=INVS):
    txt = "SPECIFICATION Spec\nCONSTANTS Vals = {%s}\n FSETS = {%s}\n DSETS = {%s}\n EMIT = %s\n SMALL = %s\n" % (
        ",".join(map(str, vals)), ",".join(map(str, fsets)), ",".join(map(str, dsets)),
        "TRUE" if emit else "FALSE", "TRUE" if small else "FALSE")
    for i in invs:
        txt += "INVARIANT %s\n" % i
    if emit:
        txt += "INVARIANT EmitInv\n"
    name = "st_%s_%s_%s_%d%d.cfg" % ("".join(map(str, vals)), "".join(map(str, fsets)), "".join(map(str, dsets)), emit, small)
    return ws.write_cfg(name, txt)


def run_configs(ctx, configs, emit=True):
    """configs: list of (vals, fsets, dsets, small). Returns list of vectors; records spec-level violations."""
    out = []
    for (vals, fsets, dsets, small) in configs:
        r = ctx.tlc("MC_Stats", cfg(vals, fsets, dsets, emit, small), workers=1 if emit else 8,
                    label="lattice vals=%s F=%s D=%s" % (vals, fsets, dsets))
        for inv in r.violated:
            if inv != "EmitInv":
                ctx.violation({"where": "spec", "invariant": inv}, "MC_Stats: %s violated" % inv, r.cex[:4000])
        out += r.vectors
    return out


def group_by_grid(vectors):
    groups = {}
    for v in vectors:
        groups.setdefault((tuple(v["F"]), tuple(v["D"])), []).append(v)
    return groups


def fp_of(v):
    return json.dumps([v["F"], v["D"], v["E"]])


def nontrivial(v):
    flat = [x for row in v["E"] for x in (row if isinstance(row, list) else [row])]
    return len(set(flat)) > 1
