"""The SWAN ASCII file as a writer/reader protocol (spec/SwanFile.tla, SwanReaderOps.tla, SwanFileTrace.tla).

SwanFile.tla: TLC enumerates every content (NODATA / ZERO / FACTOR block per time and location) within bounds, lets the
line-level writer produce the file body and the one-line-lookahead reader consume it, and checks ParseCorrect, the
lookahead discipline, WriterWellFormed and termination.  Binding, both directions:
  spec -> code   every content TLC emitted is written by the REAL writer (SwanSpecFile in write mode + write_spectra); the
                 body of the real file, lexed into line kinds, must be the file of the specification (the file is the
                 writer's trace), and what the real reader returns must be the specification's `out`;
  code -> spec   every read (those files, the repository's sample files, files of the C13 reference encoder read through
                 read_swan) is recorded - the harness wraps SwanSpecFile.__init__/read/_read_header and the file object -
                 and the event stream is validated by SwanFileTrace.tla, which steps the same reader semantics.
Findings are C13 findings (the SWAN reader "returns what the file says"): keys carry where="SwanFileTrace"/"SwanFile".
"""
import json
import os
import re
import tempfile

import numpy as np

from harness import ws
from harness.core import BUILD, REPO, run_tlc

TIME_RE = re.compile(r"^\s*\d{8}\.\d{6}")
NUM_RE = re.compile(r"^[\s0-9eE+\-.]+$")


def lex(line):
    for kw in ("NODATA", "ZERO", "FACTOR"):
        if kw in line:
            return kw
    if TIME_RE.match(line):
        return "time"
    if line.strip() and NUM_RE.match(line.rstrip("\n")):
        return "num"
    return "other"


class _Fid:
    """the file object of a SwanSpecFile with every line it hands out recorded (index of the body line, 0 at end of file), whichever way
    the reader asks for lines (readline, iteration, readlines, read): a reader written differently must still work under the recorder."""

    def __init__(self, fid, rec):
        self._fid, self._rec, self.n = fid, rec, 0

    def _log(self, line):
        if line:
            self.n += 1
            self._rec["last_rl"].append(self.n)
            self._rec["lines"].append(line)
        else:
            self._rec["last_rl"].append(0)
        return line

    def readline(self, *a):
        return self._log(self._fid.readline(*a))

    def __iter__(self):
        return self

    def __next__(self):
        line = self._fid.readline()
        if not line:
            self._log(line)
            raise StopIteration
        return self._log(line)

    def readlines(self, *a):
        out = self._fid.readlines(*a)
        for ln in out:
            self._log(ln)
        return out

    def read(self, *a):
        txt = self._fid.read(*a)
        for ln in txt.splitlines(True):
            self._log(ln)
        return txt

    def __getattr__(self, k):
        return getattr(self._fid, k)

    def __bool__(self):
        return bool(self._fid)


class Recorder:
    """wraps wavespectra.core.swan.SwanSpecFile at class level; one trace per file opened for reading."""

    def __init__(self):
        self.traces = []          # list of dicts: events, lines (as the reader saw them), path, nloc, nf, timed
        self._orig = {}

    def __enter__(self):
        import wavespectra.core.swan as cs
        C = cs.SwanSpecFile
        self._C = C
        self._orig = {k: getattr(C, k) for k in ("__init__", "read", "_read_header", "readall")}
        rec_of = {}
        me = self

        def init(obj, filename, *a, **k):
            me._orig["__init__"](obj, filename, *a, **k)
            writing = (k.get("freqs") is not None) or (len(a) >= 1 and a[0] is not None)
            if writing or not obj.fid:
                return
            rec = {"events": [], "lines": [], "last_rl": [], "path": str(filename), "nloc": len(obj.x), "nf": len(obj.freqs),
                   "timed": 1 if isinstance(obj.times, list) else 0, "nrec": 0, "buf0": obj.buf, "returned": []}
            obj.fid = _Fid(obj.fid, rec)
            rec_of[id(obj)] = rec
            obj._verif_rec = rec
            me.traces.append(rec)

        def read(obj):
            rec = getattr(obj, "_verif_rec", None)
            if rec is None:
                return me._orig["read"](obj)
            rec["events"].append({"ev": "enter"})
            rec["depth"] = 1
            mark = len(rec["last_rl"])
            rec["mark"] = mark
            try:
                out = me._orig["read"](obj)
            finally:
                rec["depth"] = 0
            # direct reads were logged by position: flush what is left
            _flush_direct(rec)
            rec["events"].append({"ev": "exit", "n": -1 if out is None else len(out)})
            if out:
                rec["nrec"] += 1
                rec["returned"].append([kind_of(b) for b in out])
            return out

        def _flush_direct(rec):
            for i in rec["last_rl"][rec["mark"]:]:
                rec["events"].append({"ev": "rl", "i": i})
            rec["mark"] = len(rec["last_rl"])

        def read_header(obj, keyword, numspec=False):
            rec = getattr(obj, "_verif_rec", None)
            if rec is None or not rec.get("depth"):
                return me._orig["_read_header"](obj, keyword, numspec)
            _flush_direct(rec)
            before = len(rec["last_rl"])
            r = me._orig["_read_header"](obj, keyword, numspec)
            got = rec["last_rl"][before:]
            rec["mark"] = len(rec["last_rl"])
            rec["events"].append({"ev": "hdr", "kw": keyword, "ok": 1 if r else 0, "i": got[0] if got else -1, "extra": len(got) - 1 if len(got) > 1 else 0})
            return r

        def readall(obj):
            rec = getattr(obj, "_verif_rec", None)
            for s in me._orig["readall"](obj):
                yield s
            if rec is not None:
                rec["events"].append({"ev": "end", "nrec": rec["nrec"]})

        C.__init__, C.read, C._read_header, C.readall = init, read, read_header, readall
        return self

    def __exit__(self, *a):
        for k, v in self._orig.items():
            setattr(self._C, k, v)


def body_lines(path, nlines_seen):
    """the body of the file after the header as the reader left it: the last `n` physical lines are not known from the events when the
    reader stops early, so the whole remainder of the file is lexed: header length = total lines - lines after the exception value."""
    import gzip
    op = gzip.open if str(path).endswith(".gz") else open
    with op(path, "rt") as fh:
        allines = fh.readlines()
    # the header ends with the exception-value line that follows the unit line after QUANT
    q = [k for k, ln in enumerate(allines) if ln.startswith("QUANT")]
    if not q:
        return None
    start = q[0] + 1 + 1 + 1 + 1          # QUANT, number of quantities, name, unit, exception value
    return allines[start + 1:]


def parse_body(kinds, timed, nloc, nf):
    """the records of a body by the FORMAT (independent of how the reader walks it): list of lists of N / Z / F, None if malformed."""
    recs, k, n = [], 0, len(kinds)
    while k < n:
        if timed:
            if kinds[k] != "time":
                return None
            k += 1
        blocks = []
        for _ in range(nloc):
            if k >= n:
                return None
            if kinds[k] == "NODATA":
                blocks.append("N")
                k += 1
            elif kinds[k] == "ZERO":
                blocks.append("Z")
                k += 1
            elif kinds[k] == "FACTOR" and k + 1 + nf < n + 0 + 1 and all(x == "num" for x in kinds[k + 1:k + 2 + nf]) and len(kinds[k + 1:k + 2 + nf]) == nf + 1:
                blocks.append("F")
                k += 2 + nf
            else:
                return None
        recs.append(blocks)
        if not timed:
            break
    return recs if k == n else None


def to_ndjson(traces, path):
    n = 0
    with open(path, "w") as fh:
        for tid, t in enumerate(traces):
            t["tid"] = tid
            body = t["body"]
            fh.write(json.dumps({"ev": "file", "tid": tid, "timed": t["timed"], "nloc": t["nloc"], "nf": t["nf"], "lines": [lex(x) for x in body]},
                                separators=(",", ":")) + "\n")
            for e in t["events"]:
                fh.write(json.dumps(dict(e, tid=tid), separators=(",", ":")) + "\n")
                n += 1
    return n


def validate(ctx, traces, label):
    """run SwanFileTrace.tla on the recorded reads; returns (accepted tids, rejected list)."""
    os.makedirs(os.path.join(BUILD, "traces"), exist_ok=True)
    fd, path = tempfile.mkstemp(prefix="swanfile-", suffix=".ndjson", dir=os.path.join(BUILD, "traces"))
    os.close(fd)
    nev = to_ndjson(traces, path)
    cfg = ws.write_cfg("swanfiletrace.cfg", "SPECIFICATION TSpec\nINVARIANT RecLookaheadIsPrevious\nINVARIANT RecPosInFile\nPOSTCONDITION Verdict\n")
    rt = run_tlc("SwanFileTrace", cfg, workers=1, env={"TRACE_FILE": path}, timeout=1800)
    ctx.states += rt.states
    ctx.transitions += rt.transitions
    ctx.tlc_runs.append({"module": "SwanFileTrace", "label": "%s: %d recorded reads, %d events" % (label, len(traces), nev), "states": rt.states,
                         "transitions": rt.transitions, "wall_s": round(rt.wall, 2), "violated": rt.violated})
    v = [x for x in rt.vectors if isinstance(x, dict) and x.get("verdict") == "SwanFileTrace"]
    os.unlink(path)
    if not v:
        from harness.core import MachineryError
        raise MachineryError("SwanFileTrace produced no verdict: %s" % (rt.errors[:3] or rt.out[-400:]))
    for inv in rt.violated:
        if inv.startswith("Rec"):
            ctx.violation({"where": "SwanFileTrace", "invariant": inv}, "recorded SWAN read violates %s" % inv, rt.cex[:2000])
    return v[-1]["accepted"], v[-1]["rejected"]


def spec_cfg(nloc, nf, maxt, timed):
    return ws.write_cfg("swanfile_%d_%d_%d_%d.cfg" % (nloc, nf, maxt, timed),
                        "SPECIFICATION FairSpec\nCONSTANTS NLOC = %d\n NF = %d\n MAXT = %d\n TIMED = %s\n EMIT = TRUE\n" % (nloc, nf, maxt, "TRUE" if timed else "FALSE") +
                        "".join("INVARIANT %s\n" % i for i in ("TypeOK", "WriterWellFormed", "LookaheadEmptyAtDirectRead", "LookaheadIsPrevious", "NeverError",
                                                               "NeverGarbled", "ParseCorrect", "EmitInv")) +
                        "PROPERTY PosMonotone\nPROPERTY Terminates\n")


def block_array(kind, nf, nd, rng):
    a = np.array([[rng.randint(1, 9000) for _ in range(nd)] for _ in range(nf)], dtype=float) * 1e-3
    if kind == "Z":
        a[:] = 0.0
    elif kind == "N":
        a[rng.randrange(nf), rng.randrange(nd)] = np.nan
    return a


def kind_of(a):
    a = np.asarray(a)
    return "N" if np.isnan(a).any() else ("Z" if not a.any() else "F")


def stage(ctx, tmp):
    """model-check, replay every emitted content through the real writer and reader, validate every recorded read."""
    import warnings
    warnings.filterwarnings("ignore")
    from wavespectra.core.swan import SwanSpecFile
    from wavespectra import read_swan
    configs = [(2, 2, 2, True), (2, 1, 1, False), (1, 2, 3, True)] if ctx.quick else [(2, 2, 3, True), (3, 2, 2, True), (3, 1, 1, False), (1, 3, 4, True)]
    vectors = []
    for nloc, nf, maxt, timed in configs:
        r = ctx.tlc("SwanFile", spec_cfg(nloc, nf, maxt, timed), workers=4, coverage=(nloc, nf, maxt, timed) == configs[0],
                    label="SWAN file protocol: %d locations, %d rows, <= %d records, timed=%s" % (nloc, nf, maxt, timed))
        if r.coverage:
            # vacuity: every writer and reader action of the model is taken in the first (time-dependent) configuration
            idle = [a for a in ("WTime", "WBlock", "WClose", "REnter", "RTime", "RHdr", "RFac", "RRow", "RExitOk", "RExitNone") if r.coverage.get(a, (0, 0))[1] == 0]
            if idle:
                from harness.core import MachineryError
                raise MachineryError("SwanFile.tla: actions never taken in the bounded model (vacuous check): %s" % idle)
        for inv in r.violated:
            if inv != "EmitInv":
                ctx.violation({"where": "SwanFile", "invariant": inv}, "SwanFile.tla: %s violated" % inv, r.cex[:3000])
        vectors += r.vectors
    out = {"contents_from_tlc": len(vectors)}
    freqs3 = [0.05, 0.1, 0.2, 0.3]
    dirs = [0.0, 90.0, 180.0, 270.0]
    with Recorder() as rec:
        # ---- spec -> code: the real writer on every content, the real reader on its file
        for k, v in enumerate(vectors):
            nloc, nf, timed = v["nloc"], v["nf"], v["timed"]
            content = v["content"]
            p = os.path.join(tmp, "sf%d.spec" % k)
            w = SwanSpecFile(p, freqs=freqs3[:nf], dirs=dirs, x=[10.0 + i for i in range(nloc)], y=[-5.0] * nloc, time=timed)
            arrs = []
            for t, rec_t in enumerate(content):
                arr = np.stack([block_array(kind, nf, len(dirs), ctx.rng) for kind in rec_t])
                arrs.append(arr)
                w.write_spectra(arr, time="202001%02d.%02d0000" % (1 + t // 24, t % 24) if timed else None)
            w.close()
            body = body_lines(p, 0)
            ctx.case(("swanfile", nloc, nf, timed, json.dumps(content)), True)
            got_file = [lex(x) for x in body]
            if got_file != list(v["file"]):
                ctx.violation({"where": "SwanFile", "clause": "WriterWellFormed", "format": "swan"},
                              "the real writer's file body is not the specification's for content %s: %s vs %s" % (content, got_file, v["file"]))
                continue
            n0 = len(rec.traces)
            try:
                rd = SwanSpecFile(p)
                recs = list(rd.readall())
                rd.close()
            except Exception as ex:  # noqa
                ctx.violation({"where": "SwanFile", "clause": "raised:" + type(ex).__name__, "format": "swan"},
                              "the real reader raised %s on the writer's file for content %s" % (type(ex).__name__, content), {"err": str(ex)[:200]})
                continue
            got = [[kind_of(b) for b in r_] for r_ in recs]
            ok = got == [list(x) for x in v["out"]]
            if ok:
                for r_, a_ in zip(recs, arrs):
                    for b, a in zip(r_, a_):
                        if kind_of(a) == "F" and not np.allclose(np.asarray(b), a, rtol=2e-4, atol=float(np.nanmax(a)) * 1e-4):
                            ok = False
            if ok:
                ctx.replayed()
            else:
                ctx.violation({"where": "SwanFile", "clause": "ParseCorrect", "format": "swan"},
                              "the real reader returned %s for content %s (specification: %s)" % (got, content, v["out"]))
            for t in rec.traces[n0:]:
                t["body"] = body
        nspec = len(rec.traces)
        # ---- code -> spec: sample files of the repository and files of the C13 reference encoder, through read_swan
        extra = []
        sdir = os.path.join(REPO, "tests", "sample_files")
        for name in sorted(os.listdir(sdir)):
            if name.endswith(".gz") and not name.endswith(".spec.gz"):
                continue
            fp = os.path.join(sdir, name)
            try:
                with (__import__("gzip").open(fp, "rt") if name.endswith(".gz") else open(fp, "r", errors="replace")) as fh:
                    head = fh.readline()
            except Exception:  # noqa
                continue
            if not head.startswith("SWAN"):
                continue
            extra.append(fp)
        from harness import instruments as I
        import random
        for k in range(12 if ctx.quick else 150):
            crng = random.Random("swanfile-%d-%d" % (ctx.seed, k))
            case = I.random_case("swan", crng)
            d = os.path.join(tmp, "enc%d" % k)
            os.makedirs(d)
            arg = I.encode(case, d)
            extra += [arg] if isinstance(arg, str) else list(arg)
        for fp in extra:
            n0 = len(rec.traces)
            try:
                read_swan(fp)
            except Exception as ex:  # noqa  (what read_swan makes of the blocks is C13's own business; the trace of the reads is still validated)
                out.setdefault("read_swan_raised", []).append("%s: %s" % (os.path.basename(fp), type(ex).__name__))
            body = body_lines(fp, 0)
            for t in rec.traces[n0:]:
                t["body"] = body
    traces = [t for t in rec.traces if t.get("body") is not None and t["events"] and t["events"][-1]["ev"] == "end"]
    out["reads_recorded"] = len(traces)
    out["reads_from_spec_contents"] = nspec
    # binding demonstration: a copy of the first read with one readline index shifted must be rejected
    bad = None
    for t in traces:
        idx = [k for k, e in enumerate(t["events"]) if e["ev"] == "rl" and e["i"] > 0]
        if idx:
            bad = dict(t, events=[dict(e) for e in t["events"]])
            bad["events"][idx[0]]["i"] += 1
            break
    allt = traces + ([bad] if bad else [])
    accepted, rejected = validate(ctx, allt, "SWAN reader")
    bad_tid = len(allt) - 1 if bad else None
    out["accepted"] = accepted
    out["corrupted_copy_rejected"] = any(r["tid"] == bad_tid for r in rejected) if bad else None
    if bad and not out["corrupted_copy_rejected"]:
        from harness.core import MachineryError
        raise MachineryError("SwanFileTrace accepted a read whose line index was corrupted (vacuous trace specification?)")
    # Verdicts.  What the reader RETURNED for every recorded read is compared with the records of the body parsed by the format
    # (independently of how the reader walks the lines): a difference is a violation.  A read whose results are right but whose
    # event stream is not a behaviour of the operational model is a reader written differently from the model, not a defect: it is
    # listed in the evidence notes (clause by clause) and raises no alarm.
    rej_of = {r["tid"]: r for r in rejected if r["tid"] != bad_tid}
    departures = {}
    for t in traces:
        ctx.case(("swanfile-trace", os.path.basename(t["path"]), len(t["events"])), True)
        kinds = [lex(x) for x in t["body"]]
        want = parse_body(kinds, t["timed"], t["nloc"], t["nf"])
        r = rej_of.get(t["tid"])
        if want is None:
            out["bodies_not_well_formed"] = out.get("bodies_not_well_formed", 0) + 1      # nothing to compare with: not judged
            continue
        got = [r_ for r_ in t["returned"]]
        if t["nloc"] == 0:
            continue
        if got != want:
            ctx.violation({"where": "SwanFileTrace", "clause": "results" + (":" + r["clause"] if r else ""), "format": "swan"},
                          "reading %s: the reader returned records %s, the file holds %s%s" %
                          (os.path.basename(t["path"]), got[:4], want[:4], (" (first event outside the model: %s)" % r["clause"]) if r else ""),
                          {"timed": t["timed"], "nloc": t["nloc"], "nf": t["nf"], "body_kinds": kinds[:40]})
        else:
            ctx.replayed()
            if r:
                departures[r["clause"]] = departures.get(r["clause"], 0) + 1
    out["reads_outside_the_operational_model_with_right_results"] = departures
    ctx.note("extension_swanfile", out)
    return out
