"""read_swans as a loop over files (spec/Swans.tla): cycles, sites and time stamps accumulated per cycle, then concatenated.

TLC enumerates every scenario (sequence of distinct (cycle, site-file) files = file-name order) within the bounds, runs the loop
one action per file with the mechanism of the tree (MECH = "bycycle") and checks RowsLabelled / AllRecordsOnce /
RejectsInconsistentSites; the mechanism before the repair (MECH = "list") is kept as a regression configuration whose
expected result is TLC's shortest mislabelled scenario.  Every scenario is then realised as real files (one directory per
position so that path order is the scenario's order, one location per file, NT records whose constant spectrum encodes
cycle, record and site-file) and read by the real read_swans: the outcome (dataset / OSError) and every row's cycle label,
time label and records must be the specification's.
"""
import datetime
import os

import numpy as np

from harness import ws
from harness.core import MachineryError

BASE = datetime.datetime(2020, 1, 1)
FREQS = [0.05, 0.1, 0.2]
DIRS = [0.0, 90.0, 180.0, 270.0]


def cfg(ncyc, nsf, nt, maxfiles, mech, emit):
    return ws.write_cfg("swans_%d_%d_%d_%d_%s.cfg" % (ncyc, nsf, nt, maxfiles, mech),
                        "SPECIFICATION FairSpec\nCONSTANTS NCYC = %d\n NSF = %d\n NT = %d\n MAXFILES = %d\n MECH = \"%s\"\n EMIT = %s\n" %
                        (ncyc, nsf, nt, maxfiles, mech, "TRUE" if emit else "FALSE") +
                        "INVARIANT RowsLabelled\nINVARIANT AllRecordsOnce\nINVARIANT RejectsInconsistentSites\n" + ("INVARIANT EmitInv\n" if emit else "") +
                        "PROPERTY Terminates\n")


def stamp(c, k):
    return BASE + datetime.timedelta(days=c, hours=3 * (k - 1))


def write_files(scn, nt, root):
    from wavespectra.core.swan import SwanSpecFile
    paths = []
    for pos, (c, sf) in enumerate(scn):
        d = os.path.join(root, "p%02d" % pos)
        os.makedirs(d)
        p = os.path.join(d, "s%d.spec" % sf)
        w = SwanSpecFile(p, freqs=FREQS, dirs=DIRS, x=[100.0 + sf], y=[-float(sf)], time=True)
        for k in range(1, nt + 1):
            w.write_spectra(np.full((1, len(FREQS), len(DIRS)), float(100 * c + 10 * k + sf)), time=stamp(c, k).strftime("%Y%m%d.%H%M%S"))
        w.close()
        paths.append(p)
    return paths


def observe(paths):
    """what the real read_swans makes of the files: ("OSError",) or ("ok", rows) with rows = [(cycle, time, [(c, k, sf), ...])]."""
    import pandas as pd
    from wavespectra.input.swan import read_swans
    try:
        ds = read_swans(list(paths), int_freq=False, int_dir=False)
    except OSError:
        return ("OSError",)
    vals = np.asarray(ds.efth.isel(freq=0, dir=0).values, float)
    if "cycletime" in ds.dims:
        idx = ds.indexes["cycletime"]
        cyc = [pd.Timestamp(a).to_pydatetime() for a, _ in idx]
        tim = [pd.Timestamp(b).to_pydatetime() for _, b in idx]
    else:
        tim = [pd.Timestamp(t).to_pydatetime() for t in ds.time.values]
        cyc = [min(tim)] * len(tim)
    rows = []
    for r in range(vals.shape[0]):
        recs = []
        for v in vals[r]:
            n = int(round(float(v)))
            recs.append((n // 100, (n % 100) // 10, n % 10))
        rows.append((cyc[r], tim[r], recs))
    lon = [float(x) for x in np.ravel(ds.lon.values)]
    return ("ok", rows, lon)


def stage(ctx, tmp):
    import shutil
    import warnings
    warnings.filterwarnings("ignore")
    bounds = (2, 2, 2, 4) if ctx.quick else (3, 2, 2, 5)
    r = ctx.tlc("Swans", cfg(*bounds, "bycycle", True), workers=4, label="read_swans loop, mechanism of the tree (times kept per cycle)")
    for inv in r.violated:
        if inv != "EmitInv":
            ctx.violation({"where": "Swans", "invariant": inv, "format": "swan"}, "Swans.tla: %s violated for the mechanism of the tree" % inv, r.cex[:3000])
    rr = ctx.tlc("Swans", cfg(2, 1, 2, 2, "list", False), workers=2, expect_ok=False, label="regression: times kept in a plain list in file-name order (expected: RowsLabelled violated)")
    if "RowsLabelled" not in rr.violated:
        raise MachineryError("Swans.tla no longer detects the mislabelled rows of the list mechanism (vacuous model?)")
    out = {"scenarios_from_tlc": len(r.vectors), "list_mechanism_rejected_by_tlc": True}
    nerr = 0
    for n, v in enumerate(r.vectors):
        scn = [tuple(f) for f in v["files"]]
        nt = v["nt"]
        root = os.path.join(tmp, "sc%d" % n)
        os.makedirs(root)
        ctx.case(("read_swans", tuple(scn)), len(scn) > 1)
        try:
            got = observe(write_files(scn, nt, root))
        except Exception as ex:  # noqa
            ctx.violation({"where": "Swans", "format": "swan", "variant": "read_swans", "clause": "raised:" + type(ex).__name__},
                          "read_swans raised %s on files %s (file-name order)" % (type(ex).__name__, scn), {"err": str(ex)[:300]})
            continue
        finally:
            shutil.rmtree(root, ignore_errors=True)
        if v["outcome"] == "OSError":
            nerr += 1
            if got[0] == "OSError":
                ctx.replayed()
            else:
                ctx.violation({"where": "Swans", "format": "swan", "variant": "read_swans", "clause": "RejectsInconsistentSites"},
                              "read_swans accepted files whose cycles list different sites: %s" % (scn,))
            continue
        if got[0] != "ok":
            ctx.violation({"where": "Swans", "format": "swan", "variant": "read_swans", "clause": "rejected-consistent"},
                          "read_swans raised OSError on consistent files %s" % (scn,))
            continue
        exp = [(stamp(row["cycle"], 1), stamp(row["time"] // 10, row["time"] % 10), [tuple(x) for x in row["recs"]]) for row in v["rows"]]
        single = len({c for c, _ in scn}) == 1
        rows = sorted(got[1], key=lambda x: x[1]) if single else got[1]
        if single:
            exp = sorted(exp, key=lambda x: x[1])
        bad = None
        if len(rows) != len(exp):
            bad = "returned %d rows, the files hold %d" % (len(rows), len(exp))
        else:
            for a, b in zip(rows, exp):
                if a[2] != b[2]:
                    bad = "row holds records %s, expected %s" % (a[2], b[2])
                elif a[1] != b[1]:
                    bad = "records %s (cycle, record, site) are labelled with time %s, their files say %s" % (a[2], a[1], b[1])
                elif not single and a[0] != b[0]:
                    bad = "records %s are labelled with cycle %s, their files say %s" % (a[2], a[0], b[0])
                if bad:
                    break
        if bad is None:
            sfs = [sf for c, sf in scn if c == scn[-1][0]]
            if [round(x - 100.0) for x in got[2]] != sfs:
                bad = "site positions %s, expected those of site-files %s" % (got[2], sfs)
        if bad:
            ctx.violation({"where": "Swans", "format": "swan", "variant": "read_swans", "clause": "RowsLabelled",
                           "name_order_is_cycle_order": [c for c, _ in scn] == sorted(c for c, _ in scn)},
                          "read_swans on files %s (file-name order): %s" % (scn, bad), {"rows": [(str(a), str(b), c) for a, b, c in rows[:6]]})
        else:
            ctx.replayed()
    out["scenarios_rejected_for_inconsistent_sites"] = nerr
    ctx.note("extension_swans", out)
    return out
