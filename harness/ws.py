"""Watershed machinery shared by C04, C20 (and C03/C07/C18): TLC configs, native driver, trace recording."""
import json
import math
import os
import struct
import subprocess
import tempfile
from concurrent.futures import ThreadPoolExecutor
from fractions import Fraction

from harness import build
from harness.core import BUILD, MachineryError, run_tlc

CFG = os.path.join(BUILD, "cfg")


def write_cfg(name, text):
    os.makedirs(CFG, exist_ok=True)
    p = os.path.join(CFG, name)
    with open(p, "w") as fh:
        fh.write(text)
    return p


def mc_cfg(nk, nth, ihmax, vals, tworun, emit, invariants=None, prop=None, spec="Spec", patterns=False):
    inv = invariants if invariants is not None else ["BoundsOK", "TableOK", "AllLabelled", "OnePerRegionalMax",
                                                       "ConstNoPartition", "ShiftEquivariant"]
    txt = "SPECIFICATION %s\nCONSTANTS\n NK = %d\n NTH = %d\n IHMAX = %d\n Vals = {%s}\n TWORUN = %s\n EMIT = %s\n PATTERNS = %s\n" % (
        spec, nk, nth, ihmax, ",".join(str(v) for v in vals), "TRUE" if tworun else "FALSE",
        "TRUE" if emit else "FALSE", "TRUE" if patterns else "FALSE")
    for i in inv:
        txt += "INVARIANT %s\n" % i
    if prop:
        txt += "PROPERTY %s\n" % prop
    return write_cfg("ws_%d_%d_%d_%s_%d%d%d_%s.cfg" % (nk, nth, ihmax, "".join(map(str, vals)), tworun, emit, patterns,
                                                      spec + (prop or "")), txt)


# ------------------------------------------------------------------ native driver
def run_driver(cases, sanitize=False, trace_file=None, timeout=1800):
    """cases: list of (nk, nth, ihmax, flat C-order list of numbers). Returns list of (ipart_Corder, npart),
    plus the stderr text (sanitizer reports)."""
    exe = build.driver(sanitize)
    buf = bytearray()
    for nk, nth, ihmax, e in cases:
        buf += struct.pack("iii", nk, nth, ihmax)
        buf += struct.pack("%df" % (nk * nth), *[float(x) for x in e])
    env = dict(os.environ)
    env["ASAN_OPTIONS"] = "detect_leaks=0:abort_on_error=0:exitcode=77"
    env["UBSAN_OPTIONS"] = "print_stacktrace=1:halt_on_error=1:exitcode=78"
    if trace_file:
        env["WAVESPECTRA_VERIF"] = "1"
        env["WAVESPECTRA_VERIF_TRACE"] = trace_file
    else:
        env.pop("WAVESPECTRA_VERIF_TRACE", None)
    p = subprocess.run([exe], input=bytes(buf), stdout=subprocess.PIPE, stderr=subprocess.PIPE, env=env,
                       timeout=timeout)
    out = p.stdout
    res = []
    off = 0
    for nk, nth, ihmax, e in cases:
        n = nk * nth
        need = 4 * (n + 1)
        if off + need > len(out):
            break
        vals = struct.unpack("%di" % (n + 1), out[off:off + need])
        off += need
        f = vals[:n]          # flat F-order for shape (nk, nth): element [i, j] at i + nk*j
        res.append(([f[(k // nth) + nk * (k % nth)] for k in range(n)], vals[n]))
    return res, p.returncode, p.stderr.decode("utf8", "replace")


# ------------------------------------------------------------------ rounding-tie filter
def level_tie_free(e, ihmax):
    """True when no bin's exact level quotient is k+1/2, or when the factor is exactly representable."""
    zmin, zmax = min(e), max(e)
    rng = zmax - zmin
    if rng == 0:
        return True
    fr = Fraction(ihmax - 1, rng)
    den = fr.denominator
    exact = (den & (den - 1)) == 0 and abs(fr.numerator) < 2**40   # dyadic => double product is exact
    if exact:
        return True
    for v in e:
        q = Fraction((zmax - v) * (ihmax - 1), rng)
        if (q * 2).denominator == 1 and q.denominator == 2:
            return False
        # near-tie guard: float32/double rounding can only matter within 1e-6 of a tie
        frac = q - math.floor(q)
        if abs(float(frac) - 0.5) < 1e-6:
            return False
    return True


# ------------------------------------------------------------------ trace recording / validation
def record_traces(cases, pairs=None, sanitize=True):
    """Run cases through the hooked driver; returns list of per-case event lists and outputs."""
    os.makedirs(os.path.join(BUILD, "traces"), exist_ok=True)
    fd, path = tempfile.mkstemp(prefix="h1-", suffix=".ndjson", dir=os.path.join(BUILD, "traces"))
    os.close(fd)
    os.unlink(path)
    try:
        res, rc, err = run_driver(cases, sanitize=sanitize, trace_file=path)
        events = []
        cur = None
        if os.path.exists(path):
            with open(path) as fh:
                for line in fh:
                    ev = json.loads(line)
                    if ev["ev"] == "enter":
                        cur = [ev]
                        events.append(cur)
                    elif cur is not None:
                        cur.append(ev)
    finally:
        if os.path.exists(path):
            os.unlink(path)
    return res, events, rc, err


def trace_lines(tid, case, events, out, pair=2):
    nk, nth, ihmax, e = case
    lines = [{"ev": "input", "tid": tid, "e": [int(x) for x in e], "mode": 0, "lv": [], "cst": 0}]
    for ev in events:
        k = ev["ev"]
        if k in ("enter", "exit"):
            continue
        if k == "const":
            lines.append({"ev": "const"})
        elif k == "pinit":
            lines.append({"ev": "pinit", "a": ev["a"], "b": ev["b"], "c": ev["c"], "d": ev["d"]})
        elif k in ("imi", "ind"):
            lines.append({"ev": k, "arr": ev["arr"]})
        elif k == "level":
            lines.append({"ev": "level", "a": ev["a"], "b": ev["b"], "c": ev["c"], "d": ev["d"], "arr": ev["arr"]})
        elif k == "sweep":
            lines.append({"ev": "sweep", "a": ev["a"], "arr": ev["arr"]})
    lines.append({"ev": "out", "p": list(out[0]), "np": out[1], "pair": pair})
    return lines


def level_trace_lines(tid, events, out=None):
    """trace of a call on a floating-point spectrum (mode 1 of WatershedTrace): the recorded level map is the input,
    the result is the recorded one (or, for calls made by somebody else, the last sweep) in C order."""
    ent = events[0]
    nk, nth = ent["a"], ent["b"]
    imi = next((ev["arr"] for ev in events if ev["ev"] == "imi"), [])
    cst = any(ev["ev"] == "const" for ev in events)
    lines = [{"ev": "input", "tid": tid, "e": [], "mode": 1, "lv": imi, "cst": 1 if cst else 0}]
    last = None
    for ev in events:
        k = ev["ev"]
        if k == "const":
            lines.append({"ev": "const"})
        elif k == "pinit":
            lines.append({"ev": "pinit", "a": ev["a"], "b": ev["b"], "c": ev["c"], "d": ev["d"]})
        elif k in ("imi", "ind"):
            lines.append({"ev": k, "arr": ev["arr"]})
        elif k == "level":
            lines.append({"ev": "level", "a": ev["a"], "b": ev["b"], "c": ev["c"], "d": ev["d"], "arr": ev["arr"]})
        elif k == "sweep":
            lines.append({"ev": "sweep", "a": ev["a"], "arr": ev["arr"]})
            last = ev["arr"]
        elif k == "exit":
            npart = ev["a"]
    if out is not None:
        p, npart = list(out[0]), out[1]
    elif cst:
        p = [1] * (nk * nth)
    else:
        p = [last[(k // nth) + nk * (k % nth)] for k in range(nk * nth)]     # F-order work area -> C order
    lines.append({"ev": "out", "p": p, "np": npart, "pair": 2})
    return lines


def split_events(path):
    """H1 events of a trace file grouped per call (H2 wrapper events are skipped)."""
    calls, cur = [], None
    with open(path) as fh:
        for line in fh:
            try:
                ev = json.loads(line)
            except ValueError:
                continue
            if ev["ev"] in ("wenter", "wexit"):
                continue
            if ev["ev"] == "enter":
                cur = [ev]
                calls.append(cur)
            elif cur is not None:
                cur.append(ev)
    return [c for c in calls if c[-1]["ev"] == "exit"]


def validate_traces(ctx, groups, checkpost=True, label="trace", timeout=1500, parallel=6):
    """groups: dict (nk, nth, ihmax) -> list of line-lists (one per trace).
    Returns (accepted, rejected list of (shape, tid, clause, line))."""
    os.makedirs(os.path.join(BUILD, "traces"), exist_ok=True)
    jobs = []
    for (nk, nth, ihmax), traces in groups.items():
        fd, path = tempfile.mkstemp(prefix="wt-%d-%d-%d-" % (nk, nth, ihmax), suffix=".ndjson",
                                    dir=os.path.join(BUILD, "traces"))
        with os.fdopen(fd, "w") as fh:
            for t in traces:
                for line in t:
                    fh.write(json.dumps(line, separators=(",", ":")) + "\n")
        cfg = write_cfg("wt_%d_%d_%d_%d.cfg" % (nk, nth, ihmax, checkpost),
                        "SPECIFICATION Spec\nCONSTANTS\n NK = %d\n NTH = %d\n IHMAX = %d\n CHECKPOST = %s\n"
                        "POSTCONDITION Verdict\n" % (nk, nth, ihmax, "TRUE" if checkpost else "FALSE"))
        jobs.append(((nk, nth, ihmax), path, cfg, len(traces)))

    def one(job):
        shape, path, cfg, n = job
        r = run_tlc("WatershedTrace", cfg, workers=1, env={"TRACE_FILE": path}, timeout=timeout)
        return job, r

    accepted = 0
    rejected = []
    with ThreadPoolExecutor(max_workers=parallel) as ex:
        for job, r in ex.map(one, jobs):
            shape, path, cfg, n = job
            ctx.states += r.states
            ctx.transitions += r.transitions
            ctx.tlc_runs.append({"module": "WatershedTrace", "label": "%s %s x%d" % (label, shape, n),
                                 "states": r.states, "transitions": r.transitions, "wall_s": round(r.wall, 2)})
            verdict = [v for v in r.vectors if isinstance(v, dict) and v.get("verdict") == "WatershedTrace"]
            if not verdict:
                raise MachineryError("trace validation produced no verdict for %s: %s\n%s" %
                                     (shape, r.errors[:8], r.out[-2500:]))
            v = verdict[-1]
            accepted += v["accepted"]
            for rj in v["rejected"]:
                rejected.append((shape, rj["tid"], rj["clause"], rj["line"]))
            if v["accepted"] + len(v["rejected"]) != n:
                raise MachineryError("trace validation verdicts not total for %s: %s" % (shape, v))
            os.unlink(path)
    return accepted, rejected
