--------------------------------- MODULE Construct ---------------------------------
(* C15: the algebra behind the parametric constructors (construct/frequency.py, construct/direction.py).            *)
(* The transcendental shapes (Pierson-Moskowitz, JONSWAP, TMA, Gaussian, cos^2s) are NOT modelled; what is modelled  *)
(* is what the library does with ANY non-negative shape table S and spreading table G:                              *)
(*   Scaled(S, h)   = S * h^2 / Hs(S)^2           (core.utils.scaled, with the accessor's Hs incl. the tail rule)   *)
(*   Normalised(G)  = G / (sum(G) * 2 pi / n) / R2D   (cartwright's normalisation on an n-direction grid)           *)
(*   Construct2D    = S (x) Normalised(G)                                                                            *)
(* and the exact consequences the property states: Hs(Scaled(S,h)) = h, the normalised spreading integrates to one  *)
(* over a full-circle uniform grid (sum G_norm dd = 1), the 2-D product integrates back to S, and a table that is    *)
(* symmetric about an axis has that axis as its mean direction.  The second part (MODE = "params") enumerates the   *)
(* parameter lattice whose cases the harness realises on the real constructors.                                     *)
EXTENDS Rat, Json

CONSTANTS MODE, SVals, GVals, NDIRS, HSQ, PARAMS

FG(k) == CASE k = 1 -> <<2, 4, 6>> [] k = 2 -> <<2, 3, 7>> [] k = 3 -> <<1, 2, 4, 8>>
DF2(F, i) == IF Len(F) = 1 THEN 40 ELSE IF i = 1 THEN 2 * (F[2] - F[1]) ELSE IF i = Len(F) THEN 2 * (F[Len(F)] - F[Len(F)-1]) ELSE F[i+1] - F[i-1]
\* 80 * Etot = 2 sum S_i DF2_i + [F_top >= 7] S_top F_top     (1-D spectrum, dd = 1)
EtotNum(F, S) == LET m0 == SeqSum([i \in 1..Len(F) |-> RMul(S[i], R(DF2(F, i)))])
                     tail == IF F[Len(F)] >= 7 THEN RMul(S[Len(F)], R(F[Len(F)])) ELSE <<0, 1>>
                 IN RAdd(RMul(R(2), m0), tail)
\* Hs^2 = 16 Etot = EtotNum / 5
HsSq(F, S) == RDiv(EtotNum(F, S), R(5))
Scaled(F, S, hsq) == [i \in 1..Len(F) |-> RMul(S[i], RDiv(R(hsq), HsSq(F, S)))]

\* spreading on n uniformly spaced directions (dd = 360 / n degrees, n divides 360): G_norm * dd, with pi cancelled:
\*    G_j / (sumG * (2 pi / n)) / (180 / pi) * (360 / n)  =  G_j / sumG
NormTimesDd(G, j) == RDiv(R(G[j]), SeqSum([k \in 1..Len(G) |-> R(G[k])]))
\* on a PARTIAL grid of n directions with spacing dd the same normalisation integrates to n*dd/360 (not one)
PartialIntegral(n, dd) == Norm(n * dd, 360)

SymmetricAbout(G, a) == \A k \in 0..(Len(G) - 1) : G[((a - 1 + k) % Len(G)) + 1] = G[((((a - 1 - k) % Len(G)) + Len(G)) % Len(G)) + 1]
\* first-moment components about the axis, using only the pairing (sin is odd): sum_j G_j sin(theta_j - theta_a) pairs cancel exactly
OddPartCancels(G, a) == \A k \in 1..(Len(G) - 1) :
   G[((a - 1 + k) % Len(G)) + 1] - G[((((a - 1 - k) % Len(G)) + Len(G)) % Len(G)) + 1] = 0

VARIABLES F, S, G, hsq, par
vars == <<F, S, G, hsq, par>>
Init == IF MODE = "algebra"
        THEN /\ \E k \in {1, 2, 3} : F = FG(k)
             /\ S \in [1..Len(F) -> SVals] /\ (\E i \in 1..Len(F) : S[i] # 0)
             /\ \E n \in NDIRS : G \in [1..n -> GVals] /\ (\E j \in 1..n : G[j] # 0)
             /\ hsq \in HSQ /\ par = <<>>
        ELSE /\ F = <<>> /\ S = <<>> /\ G = <<>> /\ hsq = 0 /\ par \in PARAMS
Next == UNCHANGED vars
Spec == Init /\ [][Next]_vars

Sr == [i \in 1..Len(F) |-> R(S[i])]
Alg == MODE = "algebra"
ScaledHasRequestedHs == Alg => HsSq(F, Scaled(F, Sr, hsq)) = R(hsq)
ScaledNonNegative == Alg => \A i \in 1..Len(F) : RGeq0(Scaled(F, Sr, hsq)[i])
SpreadIntegratesToOne == Alg => SeqSum([j \in 1..Len(G) |-> NormTimesDd(G, j)]) = <<1, 1>>
ProductIntegratesToShape == Alg => \A i \in 1..Len(F) : SeqSum([j \in 1..Len(G) |-> RMul(Sr[i], NormTimesDd(G, j))]) = Sr[i]
SymmetricHasAxisAsMean == Alg => \A a \in 1..Len(G) : SymmetricAbout(G, a) => OddPartCancels(G, a)
EmitInv == MODE = "params" => PrintT(ToJson([par |-> par]))
=============================================================================
