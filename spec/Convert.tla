--------------------------------- MODULE Convert ---------------------------------
(* C12: model-native conventions -> wavespectra convention (input/dataset.py read_dataset and from_ww3, from_ncswan,   *)
(* from_wwm, from_era5, from_ndbc), as a quantity algebra.  A quantity is <<num, den, pik>> = (num/den) * pi^pik.      *)
(* Every convention states, per spectral bin, the NATIVE value with its native bin widths, and the CONVERTED value      *)
(* (energy density per hertz per degree) with the converted widths; VariancePreserved says the two bin contributions  *)
(* are the same quantity, BinKeepsPhysicalDir that the converted label is the coming-from direction in [0,360) of the  *)
(* same physical direction, Dispatch that the name-based recogniser reaches the right converter.                       *)
(*   ww3     efth [m2 s / rad] on going-to degrees            -> x pi/180, label + 180 (mod 360)                       *)
(*   ncswan  density [m2 / Hz / rad] on radians (coming-from) -> x pi/180, label x 180/pi (mod 360)                    *)
(*   wwm     action N(sigma, theta) on rad/s and radians      -> x sigma x 2 pi x pi/180, f = sigma/2pi, label x 180/pi *)
(*   era5    log10 of [m2 s / rad] on going-to degrees, NaN = no energy -> 10^x x pi/180, label + 180 (mod 360)         *)
(*   ndbc    1-D: spectral_wave_density unchanged; 2-D: ef (1/2 + r1 cos(d-a1) + r2 cos 2(d-a2)) / pi x pi/180         *)
EXTENDS Integers, Sequences, FiniteSets, TLC, Json

RECURSIVE GCD(_, _)
GCD(a, b) == IF b = 0 THEN a ELSE GCD(b, a % b)
Abs(x) == IF x < 0 THEN -x ELSE x
QN(n, d, k) == LET g == GCD(Abs(n), Abs(d)) IN IF g = 0 THEN <<0, 1, 0>> ELSE <<n \div g, d \div g, IF n = 0 THEN 0 ELSE k>>
QMul(a, b) == QN(a[1] * b[1], a[2] * b[2], a[3] + b[3])

CONVS == {"ww3", "ncswan", "wwm", "era5"}
\* lattice: native frequency axis value F[i] (ww3, ncswan, era5: multiples of 0.05 Hz -> num F/20 ; wwm: sigma = F[i] * pi / 10 rad/s, i.e. f = F/20 Hz)
\* native direction axis value D[j]: ww3 / era5 whole degrees; ncswan / wwm multiples of pi/2880 rad (D[j] / 16 degrees, so that
\* 11.25 and 5.625 degree grids are on the lattice); converted labels of those two are emitted in sixteenths of a degree
NativeFreqWidthQ(conv, dF2) == IF conv = "wwm" THEN QN(dF2, 20, 1)       \* d sigma = 2 pi df = dF2/40 * 2 pi
                               ELSE QN(dF2, 40, 0)                       \* df in Hz (dF2 = twice the width in 0.05 Hz units)
NativeDirWidthQ(conv, dd) == IF conv \in {"ww3", "era5"} THEN QN(dd, 180, 1)     \* d theta in radians of a dd-degree bin (density is per radian)
                             ELSE QN(dd, 2880, 1)                               \* dd steps of pi/2880
\* native bin contribution to the variance: value x (sigma for action density) x d(freq axis) x d(theta in rad)
NativeBin(conv, val, Fi, dF2, dd) ==
  LET v == IF conv = "wwm" THEN QMul(QN(val, 1, 0), QN(Fi, 10, 1)) ELSE QN(val, 1, 0)       \* E(sigma,theta) = N sigma
  IN QMul(QMul(v, NativeFreqWidthQ(conv, dF2)), NativeDirWidthQ(conv, dd))
\* the conversion factor applied to the stored value
Factor(conv, Fi) == CASE conv = "ww3" -> QN(1, 180, 1) [] conv = "era5" -> QN(1, 180, 1) [] conv = "ncswan" -> QN(1, 180, 1)
                      [] conv = "wwm" -> QMul(QMul(QN(Fi, 10, 1), QN(2, 1, 1)), QN(1, 180, 1))     \* x sigma x 2 pi / R2D
\* converted bin contribution: converted value x df [Hz] x dd [deg]
ConvDirWidthDegQ(conv, dd) == IF conv \in {"ww3", "era5"} THEN QN(dd, 1, 0) ELSE QN(dd, 16, 0)
ConvertedBin(conv, val, Fi, dF2, dd) == QMul(QMul(QMul(QN(val, 1, 0), Factor(conv, Fi)), QN(dF2, 40, 0)), ConvDirWidthDegQ(conv, dd))
\* direction label
ConvDir(conv, Dj) == CASE conv \in {"ww3", "era5"} -> (Dj + 180) % 360
                       [] conv = "ncswan" -> Dj % 5760          \* sixteenths of a degree
                       [] conv = "wwm" -> Dj
\* physical coming-from direction of a native label
PhysicalFrom(conv, Dj) == IF conv \in {"ww3", "era5"} THEN (Dj + 180) % 360 ELSE Dj % 5760

(* ---- dispatch on variable / dimension names, in the order of the if-chain ---- *)
NamesOf(conv) == CASE conv = "wavespectra" -> {"freq", "dir", "site", "efth", "time"}
                   [] conv = "ww3" -> {"frequency", "direction", "station", "efth", "time", "longitude", "latitude"}
                   [] conv = "ncswan" -> {"frequency", "direction", "points", "density", "time", "longitude", "latitude"}
                   [] conv = "wwm" -> {"nfreq", "ndir", "nbstation", "AC", "ocean_time", "SPSIG", "SPDIR"}
                   [] conv = "era5" -> {"frequency", "direction", "d2fd", "time", "longitude", "latitude"}
                   [] conv = "ndbc" -> {"frequency", "spectral_wave_density", "time"}
                   [] OTHER -> {"foo", "frequency"}
Need(conv) == CASE conv = "wavespectra" -> {"freq", "dir", "site", "efth"} [] conv = "ww3" -> {"frequency", "direction", "station", "efth"}
                [] conv = "ncswan" -> {"frequency", "direction", "points", "density"} [] conv = "wwm" -> {"nfreq", "ndir", "nbstation", "AC"}
                [] conv = "era5" -> {"frequency", "direction", "d2fd"} [] conv = "ndbc" -> {"frequency", "spectral_wave_density"}
Chain == <<"wavespectra", "ww3", "ncswan", "wwm", "era5", "ndbc">>
Dispatch(names) == LET hits == {k \in 1..Len(Chain) : Need(Chain[k]) \subseteq names}
                   IN IF hits = {} THEN "reject" ELSE Chain[CHOOSE k \in hits : \A m \in hits : k <= m]
=============================================================================
