-------------------------------- MODULE DaskSched --------------------------------
(* C07, schedule half: dask's threaded scheduler runs block tasks on W worker threads; each task calls the  *)
(* C watershed, which keeps its work area in process-global static variables (specpart.c: mk, mth, nspec,   *)
(* neigh, imi, ind, imo, zp).  The call is a multi-step critical section:                                   *)
(*    Enter   (partinit: compare the task's shape with the static (mk, mth), rebuild the work area if they  *)
(*             differ)                                                                                     *)
(*    CopyIn  (zp <- the task's spectrum)                                                                  *)
(*    Flood   (imo <- watershed of whatever is in zp, with whatever neighbour table is installed)          *)
(*    CopyOut (the task's output <- imo)                                                                   *)
(* The Python wrapper does not release the GIL (HoldsGIL = TRUE), so the four steps of one task cannot      *)
(* interleave with another task's.  TaskOutputCorrect: every finished task got the watershed of ITS OWN     *)
(* spectrum computed with the table for ITS OWN shape, for every interleaving and every sequence of shapes. *)
(* With HoldsGIL = FALSE TLC finds the corruption (kept as a sensitivity configuration).                    *)
EXTENDS Integers, FiniteSets, TLC

CONSTANTS Tasks, W, HoldsGIL, ShapeOf      \* ShapeOf: task -> shape id

VARIABLES pc,       \* task -> "todo" | "enter" | "copyin" | "flood" | "copyout" | "done"
          gil,      \* task holding the GIL, or 0
          smk,      \* shape the static work area is built for (0 = none)
          szp,      \* task whose spectrum is in zp (0 = none)
          simo,     \* <<task whose data was flooded, table shape used>>
          out       \* task -> <<data of, table of>> or <<>>
vars == <<pc, gil, smk, szp, simo, out>>

Init == /\ pc = [t \in Tasks |-> "todo"] /\ gil = 0 /\ smk = 0 /\ szp = 0 /\ simo = <<0, 0>>
        /\ out = [t \in Tasks |-> <<>>]
Running == {t \in Tasks : pc[t] \notin {"todo", "done"}}
CanRun(t) == ~HoldsGIL \/ gil = t

Start(t) == /\ pc[t] = "todo" /\ Cardinality(Running) < W
            /\ (HoldsGIL => gil = 0)
            /\ gil' = IF HoldsGIL THEN t ELSE gil
            /\ pc' = [pc EXCEPT ![t] = "enter"] /\ UNCHANGED <<smk, szp, simo, out>>
Enter(t) == /\ pc[t] = "enter" /\ CanRun(t)
            /\ smk' = ShapeOf[t]                        \* rebuilt iff different; afterwards the area is for this shape
            /\ pc' = [pc EXCEPT ![t] = "copyin"] /\ UNCHANGED <<gil, szp, simo, out>>
CopyIn(t) == /\ pc[t] = "copyin" /\ CanRun(t) /\ szp' = t
             /\ pc' = [pc EXCEPT ![t] = "flood"] /\ UNCHANGED <<gil, smk, simo, out>>
Flood(t) == /\ pc[t] = "flood" /\ CanRun(t) /\ simo' = <<szp, smk>>
            /\ pc' = [pc EXCEPT ![t] = "copyout"] /\ UNCHANGED <<gil, smk, szp, out>>
CopyOut(t) == /\ pc[t] = "copyout" /\ CanRun(t) /\ out' = [out EXCEPT ![t] = simo]
              /\ gil' = IF HoldsGIL THEN 0 ELSE gil
              /\ pc' = [pc EXCEPT ![t] = "done"] /\ UNCHANGED <<smk, szp, simo>>
Next == \E t \in Tasks : Start(t) \/ Enter(t) \/ CopyIn(t) \/ Flood(t) \/ CopyOut(t)
Spec == Init /\ [][Next]_vars
FairSpec == Spec /\ WF_vars(Next)

TaskOutputCorrect == \A t \in Tasks : pc[t] = "done" => out[t] = <<t, ShapeOf[t]>>
BufferShapeConsistent == \A t \in Tasks : pc[t] \in {"copyin", "flood", "copyout"} /\ HoldsGIL => smk = ShapeOf[t]
AtMostOneInside == HoldsGIL => Cardinality(Running) <= 1
AllFinish == <>(\A t \in Tasks : pc[t] = "done")
=============================================================================
