----------------------------- MODULE DaskSchedTrace -----------------------------
(* Recorded H1/H2 events of threaded dask runs (written inside the C wrapper while the GIL is held, with a  *)
(* process-global sequence number) against DaskSched.tla with HoldsGIL = TRUE.  One line per event:          *)
(*   {ev:"wenter", thr, seq, d0, d1, cc}  {ev:"enter", a=nk, b=nth, d=realloc}  {ev:"pinit", a, b, c}        *)
(*   {ev:"wexit", thr, seq, d0, d1}                                                                          *)
(* Accepted iff: calls never overlap (a wenter is followed by its own wexit before any other wenter, sequence *)
(* numbers consecutive), the buffer handed to C is C-contiguous, the realloc flag of every call equals        *)
(* "shape differs from the previous call's shape", and the static area reported after partinit is the call's. *)
EXTENDS Integers, Sequences, FiniteSets, TLC, Json, IOUtils
TraceLog == ndJsonDeserialize(IOEnv.TRACE_FILE)
NL == Len(TraceLog)
VARIABLES l, inside, smk, lastseq, calls, bad
vars == <<l, inside, smk, lastseq, calls, bad>>
\* the work area may have been built by calls made before recording started: the first flag is not constrained
Init == l = 1 /\ inside = <<>> /\ smk = <<-1, -1>> /\ lastseq = 0 /\ calls = 0 /\ bad = {}
Ev == TraceLog[l]
Step ==
  /\ l <= NL /\ l' = l + 1
  /\ CASE Ev.ev = "wenter" ->
            /\ bad' = bad \cup (IF inside # <<>> THEN {<<"overlapping-calls", l>>} ELSE {})
                          \cup (IF lastseq # 0 /\ Ev.seq # lastseq + 1 THEN {<<"sequence-gap", l>>} ELSE {})
                          \cup (IF Ev.cc # 1 THEN {<<"non-contiguous-buffer", l>>} ELSE {})
            /\ inside' = <<Ev.thr, Ev.d0, Ev.d1>> /\ lastseq' = Ev.seq /\ calls' = calls + 1 /\ UNCHANGED smk
       [] Ev.ev = "enter" ->
            /\ bad' = bad \cup (IF inside = <<>> \/ inside[2] # Ev.a \/ inside[3] # Ev.b THEN {<<"enter-outside-its-call", l>>} ELSE {})
                          \cup (IF smk # <<-1, -1>> /\ ((Ev.d = 1) # (smk # <<Ev.a, Ev.b>>)) THEN {<<"realloc-flag", l>>} ELSE {})
            /\ smk' = <<Ev.a, Ev.b>> /\ UNCHANGED <<inside, lastseq, calls>>
       [] Ev.ev = "pinit" ->
            /\ bad' = bad \cup (IF <<Ev.a, Ev.b>> # smk \/ Ev.c # Ev.a * Ev.b THEN {<<"static-area-shape", l>>} ELSE {})
            /\ UNCHANGED <<inside, smk, lastseq, calls>>
       [] Ev.ev = "wexit" ->
            /\ bad' = bad \cup (IF inside = <<>> \/ inside[1] # Ev.thr \/ Ev.seq # lastseq + 1 THEN {<<"exit-without-its-enter", l>>} ELSE {})
            /\ inside' = <<>> /\ lastseq' = Ev.seq /\ UNCHANGED <<smk, calls>>
       [] OTHER -> UNCHANGED <<inside, smk, lastseq, calls, bad>>
TSpec == Init /\ [][Step]_vars
Report == (l = NL + 1) => PrintT(ToJson([verdict |-> "DaskSchedTrace", calls |-> calls,
                                        rejected |-> {[clause |-> b[1], line |-> b[2]] : b \in bad}]))
=============================================================================
