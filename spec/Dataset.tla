--------------------------------- MODULE Dataset ---------------------------------
(* C06: a dataset is a function from positions (0..3 non-spectral dimensions) to spectra with their own  *)
(* wind and depth.  Every operation is defined POINTWISE: Result(op)[p] = Apply(op, ds[p]).              *)
(* Actions: Fill (choose the shape and which spectrum sits at which position), EditPosition(p, c),       *)
(* Call(op) through the DataArray accessor or the Dataset accessor.  Properties: Isolation (an edit at p *)
(* leaves the result at every q # p unchanged), BatchEqualsSingle (result at p = result for the spectrum *)
(* extracted on its own), AccessorsAgree.  TLC enumerates shapes x fillings x edits and prints one       *)
(* scenario per state for the replay.                                                                    *)
EXTENDS Integers, Sequences, FiniteSets, TLC, Json

CONSTANTS SHAPES,   \* set of shape ids (see ShapeOf)
          NSPEC,    \* number of distinct spectra available
          OPS

ShapeOf(k) == CASE k = 1 -> <<2>> [] k = 2 -> <<2, 2>> [] k = 3 -> <<3, 1, 2>> [] k = 4 -> <<1, 2, 2>> [] k = 5 -> <<1>> [] k = 6 -> <<4>> [] k = 7 -> <<2, 1, 2>> [] k = 8 -> <<2, 2>>
Size(sh) == IF Len(sh) = 1 THEN sh[1] ELSE IF Len(sh) = 2 THEN sh[1] * sh[2] ELSE sh[1] * sh[2] * sh[3]
\* dimension names per shape, in stored order (includes layouts with the spectral dims first and a `part` dimension)
DimsOf(k) == CASE k = 1 -> <<"time">> [] k = 2 -> <<"lat", "lon">> [] k = 3 -> <<"time", "lat", "lon">>
               [] k = 4 -> <<"part", "time", "site">> [] k = 5 -> <<"site">> [] k = 6 -> <<"site">>
               \* several partitions per position (what every partition method returns), `part` stored first or last of the leading dimensions
               [] k = 7 -> <<"part", "time", "site">> [] k = 8 -> <<"time", "part">>

VARIABLES shape, ds, orig, edited, res, stage
vars == <<shape, ds, orig, edited, res, stage>>

Apply(op, c) == <<op, c>>
ResultOf(op, d) == [p \in DOMAIN d |-> Apply(op, d[p])]

Init == /\ shape \in SHAPES
        /\ ds \in [1..Size(ShapeOf(shape)) -> 1..NSPEC]
        /\ orig = ds /\ edited = 0 /\ res = <<>> /\ stage = "filled"
CallA == /\ stage = "filled" /\ \E op \in OPS : res' = ResultOf(op, ds)
         /\ stage' = "called" /\ UNCHANGED <<shape, ds, orig, edited>>
EditA == /\ stage = "called"
         /\ \E p \in DOMAIN ds : \E c \in (1..NSPEC) \ {ds[p]} :
              /\ ds' = [ds EXCEPT ![p] = c] /\ edited' = p
              /\ res' = ResultOf(res[1][1], [ds EXCEPT ![p] = c])
         /\ stage' = "edited" /\ UNCHANGED <<shape, orig>>
Next == CallA \/ EditA
Spec == Init /\ [][Next]_vars

BatchEqualsSingle == stage # "filled" => \A p \in DOMAIN ds : res[p] = Apply(res[1][1], ds[p])
Isolation == [][stage' = "edited" => \A q \in DOMAIN ds : q # edited' => res'[q] = res[q]]_vars
EmitInv == stage = "edited" => PrintT(ToJson([shape |-> ShapeOf(shape), dims |-> DimsOf(shape), before |-> orig, after |-> ds, edited |-> edited]))
=============================================================================
