---------------------------------- MODULE Frame ----------------------------------
(* C17: frame conditions.  A program is a sequence of public operations applied to the same objects    *)
(* (a dataset / array, wind and depth arrays, coordinate arrays, query lists, keyword dictionaries).     *)
(* The state of an object is its full fingerprint (values, coordinates, attributes, encoding, dimension  *)
(* order, chunk structure); only the driver's own Edit may change a fingerprint, a Call never does, also  *)
(* when it raises.  TLC enumerates all programs up to a length bound over the operation alphabet (these  *)
(* are replayed on the real library); FrameTrace checks recorded executions event by event.              *)
EXTENDS Integers, Sequences, FiniteSets, TLC, Json

CONSTANTS OPS, NOBJ, MAXLEN

VARIABLES fp,     \* fingerprint (abstract version number) of each object
          prog    \* operations called so far
vars == <<fp, prog>>
Init == fp = [o \in 1..NOBJ |-> 0] /\ prog = <<>>
Call(op) == /\ Len(prog) < MAXLEN /\ prog' = Append(prog, op) /\ fp' = fp        \* the frame condition
Next == \E op \in OPS : Call(op)
Spec == Init /\ [][Next]_vars
ArgsImmutable == [][\A o \in 1..NOBJ : fp'[o] = fp[o]]_vars
EmitInv == Len(prog) = MAXLEN => PrintT(ToJson([prog |-> prog]))
=============================================================================
