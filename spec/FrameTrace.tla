------------------------------- MODULE FrameTrace -------------------------------
(* Recorded executions against Frame.tla: one ndjson line per call                                      *)
(*   {tid, seq, op, raised: 0/1, objs: [[pre, post], ...]}   (fingerprints as small integers)            *)
(* A trace is accepted iff every call leaves every argument object's fingerprint unchanged.              *)
EXTENDS Integers, Sequences, FiniteSets, TLC, Json, IOUtils, SequencesExt
TraceLog == ndJsonDeserialize(IOEnv.TRACE_FILE)
NL == Len(TraceLog)
VARIABLE l
Changed(i) == {k \in 1..Len(TraceLog[i].objs) : TraceLog[i].objs[k][1] # TraceLog[i].objs[k][2]}
TInit == l = 1 /\ TLCSet(1, 0) /\ TLCSet(2, {})
TNext == /\ l <= NL
         /\ IF Changed(l) = {} THEN TLCSet(1, TLCGet(1) + 1)
            ELSE TLCSet(2, TLCGet(2) \cup {<<TraceLog[l].tid, TraceLog[l].seq, CHOOSE k \in Changed(l) : TRUE>>})
         /\ l' = l + 1
TSpec == TInit /\ [][TNext]_l
Verdict == /\ PrintT(ToJson([verdict |-> "FrameTrace", accepted |-> TLCGet(1),
                             rejected |-> SetToSeq({[tid |-> r[1], seq |-> r[2], obj |-> r[3]] : r \in TLCGet(2)})]))
           /\ TLCGet(2) = {}
=============================================================================
