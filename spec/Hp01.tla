--------------------------------- MODULE Hp01 ---------------------------------
(* Beyond the listed properties: the Hanson & Phillips (2001) merging of swell partitions                      *)
(* (wavespectra/partition/hanson_and_phillips_2001.py, combine_partitions_hp01, reached through            *)
(* spec.partition.hp01).  The watershed yields N disjoint swell partitions (ATOMS); the routine             *)
(*   1. DROPS partitions whose frequency peak sits on the first or last bin (no peak frequency) - a          *)
(*      deliberate step of the code, named here because it is where energy can leave the result;             *)
(*   2. AUTO-MERGES: repeatedly takes the LAST (smallest) group and merges it into a neighbour that meets     *)
(*      the contiguity / angle / distance criteria (or, below hs_min, into the nearest one), re-ranking by    *)
(*      height after every merge, until the last group meets no criterion;                                    *)
(*   3. if a number of swells was requested: either EXTRA-MERGES the last group into its nearest one until    *)
(*      that many are left (combine_extra_swells), or TRUNCATES the ranked list to that many.                 *)
(* Which neighbour qualifies is real-valued physics; the specification leaves that choice nondeterministic    *)
(* and states what every such choice must preserve.  A group is the set of atoms it is made of, the state is  *)
(* the ranked sequence of groups.                                                                             *)
EXTENDS Integers, Sequences, FiniteSets, TLC

CONSTANTS N,        \* swell partitions handed to the routine
          SWELLS,   \* requested number of swells, -1 for "all"
          COMBINE   \* combine_extra_swells

Atoms == 1..N
VARIABLES groups,   \* ranked sequence of disjoint non-empty sets of atoms
          dropped,  \* atoms removed in step 1
          phase,    \* "drop" -> "auto" -> "extra" -> "done"
          lost      \* atoms removed by truncation in step 3
vars == <<groups, dropped, phase, lost>>

Perms(s) == {p \in [1..Len(s) -> 1..Len(s)] : \A a, b \in 1..Len(s) : a # b => p[a] # p[b]}
Reranked(s) == {[k \in 1..Len(s) |-> s[p[k]]] : p \in Perms(s)}
Butlast(s) == SubSeq(s, 1, Len(s) - 1)
MergeLastInto(s, i) == [Butlast(s) EXCEPT ![i] = @ \cup s[Len(s)]]
Union(s) == UNION {s[k] : k \in 1..Len(s)}

Init == /\ groups = [k \in 1..N |-> {k}] /\ dropped = {} /\ phase = "drop" /\ lost = {}

\* step 1: any subset may lack an interior peak
Drop == /\ phase = "drop"
        /\ \E D \in SUBSET Atoms :
             /\ dropped' = D
             /\ groups' = SelectSeq(groups, LAMBDA g : g \cap D = {})
        /\ phase' = "auto" /\ UNCHANGED lost

\* step 2: the last group is merged into some other group, then the list is re-ranked
AutoMerge == /\ phase = "auto" /\ Len(groups) > 1
             /\ \E i \in 1..(Len(groups) - 1) : groups' \in Reranked(MergeLastInto(groups, i))
             /\ UNCHANGED <<dropped, phase, lost>>
AutoStop == /\ phase = "auto" /\ phase' = "extra" /\ UNCHANGED <<groups, dropped, lost>>

\* step 3
ExtraMerge == /\ phase = "extra" /\ SWELLS >= 0 /\ COMBINE /\ Len(groups) > SWELLS /\ Len(groups) > 1
              /\ \E i \in 1..(Len(groups) - 1) : groups' = MergeLastInto(groups, i)
              /\ UNCHANGED <<dropped, phase, lost>>
Truncate == /\ phase = "extra" /\ SWELLS >= 0 /\ ~COMBINE /\ Len(groups) > SWELLS
            /\ groups' = SubSeq(groups, 1, SWELLS)
            /\ lost' = lost \cup Union(SubSeq(groups, SWELLS + 1, Len(groups)))
            /\ UNCHANGED <<dropped, phase>>
Finish == /\ phase = "extra"
          /\ SWELLS < 0 \/ Len(groups) <= SWELLS
          /\ phase' = "done" /\ UNCHANGED <<groups, dropped, lost>>

Done == phase = "done" /\ UNCHANGED vars
Next == Drop \/ AutoMerge \/ AutoStop \/ ExtraMerge \/ Truncate \/ Finish \/ Done
Spec == Init /\ [][Next]_vars
FairSpec == Spec /\ WF_vars(Drop \/ AutoMerge \/ AutoStop \/ ExtraMerge \/ Truncate \/ Finish)

TypeOK == /\ \A k \in 1..Len(groups) : groups[k] # {} /\ groups[k] \subseteq Atoms
          /\ dropped \subseteq Atoms /\ lost \subseteq Atoms
Disjoint == \A a, b \in 1..Len(groups) : a # b => groups[a] \cap groups[b] = {}
\* every atom is in exactly one place: a returned group, the dropped set or the truncated tail
Accounted == /\ Union(groups) \cup dropped \cup lost = Atoms
             /\ Union(groups) \cap dropped = {} /\ Union(groups) \cap lost = {} /\ dropped \cap lost = {}
\* merging itself never loses energy: only the two named steps can
MergesConserve == [][(phase = "auto" /\ phase' = "auto") \/ (phase = "extra" /\ phase' = "extra" /\ COMBINE)
                      => Union(groups') = Union(groups)]_vars
\* with combine_extra_swells (the docstring: "ensures spectral variance is conserved") nothing is truncated
CombineNeverTruncates == COMBINE => lost = {}
\* the count contract
CountOK == phase = "done" /\ SWELLS >= 1 => Len(groups) <= SWELLS
\* each merge shortens the list: the routine terminates after at most N - 1 merges
Shrinks == [][(groups' # groups /\ phase' = phase) => Len(groups') < Len(groups)]_vars
Terminates == <>(phase = "done")
=============================================================================
