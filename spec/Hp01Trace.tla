------------------------------- MODULE Hp01Trace -------------------------------
(* Recorded runs of combine_partitions_hp01 (the harness wraps _combine_last and the function itself and     *)
(* identifies every group by the watershed partitions - atoms - whose bins it holds) against Hp01.tla.      *)
(* One line per event:                                                                                       *)
(*   init  {tid, n, swells, combine}          n atoms, requested count (-1 = all), combine_extra_swells      *)
(*   drop  {tid, d, groups}                   atoms dropped for lack of a peak; the ranked list that is left   *)
(*   merge {tid, i, groups}                   _combine_last(index i, 1-based): the re-ranked list afterwards   *)
(*   final {tid, groups}                      what the routine returned                                       *)
(* Every event must be a step of Hp01.tla: a merge takes the LAST group into group i and re-ranks; the final  *)
(* list is reached from the last auto-merge state by extra merges of the last group (combine) or by cutting   *)
(* the tail (no combine), or is that state re-ranked.  Verdicts are total (registers 1 and 2).                *)
EXTENDS Integers, Sequences, FiniteSets, TLC, Json, IOUtils, SequencesExt, FiniteSetsExt
CONSTANTS N, SWELLS, COMBINE        \* only to instantiate Hp01's operators; the recorded runs carry their own parameters

TraceLog == ndJsonDeserialize(IOEnv.TRACE_FILE)
NL == Len(TraceLog)
VARIABLES l, cur, tid, sw, comb, natoms, seen
tvars == <<l, cur, tid, sw, comb, natoms, seen>>
H == INSTANCE Hp01 WITH groups <- cur, dropped <- {}, phase <- "auto", lost <- {}
MergeLastInto(s, i) == H!MergeLastInto(s, i)

AsSeq(gs) == [k \in 1..Len(gs) |-> {gs[k][j] : j \in 1..Len(gs[k])}]
AsSet(s) == {s[k] : k \in 1..Len(s)}
Ev(i) == IF i <= NL THEN TraceLog[i].ev ELSE "eof"
NextInit(i) == LET c == {j \in (i+1)..NL : TraceLog[j].ev = "init"} IN IF c = {} THEN NL + 1 ELSE CHOOSE j \in c : \A k \in c : j <= k

TInit == l = 1 /\ cur = <<>> /\ tid = -1 /\ sw = -1 /\ comb = FALSE /\ natoms = 0 /\ seen = "idle"
         /\ TLCSet(1, {}) /\ TLCSet(2, {})
Reject(clause) == /\ TLCSet(2, TLCGet(2) \cup {<<tid, clause, l>>})
                  /\ l' = (IF Ev(l) = "init" THEN l ELSE NextInit(l)) /\ seen' = "idle" /\ UNCHANGED <<cur, tid, sw, comb, natoms>>

\* groups reachable from s by extra merges of the last group down to k groups
RECURSIVE ExtraReach(_, _)
ExtraReach(s, k) == IF Len(s) <= k \/ Len(s) <= 1 THEN {s}
                    ELSE UNION {ExtraReach(MergeLastInto(s, i), k) : i \in 1..(Len(s) - 1)}

Step ==
  \/ /\ seen = "idle" /\ Ev(l) = "init"
     /\ tid' = TraceLog[l].tid /\ sw' = TraceLog[l].swells /\ comb' = (TraceLog[l].combine = 1) /\ natoms' = TraceLog[l].n
     /\ cur' = [k \in 1..TraceLog[l].n |-> {k}] /\ seen' = "drop" /\ l' = l + 1
  \/ /\ seen = "drop"
     /\ IF Ev(l) = "drop" /\ LET D == {TraceLog[l].d[j] : j \in 1..Len(TraceLog[l].d)} IN
                               AsSeq(TraceLog[l].groups) = SelectSeq(cur, LAMBDA g : g \cap D = {})
        THEN cur' = AsSeq(TraceLog[l].groups) /\ seen' = "auto" /\ l' = l + 1 /\ UNCHANGED <<tid, sw, comb, natoms>>
        ELSE Reject("drop")
  \/ /\ seen = "auto" /\ Ev(l) = "merge"
     /\ LET i == TraceLog[l].i  after == AsSeq(TraceLog[l].groups) IN
        IF Len(cur) > 1 /\ i \in 1..(Len(cur) - 1) /\ Len(after) = Len(cur) - 1
           /\ AsSet(after) = AsSet(MergeLastInto(cur, i))
        THEN cur' = after /\ l' = l + 1 /\ UNCHANGED <<tid, sw, comb, natoms, seen>>
        ELSE Reject("auto-merge")
  \/ /\ seen = "auto" /\ Ev(l) = "final"
     /\ LET fin == AsSeq(TraceLog[l].groups) IN
        IF \/ (sw < 0 \/ Len(cur) <= sw) /\ AsSet(fin) = AsSet(cur) /\ Len(fin) = Len(cur)
           \/ sw >= 1 /\ Len(cur) > sw /\ comb /\ \E r \in ExtraReach(cur, sw) : AsSet(r) = AsSet(fin) /\ Len(fin) = Len(r)
           \/ sw >= 1 /\ Len(cur) > sw /\ ~comb /\ AsSet(fin) = AsSet(SubSeq(cur, 1, sw)) /\ Len(fin) = sw
        THEN /\ TLCSet(1, TLCGet(1) \cup {tid}) /\ seen' = "idle" /\ l' = l + 1 /\ cur' = fin /\ UNCHANGED <<tid, sw, comb, natoms>>
        ELSE Reject("final")
  \/ /\ seen = "auto" /\ Ev(l) \notin {"merge", "final"} /\ Reject("unexpected-event")
  \/ /\ seen = "idle" /\ l <= NL /\ Ev(l) # "init" /\ Reject("stray-event")

TSpec == TInit /\ [][Step]_tvars
\* evaluated in every state of every recorded run: the invariants of Hp01.tla on the recorded lists
RecDisjoint == \A a, b \in 1..Len(cur) : a # b => cur[a] \cap cur[b] = {}
RecWithinAtoms == \A k \in 1..Len(cur) : cur[k] # {} /\ cur[k] \subseteq 1..natoms
Verdict == /\ PrintT(ToJson([verdict |-> "Hp01Trace", accepted |-> Cardinality(TLCGet(1)),
                              rejected |-> SetToSeq({[tid |-> r[1], clause |-> r[2], line |-> r[3]] : r \in TLCGet(2)})]))
           /\ TLCGet(2) = {}
=============================================================================
