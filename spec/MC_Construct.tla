------------------------------- MODULE MC_Construct -------------------------------
EXTENDS Construct
\* spread classes (degrees): 10, 25, 40, 57 = cos^2s exponents 50, 10, 4, 1; 66 = a broad non-integer exponent below one; 81 = exponent 0,
\* the uniform spreading, whose spread is the largest possible, sqrt(2) rad
\* parameter lattice: <<shape, hs*10, fp index (x100 Hz), gamma*10, ndir, dm*10, dspr, depth, extra-dim>>
Shapes == {"pm", "jonswap", "tma", "gaussian"}
ParamSet == {<<sh, hs, fp, ga, nd, dm, ds, dep, xd>> :
               sh \in Shapes, hs \in {5, 25, 70}, fp \in {8, 10, 13}, ga \in {10, 33, 70}, nd \in {7, 8, 24, 36, 48, 72},
               dm \in {0, 30, 1800, 3575}, ds \in {10, 25, 40, 57, 66, 81}, dep \in {15, 5000}, xd \in {0, 1}}
ParamSmall == {p \in ParamSet : (p[1] \in {"jonswap", "tma"} \/ p[4] = 33) /\ (p[1] = "tma" \/ p[8] = 5000)}
=============================================================================
