------------------------------- MODULE MC_Convert -------------------------------
EXTENDS Convert
CONSTANTS Vals, EMIT
FG(k) == CASE k = 1 -> <<2, 4, 6>> [] k = 2 -> <<2, 3, 7>> [] k = 3 -> <<1, 2>>
\* native direction axes <<start, step, count, order>> in native units (degrees, or steps of pi/12); order 1 ascending, -1 descending
DG(k) == CASE k = 1 -> <<0, 90, 4, 1>> [] k = 2 -> <<10, 120, 3, 1>> [] k = 3 -> <<270, 90, 4, -1>> [] k = 4 -> <<355, 120, 3, 1>>
           [] k = 5 -> <<5, 90, 4, 1>> [] k = 6 -> <<2, 1, 4, 1>>      \* small labels: 5, 95, ..; a narrow sector 2, 3, 4, 5 degrees
\* radian axes in units of pi/2880 (1/16 degree): 90, 120 degree steps, descending, offset, and the 11.25 / 5.625 degree grids of 32 / 64 bins
DGR(k) == CASE k = 1 -> <<0, 1440, 4, 1>> [] k = 2 -> <<16, 1920, 3, 1>> [] k = 3 -> <<4320, 1440, 4, -1>> [] k = 4 -> <<5680, 1920, 3, 1>>
            [] k = 5 -> <<0, 180, 5, 1>> [] k = 6 -> <<90, 90, 4, 1>>
DirSeq(g) == [j \in 1..g[3] |-> IF g[4] = 1 THEN g[1] + (j - 1) * g[2] ELSE g[1] - (j - 1) * g[2]]
DF2(F, i) == IF Len(F) = 1 THEN 40 ELSE IF i = 1 THEN 2 * (F[2] - F[1]) ELSE IF i = Len(F) THEN 2 * (F[Len(F)] - F[Len(F)-1]) ELSE F[i+1] - F[i-1]

VARIABLES conv, F, dg, E,
          keep      \* the direction bins a selection left in the native dataset before it is converted (all of them, one, or two)
vars == <<conv, F, dg, E, keep>>
Init == /\ conv \in CONVS /\ \E k \in {1, 2, 3} : F = FG(k)
        /\ IF conv \in {"ww3", "era5"} THEN \E k \in {1, 2, 3, 4, 5, 6} : dg = DG(k) ELSE \E k \in {1, 2, 3, 4, 5, 6} : dg = DGR(k)
        \* bin-wise property: spectra with at most two non-zero bins cover every bin and pair of bins
        /\ \E S \in {T \in SUBSET ((1..Len(F)) \X (1..dg[3])) : Cardinality(T) <= 2} : \E v \in [S -> Vals \ {0}] :
             /\ E = [i \in 1..Len(F) |-> [j \in 1..dg[3] |-> IF <<i, j>> \in S THEN v[<<i, j>>] ELSE 0]]
             \* narrowed datasets: every single bin and the first two, for the spectra with one non-zero bin lying in the selection
             /\ keep \in {1..dg[3]} \cup (IF Cardinality(S) = 1 THEN {K \in {{j} : j \in 1..dg[3]} \cup {{1, 2}} : \A c \in S : c[2] \in K} ELSE {})
Next == UNCHANGED vars
Spec == Init /\ [][Next]_vars
D == DirSeq(dg)
dd == dg[2]
VariancePreserved == \A i \in 1..Len(F) : \A j \in 1..Len(D) :
   NativeBin(conv, E[i][j], F[i], DF2(F, i), dd) = ConvertedBin(conv, E[i][j], F[i], DF2(F, i), dd)
Circle == IF conv \in {"ww3", "era5"} THEN 360 ELSE 5760
BinKeepsPhysicalDir == \A j \in keep : ConvDir(conv, D[j]) % Circle = PhysicalFrom(conv, D[j]) /\ (conv # "wwm" => ConvDir(conv, D[j]) \in 0..(Circle - 1))
DispatchTotalAndRight == /\ \A c \in {"wavespectra", "ww3", "ncswan", "wwm", "era5", "ndbc"} : Dispatch(NamesOf(c)) = c
                         /\ Dispatch(NamesOf("unknown")) = "reject"
Q3(q) == <<q[1], q[2], q[3]>>
EmitInv == EMIT => PrintT(ToJson([conv |-> conv, F |-> F, D |-> D, dd |-> dd, E |-> E, keep |-> keep,
                                  factor |-> [i \in 1..Len(F) |-> Q3(Factor(conv, F[i]))],
                                  cdir |-> [j \in 1..Len(D) |-> ConvDir(conv, D[j])], dirunit |-> IF conv \in {"ww3", "era5"} THEN 1 ELSE 16]))
=============================================================================
