---- MODULE MC_Hp01_TTrace_1790677730 ----
EXTENDS Sequences, TLCExt, MC_Hp01, Toolbox, Naturals, TLC

_expression ==
    LET MC_Hp01_TEExpression == INSTANCE MC_Hp01_TEExpression
    IN MC_Hp01_TEExpression!expression
----

_trace ==
    LET MC_Hp01_TETrace == INSTANCE MC_Hp01_TETrace
    IN MC_Hp01_TETrace!trace
----

_inv ==
    ~(
        TLCGet("level") = Len(_TETrace)
        /\
        phase = ("done")
        /\
        lost = ({})
        /\
        dropped = ({1, 2})
        /\
        groups = (<<{3}, {4}>>)
    )
----

_init ==
    /\ dropped = _TETrace[1].dropped
    /\ phase = _TETrace[1].phase
    /\ lost = _TETrace[1].lost
    /\ groups = _TETrace[1].groups
----

_next ==
    /\ \E i,j \in DOMAIN _TETrace:
        /\ \/ /\ j = i + 1
              /\ i = TLCGet("level")
        /\ dropped  = _TETrace[i].dropped
        /\ dropped' = _TETrace[j].dropped
        /\ phase  = _TETrace[i].phase
        /\ phase' = _TETrace[j].phase
        /\ lost  = _TETrace[i].lost
        /\ lost' = _TETrace[j].lost
        /\ groups  = _TETrace[i].groups
        /\ groups' = _TETrace[j].groups

\* Uncomment the ASSUME below to write the states of the error trace
\* to the given file in Json format. Note that you can pass any tuple
\* to `JsonSerialize`. For example, a sub-sequence of _TETrace.
    \* ASSUME
    \*     LET J == INSTANCE Json
    \*         IN J!JsonSerialize("MC_Hp01_TTrace_1790677730.json", _TETrace)

=============================================================================

 Note that you can extract this module `MC_Hp01_TEExpression`
  to a dedicated file to reuse `expression` (the module in the 
  dedicated `MC_Hp01_TEExpression.tla` file takes precedence 
  over the module `MC_Hp01_TEExpression` below).

---- MODULE MC_Hp01_TEExpression ----
EXTENDS Sequences, TLCExt, MC_Hp01, Toolbox, Naturals, TLC

expression == 
    [
        \* To hide variables of the `MC_Hp01` spec from the error trace,
        \* remove the variables below.  The trace will be written in the order
        \* of the fields of this record.
        dropped |-> dropped
        ,phase |-> phase
        ,lost |-> lost
        ,groups |-> groups
        
        \* Put additional constant-, state-, and action-level expressions here:
        \* ,_stateNumber |-> _TEPosition
        \* ,_droppedUnchanged |-> dropped = dropped'
        
        \* Format the `dropped` variable as Json value.
        \* ,_droppedJson |->
        \*     LET J == INSTANCE Json
        \*     IN J!ToJson(dropped)
        
        \* Lastly, you may build expressions over arbitrary sets of states by
        \* leveraging the _TETrace operator.  For example, this is how to
        \* count the number of times a spec variable changed up to the current
        \* state in the trace.
        \* ,_droppedModCount |->
        \*     LET F[s \in DOMAIN _TETrace] ==
        \*         IF s = 1 THEN 0
        \*         ELSE IF _TETrace[s].dropped # _TETrace[s-1].dropped
        \*             THEN 1 + F[s-1] ELSE F[s-1]
        \*     IN F[_TEPosition - 1]
    ]

=============================================================================



Parsing and semantic processing can take forever if the trace below is long.
 In this case, it is advised to uncomment the module below to deserialize the
 trace from a generated binary file.

\*
\*---- MODULE MC_Hp01_TETrace ----
\*EXTENDS IOUtils, MC_Hp01, TLC
\*
\*trace == IODeserialize("MC_Hp01_TTrace_1790677730.bin", TRUE)
\*
\*=============================================================================
\*

---- MODULE MC_Hp01_TETrace ----
EXTENDS MC_Hp01, TLC

trace == 
    <<
    ([phase |-> "drop",lost |-> {},dropped |-> {},groups |-> <<{1}, {2}, {3}, {4}>>]),
    ([phase |-> "auto",lost |-> {},dropped |-> {1, 2},groups |-> <<{3}, {4}>>]),
    ([phase |-> "extra",lost |-> {},dropped |-> {1, 2},groups |-> <<{3}, {4}>>]),
    ([phase |-> "done",lost |-> {},dropped |-> {1, 2},groups |-> <<{3}, {4}>>])
    >>
----


=============================================================================

---- CONFIG MC_Hp01_TTrace_1790677730 ----
CONSTANTS
    N = 4
    SWELLS = 2
    COMBINE = FALSE

INVARIANT
    _inv

CHECK_DEADLOCK
    \* CHECK_DEADLOCK off because of PROPERTY or INVARIANT above.
    FALSE

INIT
    _init

NEXT
    _next

CONSTANT
    _TETrace <- _trace

ALIAS
    _expression
=============================================================================
\* Generated on Tue Sep 29 10:28:52 UTC 2026