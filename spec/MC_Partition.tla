------------------------------ MODULE MC_Partition ------------------------------
(* Exhaustive model for C03: every spectrum over Vals, every label map with at most NLAB classes (canonical  *)
(* numbering), every wave-age mask realisable by one wind (amplitude A = agefac*wspd, direction wd), every    *)
(* cutoff and every requested count.  Invariants: each result the pipeline can return satisfies the clauses. *)
EXTENDS Partition, Json

CONSTANTS Vals, NLAB, AOPTS, WDOPTS, CUTS, REQS, EMIT

F37 == <<3, 7>>
F26 == <<2, 6>>
F237 == <<2, 3, 7>>
F246 == <<2, 4, 6>>
F5 == <<5>>
CutsAll == {<<0, 1>>, <<3333, 10000>>, <<1, 1>>}
CutsDefault == {<<3333, 10000>>}

\* directions of the grid: uniform, starting at 0
Dir(j) == j * (360 \div NTH)
Cos1000(a) == LET b == ((a % 360) + 360) % 360 IN
              CASE b = 0 -> 1000 [] b = 60 -> 500 [] b = 90 -> 0 [] b = 120 -> -500 [] b = 180 -> -1000
                [] b = 240 -> -500 [] b = 270 -> 0 [] b = 300 -> 500 [] b = 30 -> 866 [] b = 150 -> -866
                [] b = 210 -> -866 [] b = 330 -> 866 [] OTHER -> 0
\* wave-age mask:  A cos(dir - wd) > celerity = 1.56/f = 31.2/F   <=>   A * cos1000 * F > 31200
\* A = 0 stands for a calm AND for a missing wind (speed, direction or depth not a number: the comparison is false for every bin);
\* the replay realises it either way
MaskOf(A, wd) == {n \in Px : A * Cos1000(Dir(DJ(n)) - wd) * F[FI(n) + 1] > 31200}

\* label maps with canonical numbering: label of bin 0 is 1 and a new label is always the next unused one
Canonical(L) == /\ L[0] = 1
                /\ \A n \in Px : n > 0 => L[n] <= Max({L[m] : m \in 0..(n-1)}) + 1
LabelMaps == {L \in [Px -> 1..NLAB] : Canonical(L)}

VARIABLES E, L, A, wd, cut, req
vars == <<E, L, A, wd, cut, req>>
Init == /\ E \in [Px -> Vals] /\ L \in LabelMaps /\ A \in AOPTS /\ wd \in WDOPTS /\ cut \in CUTS /\ req \in REQS
Next == UNCHANGED vars
Spec == Init /\ [][Next]_vars

W == MaskOf(A, wd)
CutN == cut[1]
CutD == cut[2]
P1 == Ptm1(E, L, W, CutN, CutD, req)
P2 == Ptm2(E, L, W, CutN, CutD, req)
P3 == Ptm3(E, L, req)

Ptm1Valid == \A out \in P1 : ValidPtm1(E, L, W, CutN, CutD, req, out)
Ptm2Valid == \A out \in P2 : ValidPtm2(E, L, W, CutN, CutD, req, out)
Ptm3Valid == \A out \in P3 : ValidPtm3(E, L, req, out)
NonEmptyOutcome == P1 # {} /\ P2 # {} /\ P3 # {}

Tie == \E l \in Labels(L) : CutTie(PartOf(E, L, l), W, CutN, CutD)
Arr(a) == [k \in 1..NSPEC |-> a[k-1]]
OutSet(S) == SetToSeq({[k \in 1..Len(o) |-> Arr(o[k])] : o \in S})
EmitInv == EMIT => PrintT(ToJson([E |-> Arr(E), L |-> Arr(L), A |-> A, wd |-> wd, cutn |-> CutN, cutd |-> CutD, req |-> req,
                                  tie |-> Tie, W |-> SetToSeq(W), nk |-> NK, nth |-> NTH, F |-> F,
                                  ptm1 |-> OutSet(P1), ptm2 |-> OutSet(P2), ptm3 |-> OutSet(P3)]))
=============================================================================
