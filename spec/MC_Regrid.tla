-------------------------------- MODULE MC_Regrid --------------------------------
(* Exhaustive lattice for C08: source grids (sorted / offset / unsorted / duplicated 0-360 bin / partial circle),   *)
(* target grids (same, finer, coarser, shifted, extending below and above), every spectrum over Vals; plus rotations. *)
EXTENDS Regrid, Json

CONSTANTS Vals, FSRC, DSRC, FTGT, DTGT, ROTS, EMIT

FS(k) == CASE k = 1 -> <<2, 4, 6>> [] k = 2 -> <<2, 3, 7>> [] k = 3 -> <<3, 8>> [] k = 4 -> <<5>>
DS(k) == CASE k = 1 -> <<0, 90, 180, 270>> [] k = 2 -> <<10, 130, 250>> [] k = 3 -> <<180, 0, 270, 90>>
           [] k = 4 -> <<0, 120, 240, 360>> [] k = 5 -> <<20, 40, 60>> [] k = 6 -> <<300, 60, 180>>
\* target frequencies: 0 keep, 1 the source itself, 2 finer, 3 coarser / shifted, 4 extending below and above
FT(k, F) == CASE k = 0 -> <<>> [] k = 1 -> F [] k = 2 -> <<2, 3, 4, 5, 6>> [] k = 3 -> <<3, 5>> [] k = 4 -> <<1, 2, 5, 9>>
DT(k, D) == CASE k = 0 -> <<>> [] k = 1 -> SortInts({D[j] % 360 : j \in 1..Len(D)}) [] k = 2 -> <<0, 45, 90, 135, 180, 225, 270, 315>>
              [] k = 3 -> <<15, 105, 195, 285>> [] k = 4 -> <<355, 5, 50>> [] k = 5 -> <<30, 50>>

VARIABLES F, D, E, tf, td, m0, rot,
          out      \* the result, computed once per state
vars == <<F, D, E, tf, td, m0, rot, out>>
Init == /\ \E k \in FSRC : F = FS(k)
        /\ \E k \in DSRC : D = DS(k)
        /\ E \in [1..Len(F) -> [1..Len(D) -> Vals]]
        /\ \/ (rot = -1 /\ \E a \in FTGT, b \in DTGT : tf = FT(a, F) /\ td = DT(b, D) /\ (a # 0 \/ b # 0) /\ m0 \in BOOLEAN)
           \/ (rot \in ROTS /\ tf = <<>> /\ td = <<>> /\ m0 = TRUE)
        /\ out = IF rot = -1 THEN Regrid(F, D, E, tf, td, m0) ELSE Rotate(F, D, E, rot)
Next == UNCHANGED vars
Spec == Init /\ [][Next]_vars

Out == out
OF == IF rot = -1 THEN OutF(F, tf) ELSE F
OD == IF rot = -1 THEN OutD(D, td) ELSE D
HasNaN == \E i \in 1..Len(Out) : \E j \in 1..Len(Out[i]) : IsNaN(Out[i][j])
Labels(d) == {d[j] % 360 : j \in 1..Len(d)}
Plain == Cardinality(Labels(D)) = Len(D)                         \* no duplicated bin
SameGrid == rot = -1 /\ (tf = <<>> \/ tf = F) /\ (td = <<>> \/ td = D)

ShapeIsTarget == Len(Out) = Len(OF) /\ \A i \in 1..Len(Out) : Len(Out[i]) = Len(OD)
NonNegative == \A i \in 1..Len(Out) : \A j \in 1..Len(Out[i]) : RGeq0(Out[i][j])
ZeroAboveTop == rot = -1 /\ tf # <<>> => \A i \in 1..Len(tf) : tf[i] > F[Len(F)] => \A j \in 1..Len(Out[i]) : IsNaN(Out[i][j]) \/ Out[i][j][1] = 0
\* identity on the same grid (sorted labels): with or without variance conservation
IdentityOnSameGrid == (SameGrid /\ Plain /\ ~HasNaN /\ HsNum(F, D, ToR(E))[1] # 0) => Out = ToR(E)
\* variance conservation is exact, tail rule and the target's own widths included
HsPreserved == (m0 /\ ~HasNaN /\ HsNum(F, D, ToR(E))[1] # 0 /\ HsNum(OF, OD, Out)[1] # 0) =>
                  HsNum(OF, OD, Out) = (IF rot = -1 THEN HsNum(F, D, ToR(E)) ELSE HsNum(F, [j \in 1..Len(D) |-> (D[j] + rot) % 360], ToR(E)))
\* rotating by a whole number of bins of a full-circle uniform grid is a circular shift; by 360 the identity
FullUniform == Plain /\ LET s == SortInts(Labels(D)) IN Len(s) >= 2 /\ (\A k \in 1..(Len(s)-1) : s[k+1] - s[k] = s[2] - s[1]) /\ s[Len(s)] - s[1] + (s[2] - s[1]) = 360
ValueAt(lab) == LET j == CHOOSE j \in 1..Len(D) : D[j] % 360 = lab IN [i \in 1..Len(F) |-> R(E[i][j])]
WholeBinRotationIsShift ==
  (rot # -1 /\ FullUniform /\ rot % DDof(D) = 0 /\ HsNum(F, D, ToR(E))[1] # 0) =>
     \A j \in 1..Len(D) : [i \in 1..Len(F) |-> Out[i][j]] = ValueAt((((D[j] - rot) % 360) + 360) % 360)
Rotate360IsIdentity == (rot = 360 /\ Plain /\ HsNum(F, D, ToR(E))[1] # 0) => Out = ToR(E)

Q(r) == <<r[1], r[2]>>
EmitInv == EMIT => PrintT(ToJson([F |-> F, D |-> D, E |-> E, tf |-> tf, td |-> td, m0 |-> m0, rot |-> rot,
                                  out |-> [i \in 1..Len(Out) |-> [j \in 1..Len(Out[i]) |-> Q(Out[i][j])]]]))
=============================================================================
