--------------------------------- MODULE MC_Select ---------------------------------
EXTENDS Select, Json
CONSTANTS NST, NQ, TOLS, MAXS, EMIT
\* station / query lattices: both sides of the 0 and 180 meridians, plus mid-ocean points (lon in half-degree units)
\* (exactly 180 deg is left out: it reads +180 and -180 alike in the [-180,180] convention)
SPOS == {<<2, 0>>, <<718, 0>>, <<358, 2>>, <<362, 2>>, <<100, 0>>, <<620, 2>>, <<0, 2>>, <<357, 0>>, <<360, 0>>}     \* the last one sits exactly on the 180 meridian
QPOS == {<<0, 0>>, <<716, 1>>, <<361, 2>>, <<120, 0>>, <<600, 1>>, <<2, 0>>, <<359, 2>>,
         <<718, 0>>, <<362, 2>>}      \* the last two name a western-hemisphere station exactly (zero distance across conventions)
VARIABLES st, qs, convD, convQ, tol, maxs
vars == <<st, qs, convD, convQ, tol, maxs>>
Inj(s) == \A a, b \in 1..Len(s) : a # b => s[a] # s[b]
Init == /\ st \in [1..NST -> SPOS] /\ Inj(st) /\ \A a \in 1..(NST-1) : st[a][1] <= st[a+1][1]     \* station order is immaterial: canonical
        /\ qs \in [1..NQ -> QPOS]
        /\ convD \in {180, 360} /\ convQ \in {180, 360} /\ tol \in TOLS /\ maxs \in MAXS
Next == UNCHANGED vars
Spec == Init /\ [][Next]_vars

NearestIsMin == \A k \in 1..NQ : \A s \in NearestSet(st, qs[k]) : \A o \in 1..NST : Dist2(st[s], qs[k]) <= Dist2(st[o], qs[k])
ShortWay == \A a \in SPOS, b \in QPOS : LonDiff(a[1], b[1]) <= 360 /\ LonDiff(a[1], b[1]) = LonDiff(b[1], a[1])
IdwWithinTolerance == \A k \in 1..NQ : \A S \in IdwChoices(st, qs[k], tol, maxs) : Cardinality(S) <= maxs /\ \A s \in S : Dist2(st[s], qs[k]) <= tol * tol
ToleranceWidens == \A t2 \in TOLS : t2 >= tol => BBox(st, qs, convQ, tol) \subseteq BBox(st, qs, convQ, t2)
BBoxContainsEnclosed == \A k \in 1..NST : (\E a \in 1..NQ : st[k] = qs[a]) => k \in BBox(st, qs, convQ, tol)

Emit == [st |-> st, qs |-> qs, convD |-> convD, convQ |-> convQ, tol |-> tol, maxs |-> maxs,
         nearest |-> [k \in 1..NQ |-> IF NearestFails(st, qs[k], tol) THEN <<>> ELSE SetToSeq(NearestSet(st, qs[k]))],
         idw |-> [k \in 1..NQ |-> [exact |-> SetToSeq(IdwExact(st, qs[k], tol)), missing |-> IdwMissing(st, qs[k], tol, maxs),
                                   choices |-> SetToSeq({SetToSeq(S) : S \in IdwChoices(st, qs[k], tol, maxs)}),
                                   d2 |-> [s \in 1..NST |-> Dist2(st[s], qs[k])]]],
         bbox |-> SetToSeq(BBox(st, qs, convQ, tol)),
         bbox_other |-> SetToSeq(BBox(st, qs, IF convQ = 180 THEN 360 ELSE 180, tol)),    \* for queries that read the same in both conventions
         replon |-> [s \in 1..NST |-> Rep(st[s][1], convQ)]]
EmitInv == EMIT => PrintT(ToJson(Emit))
=============================================================================
