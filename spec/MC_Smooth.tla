-------------------------------- MODULE MC_Smooth --------------------------------
EXTENDS Smooth, Json
CONSTANTS Vals, NF, DSETS, WINS, EMIT
DS(k) == CASE k = 1 -> <<0, 90, 180, 270>> [] k = 2 -> <<180, 270, 0, 90>> [] k = 3 -> <<270, 180, 90, 0>> [] k = 4 -> <<10, 30, 50, 70>>
           [] k = 5 -> <<0, 60, 120, 180, 240, 300>> [] k = 6 -> <<45, 165, 285>> [] k = 7 -> <<90, 0, 270, 180>>
           [] k = 8 -> <<0, 72, 144, 216, 288>> [] k = 9 -> <<50, 10, 70, 30>>      \* partial circle stored unsorted
           [] k = 10 -> <<-180, -90, 0, 90>>    \* full circle in the -180..180 convention
           [] k = 11 -> <<90, 180, 270, 360>>   \* full circle with north labelled 360
VARIABLES D, E, fw, fd, status, out
vars == <<D, E, fw, fd, status, out>>
Init == /\ \E k \in DSETS : D = DS(k)
        /\ E \in [1..NF -> [1..Len(D) -> Vals]]
        /\ fw \in WINS /\ fd \in WINS
        /\ status = IF Even(fw) \/ Even(fd) THEN "ValueError" ELSE IF ~Admissible(NF, D, fw, fd) THEN "skip" ELSE "ok"
        /\ out = IF status = "ok" THEN SmoothAll(NF, D, E, fw, fd) ELSE <<>>
Next == UNCHANGED vars
Spec == Init /\ [][Next]_vars
Ok == status = "ok"
Cells(i, j) == Window(NF, D, i, j, fw, fd)
WithinWindowMinMax == Ok => \A i \in 1..NF : \A j \in 1..Len(D) :
   IF Cells(i, j) = {} THEN out[i][j] = R(E[i][j])
   ELSE /\ RLeq(R(Min({E[c[1]][c[2]] : c \in Cells(i, j)})), out[i][j])
        /\ RLeq(out[i][j], R(Max({E[c[1]][c[2]] : c \in Cells(i, j)})))
NonNegative == Ok => \A i \in 1..NF : \A j \in 1..Len(D) : RGeq0(out[i][j])
ConstantPreserved == (Ok /\ \A i \in 1..NF : \A j \in 1..Len(D) : E[i][j] = E[1][1]) => \A i \in 1..NF : \A j \in 1..Len(D) : out[i][j] = R(E[1][1])
WindowOneIdentity == (Ok /\ fw = 1 /\ fd = 1) => out = [i \in 1..NF |-> [j \in 1..Len(D) |-> R(E[i][j])]]
\* on a full circle smoothing commutes with a circular shift of the data along the (sorted) direction axis
ShiftE == [i \in 1..NF |-> [j \in 1..Len(D) |-> E[i][ColOfRank(D, Wrap(Rank(D, j) + 1, Len(D)))]]]
CommutesWithDirShift == (Ok /\ IsCircular(D)) =>
   SmoothAll(NF, D, ShiftE, fw, fd) = [i \in 1..NF |-> [j \in 1..Len(D) |-> out[i][ColOfRank(D, Wrap(Rank(D, j) + 1, Len(D)))]]]
EvenRejected == (Even(fw) \/ Even(fd)) <=> status = "ValueError"
EmitInv == (EMIT /\ status # "skip") => PrintT(ToJson([nf |-> NF, D |-> D, E |-> E, fw |-> fw, fd |-> fd, circular |-> IsCircular(D),
                              out |-> IF status # "ok" THEN <<>> ELSE [i \in 1..NF |-> [j \in 1..Len(D) |-> <<out[i][j][1], out[i][j][2]>>]],
                              rejected |-> status = "ValueError"]))
=============================================================================
