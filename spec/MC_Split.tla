--------------------------------- MODULE MC_Split ---------------------------------
EXTENDS Split, Json
CONSTANTS Vals, MODE, DSETS, EMIT,
          MAXNZ     \* spectra with at most MAXNZ non-zero bins (every bin, pair, triple ... of bins is still covered)
FG == <<2, 3, 5, 8>>          \* 0.10 0.15 0.25 0.40 Hz
DS(k) == CASE k = 1 -> <<0, 90, 180, 270>> [] k = 2 -> <<30, 150, 270>> [] k = 3 -> <<180, 0, 270, 90>> [] k = 4 -> <<15, 45, 75>>
           [] k = 5 -> <<90, 180, 270, 360>>      \* north labelled 360: labels are compared as they are, not modulo 360
\* PTM4: celerity classes per frequency (decreasing with f) and wind-component classes per direction, incl. equality
CSEQ == <<8, 5, 3, 2>>
\* MISSING stands for a wind component that is not a number (missing wind speed, wind direction or depth for that bin): the rule
\* "celerity <= component" is false for it, so the bin is swell - as for any component below every celerity class, which is how the
\* integer -999 behaves in Ptm4Sea / Ptm4Swell.  The harness realises MISSING as NaN (in wspd, in wdir, or - whole record - in dpt).
MISSING == -999
USET(n) == IF n = 3 THEN {<<8, 2, 0>>, <<5, 5, 1>>, <<3, 9, -4>>, <<0, 0, 0>>, <<MISSING, 9, MISSING>>, <<MISSING, MISSING, MISSING>>}
           ELSE {<<8, 2, 0, -3>>, <<5, 5, 1, 3>>, <<2, 9, -4, 8>>, <<1, 1, 1, 1>>, <<8, MISSING, 5, MISSING>>, <<MISSING, MISSING, MISSING, MISSING>>}
\* boxes: [fmin, fmax, dmin, dmax], -1 omitted
BOXSETS == { << <<2, 3, 0, 100>>, <<5, 8, -1, -1>> >>,            \* disjoint, second with omitted direction limits
             << <<-1, 3, -1, 100>>, <<4, -1, 120, -1>> >>,          \* omitted lower / upper limits
             << <<2, 5, 0, 200>>, <<3, 8, 100, 300>> >>,            \* overlapping rectangles: rejected
             << <<2, 5, 0, 90>>, <<2, 5, 90, 300>> >>,              \* share the edge d = 90 (not overlapping as rectangles)
             << <<3, 3, 0, 360>> >>,                                  \* fmin = fmax: rejected
             << <<2, 8, 40, 200>> >>,
             << <<2, 8, 0, 200>>, <<3, 5, 90, 90>> >>,              \* a one-row box (dmin = dmax) INSIDE another box: they share bins, rejected
             << <<2, 3, 0, 100>>, <<5, 8, 180, 180>> >>,            \* a one-row box apart from the other: valid, owns the bins of that direction
             << <<2, 8, 30, 30>>, <<2, 8, 150, 150>> >>,
             << <<2, 8, 0, 0>> >> }                                  \* the one row at north: an explicit limit of zero is a limit            \* two one-row boxes
CUTS == {<<3, 8>>, <<4, 6>>, <<2, 5>>, <<-1, 6>>, <<4, -1>>, <<3, 7>>}     \* fmin, fmax on and off nodes
DCUTS == {<<-1, -1>>, <<40, 200>>, <<90, 270>>, <<-1, 180>>}
FCUTS == {3, 4, 6, 7}

VARIABLES D, E, sel, res
vars == <<D, E, sel, res>>
Init == /\ \E k \in DSETS : D = DS(k)
        /\ \E S \in {T \in SUBSET ((1..Len(FG)) \X (1..Len(D))) : Cardinality(T) <= MAXNZ} :
             \E v \in [S -> Vals \ {0}] :
                E = [i \in 1..Len(FG) |-> [j \in 1..Len(D) |-> IF <<i, j>> \in S THEN v[<<i, j>>] ELSE 0]]
        /\ CASE MODE = "ptm4" -> sel \in USET(Len(D))
             [] MODE = "bbox" -> sel \in BOXSETS
             [] MODE = "band" -> sel \in (CUTS \X DCUTS)
             [] MODE = "ptm5" -> sel \in FCUTS
        /\ res = CASE MODE = "ptm4" -> <<Ptm4Sea(CSEQ, sel, D, E), Ptm4Swell(CSEQ, sel, D, E)>>
                   [] MODE = "bbox" -> IF BoxesRejected(FG, D, sel) THEN <<>> ELSE BboxParts(FG, D, E, sel)
                   [] MODE = "band" -> Band(FG, D, E, sel[1][1], sel[1][2], sel[2][1], sel[2][2])
                   [] MODE = "ptm5" -> <<Ptm5Sea(FG, D, E, sel), Ptm5Swell(FG, D, E, sel)>>
Next == UNCHANGED vars
Spec == Init /\ [][Next]_vars

Es == SortCols(D, E)
SeqSumInt(q) == LET f[k \in 0..Len(q)] == IF k = 0 THEN 0 ELSE f[k-1] + q[k] IN f[Len(q)]
Ptm4OK == MODE = "ptm4" =>
   /\ \A i \in 1..Len(FG) : \A k \in 1..Len(D) : (res[1][i][k] = 0 \/ res[2][i][k] = 0) /\ res[1][i][k] + res[2][i][k] = Es[i][k]
MissingIsSwell == MODE = "ptm4" => \A i \in 1..Len(FG) : \A k \in 1..Len(D) :
                     LET u == [j \in 1..Len(D) |-> sel[SortedIdx(D)[j]]] IN u[k] = MISSING => res[1][i][k] = 0
BboxOK == (MODE = "bbox" /\ res # <<>>) =>
   /\ \A i \in 1..Len(FG) : \A k \in 1..Len(D) :
        /\ \A a \in 1..Len(sel) : res[a][i][k] = (IF InBox(FG, D, sel[a], i, k) THEN Es[i][k] ELSE 0)
        /\ (~SharesBin(FG, D, sel) => SeqSumInt([a \in 1..Len(res) |-> res[a][i][k]]) = Es[i][k])
OverlapRejected == MODE = "bbox" => (res = <<>> <=> BoxesRejected(FG, D, sel))
BandOK == MODE = "band" =>
   LET bf == BandF(FG, sel[1][1], sel[1][2]) bd == BandD(D, sel[2][1], sel[2][2]) IN
   \A a \in 1..Len(bf) : \A k \in 1..Len(bd) :
      (\E i \in 1..Len(FG) : FG[i] = bf[a]) =>
          res[a][k] = R(E[CHOOSE i \in 1..Len(FG) : FG[i] = bf[a]][CHOOSE j \in 1..Len(D) : D[j] = bd[k]])      \* inside the band: unchanged
Ptm5OK == MODE = "ptm5" =>
   LET f == Ptm5F(FG, sel) IN
   \A a \in 1..Len(f) : \A k \in 1..Len(D) :
      /\ (f[a] < sel => res[1][a][k] = <<0, 1>>) /\ (f[a] > sel => res[2][a][k] = <<0, 1>>)
      /\ LET b == Ptm5Base(FG, D, E, sel)[a][k] IN ~IsNaN(b) => ((f[a] >= sel => res[1][a][k] = b) /\ (f[a] <= sel => res[2][a][k] = b))

QQ(x) == IF MODE \in {"band", "ptm5"} THEN <<x[1], x[2]>> ELSE <<x, 1>>
EmitInv == EMIT => PrintT(ToJson([mode |-> MODE, F |-> FG, D |-> D, E |-> E, sel |-> sel, C |-> CSEQ,
                                  rejected |-> (MODE = "bbox" /\ res = <<>>),
                                  bandf |-> IF MODE = "band" THEN BandF(FG, sel[1][1], sel[1][2]) ELSE IF MODE = "ptm5" THEN Ptm5F(FG, sel) ELSE FG,
                                  bandd |-> IF MODE = "band" THEN BandD(D, sel[2][1], sel[2][2]) ELSE SortedD(D),
                                  res |-> IF MODE = "band" THEN <<[a \in 1..Len(res) |-> [k \in 1..Len(res[a]) |-> QQ(res[a][k])]]>>
                                          ELSE [p \in 1..Len(res) |-> [a \in 1..Len(res[p]) |-> [k \in 1..Len(res[p][a]) |-> QQ(res[p][a][k])]]]]))
=============================================================================
