-------------------------------- MODULE MC_Stats --------------------------------
(* Exhaustive lattice for C01 / C02 / C10: every spectrum over Vals on every grid of the families   *)
(* below.  Each state is one (grid, spectrum); the invariants are the algebraic consequences the     *)
(* properties state, and Emit prints the exact expected value of every statistic for the replay.    *)
EXTENDS Stats, Json

CONSTANTS Vals,     \* energy alphabet
          FSETS,    \* which frequency grids (subset of 1..6, see FGrid)
          DSETS,    \* which direction grids (subset of 0..7, see DGrid; 0 = 1-D spectrum)
          EMIT, SMALL

\* frequency grids in units of 0.05 Hz
FGrid(k) == CASE k = 1 -> <<1, 2, 4, 8>>        \* log-like, top 0.40 Hz (> 0.333: tail)
              [] k = 2 -> <<2, 3, 7>>            \* irregular, top 0.35 Hz (tail)
              [] k = 3 -> <<2, 4, 6>>            \* uniform, top 0.30 Hz (no tail)
              [] k = 4 -> <<3>>                  \* single frequency
              [] k = 5 -> <<1, 3, 4, 6, 9>>      \* irregular 5 frequencies (peaks at several positions)
              [] k = 6 -> <<2, 3, 4, 5, 6, 8, 12>> \* 7 frequencies, alpha window holds 0, 1 or 2 bins depending on the peak
\* direction grids <<start, spacing, count>>; count 0 = no direction dimension
DGrid(k) == CASE k = 0 -> <<0, 1, 0>>
              [] k = 1 -> <<0, 90, 4>>           \* full circle from 0
              [] k = 2 -> <<5, 120, 3>>          \* full circle, offset start
              [] k = 3 -> <<350, 1, 1>>          \* one direction
              [] k = 4 -> <<30, 180, 2>>         \* two directions
              [] k = 5 -> <<10, 20, 3>>          \* partial circle
              [] k = 6 -> <<45, 90, 4>>          \* full circle, offset 45
              [] k = 7 -> <<0, 60, 6>>           \* six directions
DirSeq(g) == [j \in 1..g[3] |-> g[1] + (j - 1) * g[2]]

VARIABLES vF, vdg, vE
vars == <<vF, vdg, vE>>
ND == vdg[3]
DDw == vdg[2]
vD == DirSeq(vdg)
vn == Len(vF)

Init == /\ \E k \in FSETS : vF = FGrid(k)
        /\ \E k \in DSETS : vdg = DGrid(k)
        /\ IF vdg[3] = 0 THEN vE \in [1..Len(vF) -> Vals] ELSE vE \in [1..Len(vF) -> [1..vdg[3] -> Vals]]
Next == UNCHANGED vars
Spec == Init /\ [][Next]_vars

(* ---------------- C01: algebraic consequences, exact ---------------- *)
\* 1-vD = direction-integrated 2-vD: every frequency-integrated statistic is a function of S0 (and dd) only
OnedOf == [i \in 1..vn |-> S0(vE, i, ND)]
OnedConsistent == \A k \in 0..4 : MP(vF, OnedOf, 0, k) = MP(vF, vE, ND, k)
TailRule == (TailP(vF, vE, ND) # 0) => vF[vn] >= 7
HrmsHsRelation == 2 * (8 * EtotNum(vF, vE, ND, TRUE)) = 16 * EtotNum(vF, vE, ND, TRUE)     \* Hs^2 = 2 Hrms^2
(* ---------------- C10: bounds as polynomial inequalities between moments (small lattices only) ---------------- *)
Pos == MP(vF, vE, ND, 0) > 0
CauchySchwarz == (SMALL /\ Pos) => /\ MP(vF, vE, ND, 1) * MP(vF, vE, ND, 1) <= MP(vF, vE, ND, 0) * MP(vF, vE, ND, 2)   \* Tm02 <= Tm01, sw real
                                  /\ MP(vF, vE, ND, 2) * MP(vF, vE, ND, 2) <= MP(vF, vE, ND, 0) * MP(vF, vE, ND, 4)   \* 0 <= swe^2 <= 1
PeriodBounds == (SMALL /\ Pos) => /\ MP(vF, vE, ND, 1) <= MP(vF, vE, ND, 0) * vF[vn]        \* Tm01 >= 1/fmax
                                 /\ MP(vF, vE, ND, 1) >= MP(vF, vE, ND, 0) * vF[1]        \* Tm01 <= 1/fmin
                                 /\ MP(vF, vE, ND, 2) <= MP(vF, vE, ND, 0) * vF[vn] * vF[vn] \* Tm02 >= 1/fmax
                                 /\ MP(vF, vE, ND, 2) >= MP(vF, vE, ND, 0) * vF[1] * vF[1]
(* ---------------- C02 ---------------- *)
VertexBetweenNeighbours == \A p \in PeakSet(vE, ND, vn) : VertexInside(vF, vE, ND, p)
PeakIsInterior == \A p \in TopPeaks(vE, ND, vn) : p > 1 /\ p < vn
NoPeakWhenMonotone == (\A i \in 1..(vn-1) : S0(vE, i, ND) <= S0(vE, i+1, ND)) => PeakSet(vE, ND, vn) = {}
DpIsACoordinate == ND > 0 => DpSet(vF, vE, vD) \subseteq {vD[j] : j \in 1..ND} /\ DpSet(vF, vE, vD) # {}

PeakRec(p) ==
  LET fpn == FpNum(vF, vE, ND, p) fpd == FpDen(vF, vE, ND, p) IN
  [p |-> p, tp_raw |-> TpRaw(vF, p), fp_smooth |-> Div(VertexF(vF, vE, ND, p), Q(20, 1)),
   win |-> SetToSeqOrd(AlphaWin(vF, fpn, fpd)), pos |-> SetToSeqOrd(AlphaPos(vF, fpn, fpd)),
   alpha |-> AlphaOf(vF, vE, ND, DDw, fpn, fpd),
   \* smooth = False: the discrete peak frequency F[p] is the one alpha and gamma are evaluated at
   alpha_raw |-> AlphaOf(vF, vE, ND, DDw, vF[p], 1),
   gamma_noscale_raw |-> GammaRaw(vF, vE, ND, DDw, vF[p], 1, S0(vE, p, ND)),
   gamma_raw |-> GammaRaw(vF, vE, ND, DDw, fpn, fpd, S0(vE, p, ND)),
   gamma_raw_at_max |-> GammaRaw(vF, vE, ND, DDw, fpn, fpd, SfMaxNum(vF, vE, ND)),
   dpm |-> IF ND = 0 THEN NaNTok ELSE Dpm(vE, vD, p),
   dpspr |-> IF ND = 0 \/ S0(vE, p, ND) = 0 THEN NaNTok ELSE Dpspr(vE, vD, p)]

Vector ==
  [F |-> vF, D |-> vD, dd |-> DDw, nd |-> ND,
   E |-> IF ND = 0 THEN vE ELSE [i \in 1..vn |-> [j \in 1..ND |-> vE[i][j]]],
   hs |-> Hs(vF, vE, ND, DDw, TRUE), hs_notail |-> Hs(vF, vE, ND, DDw, FALSE),
   hrms |-> Hrms(vF, vE, ND, DDw, TRUE), hrms_notail |-> Hrms(vF, vE, ND, DDw, FALSE), hmax |-> Hmax(vF, vE, ND, DDw), hmax_t |-> HmaxT(vF, vE, ND, DDw, 5400),
   mom |-> [k \in 1..5 |-> Mom(vF, vE, ND, DDw, k - 1)],
   tm01 |-> Tm01(vF, vE, ND), tm02 |-> Tm02(vF, vE, ND), swe |-> Swe(vF, vE, ND), sw |-> Sw(vF, vE, ND),
   gw |-> Gw(vF, vE, ND, DDw), goda |-> Goda(vF, vE, ND),
   mss |-> Mss(vF, vE, ND, DDw),
   oned |-> [i \in 1..vn |-> DDw * S0(vE, i, ND)],
   dm |-> IF ND = 0 THEN NaNTok ELSE Dm(vF, vE, vD), dm_nodf |-> IF ND = 0 THEN NaNTok ELSE DmNoDf(vF, vE, vD),
   dspr |-> IF ND = 0 THEN NaNTok ELSE Dspr(vF, vE, vD),
   uss |-> IF ND = 0 THEN NaNTok ELSE Uss(vF, vE, ND, DDw),
   uss_x |-> IF ND = 0 THEN NaNTok ELSE UssX(vF, vE, vD, DDw), uss_y |-> IF ND = 0 THEN NaNTok ELSE UssY(vF, vE, vD, DDw),
   dp |-> IF ND = 0 THEN <<>> ELSE SetToSeqOrd(DpSet(vF, vE, vD)),
   peaks |-> [k \in 1..Cardinality(TopPeaks(vE, ND, vn)) |-> PeakRec(SetToSeqOrd(TopPeaks(vE, ND, vn))[k])],
   uniform_df |-> \A i \in 1..vn : DF2(vF, i) = DF2(vF, 1)]

EmitInv == EMIT => PrintT(ToJson(Vector))
=============================================================================
