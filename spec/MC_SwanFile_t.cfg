SPECIFICATION FairSpec
CONSTANTS NLOC = 2
 NF = 2
 MAXT = 2
 TIMED = TRUE
 EMIT = FALSE
INVARIANT TypeOK
INVARIANT WriterWellFormed
INVARIANT LookaheadEmptyAtDirectRead
INVARIANT LookaheadIsPrevious
INVARIANT NeverError
INVARIANT NeverGarbled
INVARIANT ParseCorrect
PROPERTY PosMonotone
PROPERTY Terminates
