------------------------------ MODULE MC_Tracking ------------------------------
(* Constant definitions for Tracking.tla (cfg files accept neither tuples nor negative numbers). *)
EXTENDS Tracking
\* seam crossing 350 -> 5 (15 deg), frequency steps of 0.010 Hz
A1 == {<<100, 350>>, <<110, 5>>, <<120, 90>>}
\* direction thresholds: differences 10, 15, 20 (= DdSwell, strict), 25 (sea only)
A2 == {<<80, 10>>, <<90, 25>>, <<100, 35>>, <<90, 30>>}
\* wind sea moving down in frequency by 0.010 / 0.020 Hz (decided by the sea gap), swell up
A3 == {<<200, 180>>, <<180, 180>>, <<190, 200>>}
\* crossing systems: equal frequency, opposite directions; equidistant candidates (exact distance ties)
A4 == {<<100, 0>>, <<110, 10>>, <<120, 25>>, <<90, 340>>, <<100, 180>>}
A5 == {<<100, 0>>, <<100, 20>>, <<100, 10>>, <<110, 10>>}
G1 == {-15}
G2 == {-5, -22}
G3 == {-5, -15, -22}
\* with a missing sea threshold (Tracking!MISSINGGAP) among the gaps
G4 == {-15, 1}
G5 == {-5, -22, 1}
=============================================================================
