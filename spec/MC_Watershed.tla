------------------------------ MODULE MC_Watershed ------------------------------
(* Exhaustive model: every input grid over Vals, one or two runs (E and E shifted by one   *)
(* direction bin) of the step-granular watershed (a constant spectrum is a single partition: early return); checks C04 clauses and C20's native half. *)
EXTENDS Watershed, Json

CONSTANTS Vals, TWORUN, EMIT,
          PATTERNS   \* TRUE: inputs are the C20 pattern family instead of all grids over Vals

VARIABLES e,      \* the input of the current run, C order
          w,      \* algorithm state record
          run,    \* 1 or 2
          first,  \* classes of run 1 (shifted by 1) when TWORUN, else {}
          rc      \* run constants of partition(): [imi, ind, zp, rng] computed once per run (as the C code does)
vars == <<e, w, run, first, rc>>

Start(ee) == IF IsConst(ee) THEN [W0 EXCEPT !.pc = "const"] ELSE W0
RunConst(ee) == IF IsConst(ee) THEN [imi |-> <<>>, ind |-> <<>>, zp |-> <<>>, rng |-> 0]
                ELSE [imi |-> Levels(ee), ind |-> SortedAddr(Levels(ee)), zp |-> ZP(ee),
                      rng |-> MaxF(ZIn(ee)) - MinF(ZIn(ee))]

(* C20 pattern family for one shape: degenerate and adversarial inputs the property names *)
FI(n) == n \div NTH   \* frequency index of C-order position n
DJ(n) == n % NTH      \* direction index
PatternSet ==
  {[n \in Px |-> 0], [n \in Px |-> 1]}                                  \* all zero, constant
  \cup {[n \in Px |-> IF n = k THEN 3 ELSE 0] : k \in Px}               \* single non-zero bin
  \cup {[n \in Px |-> IF n = k THEN 0 ELSE 2] : k \in Px}               \* single hole
  \cup {[n \in Px |-> IF n = 0 THEN 3 ELSE IF n = k THEN 2 ELSE 0] : k \in Px}   \* two peaks
  \cup {[n \in Px |-> (FI(n) + DJ(n)) % 2]}                              \* checkerboard
  \cup {[n \in Px |-> n], [n \in Px |-> NSPEC - 1 - n], [n \in Px |-> FI(n)], [n \in Px |-> DJ(n)]}  \* ramps
  \cup {[n \in Px |-> ((n * n * 7) + (n * 3) + s) % 3] : s \in 0..2}     \* fixed pseudo-random over {0,1,2}
  \cup {[n \in Px |-> IF DJ(n) = 0 \/ DJ(n) = NTH - 1 THEN 2 + (FI(n) % 2) ELSE 0]}   \* energy on both sides of the seam

Init == /\ e \in (IF PATTERNS THEN PatternSet ELSE [Px -> Vals])
        /\ w = Start(e)
        /\ run = 1
        /\ first = {}
        /\ rc = RunConst(e)

Emit(ee, ww) ==
  IF EMIT THEN PrintT(ToJson([e |-> [k \in 1..NSPEC |-> ee[k-1]],
                               p |-> [k \in 1..NSPEC |-> IF ww.pc = "const" THEN 1 ELSE OutC(ww.st.imo)[k-1]],
                               np |-> IF ww.pc = "const" THEN 1 ELSE ww.st.lab, nk |-> NK, nth |-> NTH, ihmax |-> IHMAX]))
  ELSE TRUE

StepA == /\ w.pc \notin {"done", "const"}
         /\ w' = StepW(w, rc.imi, rc.ind, rc.zp, rc.rng)
         /\ UNCHANGED <<e, run, first, rc>>

Finish == /\ w.pc \in {"done", "const"}
          /\ run = 1
          /\ Emit(e, w)
          /\ IF TWORUN
             THEN /\ run' = 2
                  /\ e' = ShiftIn(e)
                  /\ w' = Start(ShiftIn(e))
                  /\ rc' = RunConst(ShiftIn(e))
                  \* run 2 sees the data one bin earlier along dir: class {(i,j)} of run 1 is {(i,j-1)} there
                  /\ first' = IF w.pc = "const" THEN {{<<n % NK, n \div NK>> : n \in Px}} ELSE ClassesShift(w.st.imo, NTH - 1)
             ELSE /\ run' = 3 /\ UNCHANGED <<e, w, first, rc>>

Finish2 == /\ w.pc \in {"done", "const"} /\ run = 2 /\ run' = 3 /\ UNCHANGED <<e, w, first, rc>>

Next == StepA \/ Finish \/ Finish2
Spec == Init /\ [][Next]_vars
FairSpec == Spec /\ WF_vars(Next)

(* ---- C20 native half ---- *)
BoundsOK == w.st.ok
\* the neighbour table is a constant of the run; evaluating it in the terminal states is enough and much cheaper
TableOK == (w.pc \in {"done", "const"}) => (NeighOK /\ NeighIsAdj8)
Terminates == <>(run = 3)

(* ---- C04 ---- *)
AllLabelled == w.pc = "done" => AllLabelledOK(w.st.imo)
OnePerRegionalMax == w.pc = "done" => PostOK(w.st.imo, rc.imi, w.st.lab)
PostDefsAgree == w.pc = "done" => (PostOK(w.st.imo, rc.imi, w.st.lab) = PostOKRef(w.st.imo, rc.imi, w.st.lab))
ConstNoPartition == w.pc = "const" => IsConst(e)
ShiftEquivariant == (run = 2 /\ w.pc \in {"done", "const"}) =>
                       IF w.pc = "const" THEN first = {{<<n % NK, n \div NK>> : n \in Px}} ELSE ClassesShift(w.st.imo, 0) = first
=============================================================================
