------------------------------ MODULE MC_Watershed ------------------------------
(* Exhaustive model: every input grid over Vals, one or two runs (E and E shifted by one   *)
(* direction bin) of the step-granular watershed; checks C04 clauses and C20's native half. *)
EXTENDS Watershed, Json

CONSTANTS Vals, TWORUN, EMIT

VARIABLES e,      \* the input of the current run, C order
          w,      \* algorithm state record
          run,    \* 1 or 2
          first,  \* classes of run 1 (shifted by 1) when TWORUN, else {}
          rc      \* run constants of partition(): [imi, ind, zp, rng] computed once per run (as the C code does)
vars == <<e, w, run, first, rc>>

Start(ee) == IF IsConst(ee) THEN [W0 EXCEPT !.pc = "const"] ELSE W0
RunConst(ee) == IF IsConst(ee) THEN [imi |-> <<>>, ind |-> <<>>, zp |-> <<>>, rng |-> 0]
                ELSE [imi |-> Levels(ee), ind |-> SortedAddr(Levels(ee)), zp |-> ZP(ee),
                      rng |-> MaxF(ZIn(ee)) - MinF(ZIn(ee))]

Init == /\ e \in [Px -> Vals]
        /\ w = Start(e)
        /\ run = 1
        /\ first = {}
        /\ rc = RunConst(e)

Emit(ee, ww) ==
  IF EMIT THEN PrintT(ToJson([e |-> [k \in 1..NSPEC |-> ee[k-1]],
                               p |-> [k \in 1..NSPEC |-> IF ww.pc = "const" THEN 0 ELSE OutC(ww.st.imo)[k-1]],
                               np |-> ww.st.lab, nk |-> NK, nth |-> NTH, ihmax |-> IHMAX]))
  ELSE TRUE

StepA == /\ w.pc \notin {"done", "const"}
         /\ w' = StepW(w, rc.imi, rc.ind, rc.zp, rc.rng)
         /\ UNCHANGED <<e, run, first, rc>>

Finish == /\ w.pc \in {"done", "const"}
          /\ run = 1
          /\ Emit(e, w)
          /\ IF TWORUN
             THEN /\ run' = 2
                  /\ e' = ShiftIn(e)
                  /\ w' = Start(ShiftIn(e))
                  /\ rc' = RunConst(ShiftIn(e))
                  \* run 2 sees the data one bin earlier along dir: class {(i,j)} of run 1 is {(i,j-1)} there
                  /\ first' = IF w.pc = "const" THEN {} ELSE ClassesShift(w.st.imo, NTH - 1)
             ELSE /\ run' = 3 /\ UNCHANGED <<e, w, first, rc>>

Finish2 == /\ w.pc \in {"done", "const"} /\ run = 2 /\ run' = 3 /\ UNCHANGED <<e, w, first, rc>>

Next == StepA \/ Finish \/ Finish2
Spec == Init /\ [][Next]_vars
FairSpec == Spec /\ WF_vars(Next)

(* ---- C20 native half ---- *)
BoundsOK == w.st.ok
TableOK == NeighOK /\ NeighIsAdj8
Terminates == <>(run = 3)

(* ---- C04 ---- *)
AllLabelled == w.pc = "done" => AllLabelledOK(w.st.imo)
OnePerRegionalMax == w.pc = "done" => PostOK(w.st.imo, rc.imi, w.st.lab)
ConstNoPartition == w.pc = "const" => IsConst(e)
ShiftEquivariant == (run = 2 /\ w.pc \in {"done", "const"}) =>
                       IF w.pc = "const" THEN first = {} ELSE ClassesShift(w.st.imo, 0) = first
=============================================================================
