------------------------------- MODULE Mechanisms -------------------------------
(* C18: the places where the library keeps state between calls, shaped like the code, and the claim that  *)
(* they never show through:                                                                              *)
(*  (1) xarray caches one accessor object per Dataset / DataArray.  SpecDataset (specdataset.py) exposes   *)
(*      the SpecArray methods of its efth variable.  BINDING = "snapshot": the methods of the efth seen    *)
(*      when the accessor was created are bound once (the code before the repair); "dynamic": looked up   *)
(*      on the current efth at call time (the repaired code).                                              *)
(*  (2) SpecArray.dd.  DDMEMO = TRUE: memoised on first use (before the repair); FALSE: recomputed.        *)
(*  (3) the global attribute table inserts a key on lookup (attributes.py AttrDict.__getitem__).           *)
(*  (4) the watershed's static work area (mk, mth): partinit() rebuilds it iff the shape differs.          *)
(*  (5) the VALUES of the attribute table: every reader / partition / fit / oned call stamps its result    *)
(*      with the table's entry for efth.  ATTRTAB = "copy": the result gets a copy (xarray's attrs setter  *)
(*      copies; the tree), so a reader of one-dimensional files that rewrites the units edits its own copy; *)
(*      "live": the reader edits the entry it was handed, i.e. the process-wide table itself.               *)
(* Actions: Access, SetEfth(v), SetDir(g), Call(op) on the Dataset (ds) and the DataArray (da) accessor,   *)
(* LookupUnknownAttr, PartitionCall(shape).  Fresh: every observation equals what a freshly constructed    *)
(* object with the same contents gives, i.e. this module refines Session.tla's Apply.  With the            *)
(* pre-repair constants TLC returns the shortest stale histories (kept as a regression configuration       *)
(* whose expected result is the counterexample).                                                          *)
EXTENDS Integers, Sequences, FiniteSets, TLC

CONSTANTS BINDING, DDMEMO, NVER, NGRID, MAXSTEPS, ATTRTAB

VARIABLES dsEfth, dsGrid,      \* current contents of the dataset: efth version, direction grid
          dsAcc,               \* Dataset accessor: <<>> (not created) or [efth, grid] it bound its methods to
          daGrid, daAcc,       \* DataArray: current grid; accessor: <<>> or [dd |-> memoised grid or 0]
          attrKeys,            \* keys present in the global attribute table beyond the YAML ones
          tabUnits,            \* the table's units entry for efth: "2d" (as loaded from the YAML file) or "1d"
          mk,                  \* shape the watershed's static work area is built for (0 = none)
          obs, exp,            \* last observation and what a fresh object would give
          steps
vars == <<dsEfth, dsGrid, dsAcc, daGrid, daAcc, attrKeys, tabUnits, mk, obs, exp, steps>>

Init == /\ dsEfth = 1 /\ dsGrid = 1 /\ dsAcc = <<>> /\ daGrid = 1 /\ daAcc = <<>>
        /\ attrKeys = {} /\ tabUnits = "2d" /\ mk = 0 /\ obs = <<>> /\ exp = <<>> /\ steps = 0

Tick == steps < MAXSTEPS /\ steps' = steps + 1

\* ---- Dataset accessor
BindDs == IF dsAcc = <<>> THEN [efth |-> dsEfth, grid |-> dsGrid] ELSE dsAcc
CallDs == /\ Tick
          /\ dsAcc' = BindDs
          /\ obs' = IF BINDING = "snapshot" THEN <<"ds", BindDs.efth, BindDs.grid>> ELSE <<"ds", dsEfth, dsGrid>>
          /\ exp' = <<"ds", dsEfth, dsGrid>>
          /\ UNCHANGED <<dsEfth, dsGrid, daGrid, daAcc, attrKeys, tabUnits, mk>>
SetEfth == /\ Tick /\ \E v \in (1..NVER) \ {dsEfth} : dsEfth' = v
           /\ UNCHANGED <<dsGrid, dsAcc, daGrid, daAcc, attrKeys, tabUnits, mk, obs, exp>>     \* xarray keeps the cached accessor
SetDsDir == /\ Tick /\ \E g \in (1..NGRID) \ {dsGrid} : dsGrid' = g
            /\ UNCHANGED <<dsEfth, dsAcc, daGrid, daAcc, attrKeys, tabUnits, mk, obs, exp>>
\* ---- DataArray accessor: values follow the object, the memoised width does not
CallDa == /\ Tick
          /\ LET memo == IF daAcc = <<>> \/ ~DDMEMO THEN daGrid ELSE daAcc.dd IN
             /\ daAcc' = [dd |-> memo]
             /\ obs' = <<"da", daGrid, memo>>          \* labels of the current grid, width of the memoised one
             /\ exp' = <<"da", daGrid, daGrid>>
          /\ UNCHANGED <<dsEfth, dsGrid, dsAcc, daGrid, attrKeys, tabUnits, mk>>
SetDaDir == /\ Tick /\ \E g \in (1..NGRID) \ {daGrid} : daGrid' = g
            /\ UNCHANGED <<dsEfth, dsGrid, dsAcc, daAcc, attrKeys, tabUnits, mk, obs, exp>>
\* ---- attribute table and static work area
LookupUnknownAttr == /\ Tick /\ attrKeys' = attrKeys \cup {"x"}
                     /\ UNCHANGED <<dsEfth, dsGrid, dsAcc, daGrid, daAcc, tabUnits, mk, obs, exp>>
\* a reader call on some file: directional files are stamped with the table entry as it is now; non-directional files get
\* units "1d" on what they return - written on a copy, or (ATTRTAB = "live") on the table entry itself
ReaderCall(kind) == /\ Tick
                    /\ obs' = <<"read", kind, IF kind = "1d" THEN "1d" ELSE tabUnits>>
                    /\ exp' = <<"read", kind, kind>>
                    /\ tabUnits' = IF ATTRTAB = "live" /\ kind = "1d" THEN "1d" ELSE tabUnits
                    /\ UNCHANGED <<dsEfth, dsGrid, dsAcc, daGrid, daAcc, attrKeys, mk>>
\* any call whose result is stamped from the table (oned, ptm*, fit_*, construct, converters): the metadata observed
StampCall == /\ Tick
             /\ obs' = <<"meta", tabUnits>> /\ exp' = <<"meta", "2d">>
             /\ UNCHANGED <<dsEfth, dsGrid, dsAcc, daGrid, daAcc, attrKeys, tabUnits, mk>>
PartitionCall(shape) == /\ Tick
                        /\ mk' = shape                       \* partinit: rebuilt iff shape # mk, then mk = shape
                        /\ obs' = <<"ws", shape, IF mk = shape THEN mk ELSE shape>>   \* the table the flood runs with
                        /\ exp' = <<"ws", shape, shape>>
                        /\ UNCHANGED <<dsEfth, dsGrid, dsAcc, daGrid, daAcc, attrKeys, tabUnits>>

Next == CallDs \/ SetEfth \/ SetDsDir \/ CallDa \/ SetDaDir \/ LookupUnknownAttr \/ (\E s \in {1, 2} : PartitionCall(s))
        \/ (\E k \in {"1d", "2d"} : ReaderCall(k)) \/ StampCall
Spec == Init /\ [][Next]_vars

Fresh == obs = exp
BufferShapeConsistent == obs # <<>> /\ obs[1] = "ws" => obs[3] = obs[2]
=============================================================================
