-------------------------------- MODULE Partition --------------------------------
(* PTM1 / PTM2 / PTM3 (wavespectra/partition/partition.py: np_ptm1, np_ptm2, np_ptm3) as the pipeline  *)
(* the code runs after the watershed:                                                                  *)
(*    Mask     part_l = E on the bins labelled l, 0 elsewhere                 (l = 1..nparts = max label)*)
(*    Classify wind-sea fraction of part_l over the wave-age mask W against wscut (0/0 => swell);        *)
(*             PTM2 additionally moves the W-bins of every swell to the secondary wind sea              *)
(*    Order    swells in non-increasing order of the array-level Hs (npstats.hs: trapezoid in frequency, *)
(*             tail above 0.333 Hz); exact ties are free                                                *)
(*    Fit      truncate to / zero-pad up to the requested number                                        *)
(* Outputs(...) is the set of results the pipeline may return (a set because of Hs ties).  Independently *)
(* of the pipeline, Valid* restates the property clause by clause; MC_Partition checks                   *)
(* Outputs \subseteq Valid for every (spectrum, label map, mask, cutoff, requested count).               *)
(* Bins are flat C-order indices n = i*NTH + j (i frequency index, j direction index).                  *)
EXTENDS Integers, Sequences, FiniteSets, TLC, SequencesExt, FiniteSetsExt

CONSTANTS NK, NTH,
          F        \* frequencies in 0.05 Hz units (sequence of length NK, increasing)

NSPEC == NK * NTH
Px == 0..(NSPEC-1)
FI(n) == n \div NTH
DJ(n) == n % NTH
Zero == [n \in Px |-> 0]

SumOver(S, f(_)) == LET RECURSIVE go(_) go(T) == IF T = {} THEN 0 ELSE LET x == CHOOSE x \in T : TRUE IN f(x) + go(T \ {x}) IN go(S)

MaxLabel(L) == Max({L[n] : n \in Px})
PartOf(E, L, l) == [n \in Px |-> IF L[n] = l THEN E[n] ELSE 0]
Total(A) == SumOver(Px, LAMBDA n : A[n])
OnMask(A, W) == SumOver(W, LAMBDA n : A[n])
AddA(A, B) == [n \in Px |-> A[n] + B[n]]
KeepOn(A, W) == [n \in Px |-> IF n \in W THEN A[n] ELSE 0]
DropOn(A, W) == [n \in Px |-> IF n \in W THEN 0 ELSE A[n]]

\* wsfrac > wscut with wscut = CutN/CutD, decided exactly; 0/0 is NaN in the code and NaN > x is false
IsWindSea(A, W, CutN, CutD) == Total(A) > 0 /\ OnMask(A, W) * CutD > CutN * Total(A)
\* exact tie wsfrac = wscut: floating point decides; such inputs are flagged and not replayed
CutTie(A, W, CutN, CutD) == Total(A) > 0 /\ OnMask(A, W) * CutD = CutN * Total(A)

\* array-level Hs key (npstats.hs): 2*sum_i (F[i+1]-F[i]) (S_i + S_{i+1}) + [F[NK] >= 7] S_NK F[NK]   (a positive multiple of Etot)
RowSum(A, i) == SumOver({n \in Px : FI(n) = i}, LAMBDA n : A[n])
HsKey(A) == (IF NK = 1 THEN 0 ELSE 2 * SumOver(0..(NK-2), LAMBDA i : (F[i+2] - F[i+1]) * (RowSum(A, i) + RowSum(A, i+1))))
            + (IF F[NK] >= 7 THEN RowSum(A, NK-1) * F[NK] ELSE 0)

\* all orderings of a set of arrays (given as a function label -> array over a label set) non-increasing in HsKey
Orderings(parts, labels) ==
  {s \in [1..Cardinality(labels) -> labels] :
      /\ \A a, b \in 1..Cardinality(labels) : a # b => s[a] # s[b]
      /\ \A a \in 1..(Cardinality(labels)-1) : HsKey(parts[s[a]]) >= HsKey(parts[s[a+1]])}

\* truncate / zero-pad a sequence of arrays to exactly k entries (the code truncates only when nparts > k and pads
\* with (k - nparts) zero arrays when nparts < k; the list always has nparts entries before)
Fit(seq, k) == [a \in 1..k |-> IF a <= Len(seq) THEN seq[a] ELSE Zero]

Labels(L) == 1..MaxLabel(L)

(* ---------------- the pipelines ---------------- *)
Ptm1(E, L, W, CutN, CutD, swells) ==
  LET ws == {l \in Labels(L) : IsWindSea(PartOf(E, L, l), W, CutN, CutD)}
      sea == [n \in Px |-> IF L[n] \in ws THEN E[n] ELSE 0]
      sw == [l \in Labels(L) |-> IF l \in ws THEN Zero ELSE PartOf(E, L, l)]     \* slot of a wind-sea label stays zero
  IN {<<sea>> \o Fit([a \in 1..MaxLabel(L) |-> sw[o[a]]], swells) : o \in Orderings(sw, Labels(L))}

Ptm2(E, L, W, CutN, CutD, swells) ==
  LET ws == {l \in Labels(L) : IsWindSea(PartOf(E, L, l), W, CutN, CutD)}
      sea1 == [n \in Px |-> IF L[n] \in ws THEN E[n] ELSE 0]
      sea2 == [n \in Px |-> IF L[n] \notin ws /\ n \in W THEN E[n] ELSE 0]
      sw == [l \in Labels(L) |-> IF l \in ws THEN Zero ELSE DropOn(PartOf(E, L, l), W)]
  IN {<<sea1, sea2>> \o Fit([a \in 1..MaxLabel(L) |-> sw[o[a]]], swells) : o \in Orderings(sw, Labels(L))}

Ptm3(E, L, parts) ==
  LET p == [l \in Labels(L) |-> PartOf(E, L, l)]
  IN {Fit([a \in 1..MaxLabel(L) |-> p[o[a]]], parts) : o \in Orderings(p, Labels(L))}

(* ---------------- the property, clause by clause (independent of the pipeline) ---------------- *)
BinwiseOrigOrZero(E, out) == \A k \in 1..Len(out) : \A n \in Px : out[k][n] = 0 \/ out[k][n] = E[n]
NoBinTwice(out) == \A n \in Px : Cardinality({k \in 1..Len(out) : out[k][n] # 0}) <= 1
SumArr(out) == [n \in Px |-> SumOver(1..Len(out), LAMBDA k : out[k][n])]
SumLeqInput(E, out) == \A n \in Px : SumArr(out)[n] <= E[n]
SumEqualsInput(E, out) == SumArr(out) = E
NonIncreasingEmptyLast(out, from) ==
  /\ \A k \in from..(Len(out)-1) : HsKey(out[k]) >= HsKey(out[k+1])
  /\ \A k \in from..(Len(out)-1) : (out[k] = Zero /\ HsKey(out[k+1]) > 0) => FALSE
\* what was dropped: label classes not represented in the output; each is no larger than every kept swell
DroppedAreSmallest(E, L, out, from, reduce(_)) ==
  LET kept == {k \in from..Len(out) : out[k] # Zero}
      lost == {l \in Labels(L) : \A n \in Px : (L[n] = l /\ E[n] # 0 /\ reduce(PartOf(E, L, l))[n] # 0) => SumArr(out)[n] = 0}
  IN \A l \in lost : \A k \in kept : HsKey(reduce(PartOf(E, L, l))) <= HsKey(out[k])

ValidPtm1(E, L, W, CutN, CutD, swells, out) ==
  /\ Len(out) = swells + 1
  /\ BinwiseOrigOrZero(E, out) /\ NoBinTwice(out) /\ SumLeqInput(E, out)
  /\ (swells >= MaxLabel(L) => SumEqualsInput(E, out))
  \* wind sea first: exactly the bins of the classes whose wind-sea fraction exceeds the cutoff
  /\ out[1] = [n \in Px |-> IF IsWindSea(PartOf(E, L, L[n]), W, CutN, CutD) THEN E[n] ELSE 0]
  /\ NonIncreasingEmptyLast(out, 2)
  /\ DroppedAreSmallest(E, L, out, 2, LAMBDA A : A)

ValidPtm2(E, L, W, CutN, CutD, swells, out) ==
  /\ Len(out) = swells + 2
  /\ BinwiseOrigOrZero(E, out) /\ NoBinTwice(out) /\ SumLeqInput(E, out)
  /\ (swells >= MaxLabel(L) => SumEqualsInput(E, out))
  /\ out[1] = [n \in Px |-> IF IsWindSea(PartOf(E, L, L[n]), W, CutN, CutD) THEN E[n] ELSE 0]
  \* second: the wind-sea bins of the swells
  /\ out[2] = [n \in Px |-> IF ~IsWindSea(PartOf(E, L, L[n]), W, CutN, CutD) /\ n \in W THEN E[n] ELSE 0]
  /\ NonIncreasingEmptyLast(out, 3)
  /\ DroppedAreSmallest(E, L, out, 3, LAMBDA A : DropOn(A, W))

ValidPtm3(E, L, parts, out) ==
  /\ Len(out) = parts
  /\ BinwiseOrigOrZero(E, out) /\ NoBinTwice(out) /\ SumLeqInput(E, out)
  /\ (parts >= MaxLabel(L) => SumEqualsInput(E, out))
  /\ NonIncreasingEmptyLast(out, 1)
  /\ DroppedAreSmallest(E, L, out, 1, LAMBDA A : A)
=============================================================================
