---------------------------- MODULE PartitionTrace ----------------------------
(* Validates recorded PTM1/2/3 runs (real watershed, real np_ptm* / accessor methods) against the clauses *)
(* of Partition.tla.  Line 1: {kind:"grid", F:[...]}.  Then one line per run:                             *)
(*   {kind: "ptm1"|"ptm2"|"ptm3", tid, E, L (label map as the C routine returned it, 0 = no partition),   *)
(*    W (flat indices of the wave-age mask), cutn, cutd, req, out: [[...], ...]}                           *)
(* A run is accepted iff out satisfies Valid* for its (E, L, W, cutoff, requested) and is one of the      *)
(* results the pipeline model allows.  Verdicts are total.                                               *)
EXTENDS Partition, Json, IOUtils

TraceLog == ndJsonDeserialize(IOEnv.TRACE_FILE)
TraceF == TraceLog[1].F
NL == Len(TraceLog)
VARIABLE l
Arr0(s) == [n \in Px |-> s[n+1]]
OutOf(i) == [k \in 1..Len(TraceLog[i].out) |-> Arr0(TraceLog[i].out[k])]

Check(i) ==
  LET r == TraceLog[i]
      E == Arr0(r.E) L == Arr0(r.L) W == {w : w \in {r.W[k] : k \in 1..Len(r.W)}}
      out == OutOf(i)
      \* the pipeline model enumerates orderings (k^k candidates): membership is evaluated for <= 5 classes only,
      \* beyond that the declarative clauses (the property itself) decide alone
      small == MaxLabel(L) <= 5
  IN CASE r.kind = "ptm1" -> IF ~ValidPtm1(E, L, W, r.cutn, r.cutd, r.req, out) THEN "property-clauses"
                             ELSE IF small /\ out \notin Ptm1(E, L, W, r.cutn, r.cutd, r.req) THEN "pipeline-model" ELSE "ok"
       [] r.kind = "ptm2" -> IF ~ValidPtm2(E, L, W, r.cutn, r.cutd, r.req, out) THEN "property-clauses"
                             ELSE IF small /\ out \notin Ptm2(E, L, W, r.cutn, r.cutd, r.req) THEN "pipeline-model" ELSE "ok"
       [] r.kind = "ptm3" -> IF ~ValidPtm3(E, L, r.req, out) THEN "property-clauses"
                             ELSE IF small /\ out \notin Ptm3(E, L, r.req) THEN "pipeline-model" ELSE "ok"
       [] OTHER -> "unknown-kind"

TInit == l = 2 /\ TLCSet(1, {}) /\ TLCSet(2, {})
TNext == /\ l <= NL
         /\ LET c == Check(l) IN
            IF c = "ok" THEN TLCSet(1, TLCGet(1) \cup {TraceLog[l].tid})
            ELSE TLCSet(2, TLCGet(2) \cup {<<TraceLog[l].tid, c>>})
         /\ l' = l + 1
TSpec == TInit /\ [][TNext]_l
Verdict == /\ PrintT(ToJson([verdict |-> "PartitionTrace", accepted |-> Cardinality(TLCGet(1)),
                             rejected |-> SetToSeq({[tid |-> r[1], clause |-> r[2]] : r \in TLCGet(2)})]))
           /\ TLCGet(2) = {}
=============================================================================
