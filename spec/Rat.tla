----------------------------------- MODULE Rat -----------------------------------
(* Exact rational arithmetic for the numeric specifications: <<num, den>> with den > 0, normalised; NaNR = <<0, 0>> *)
(* stands for a missing value.  Least-common-denominator addition and cross-cancelling multiplication keep the      *)
(* intermediates inside TLC's 32-bit integers; TLC reports an overflow as an error, never wraps.                    *)
EXTENDS Integers, Sequences, FiniteSets, TLC, SequencesExt, FiniteSetsExt

RECURSIVE GCD(_, _)
GCD(a, b) == IF b = 0 THEN a ELSE GCD(b, a % b)
Abs(x) == IF x < 0 THEN -x ELSE x
NaNR == <<0, 0>>
IsNaN(r) == r[2] = 0
Norm(n, d) == IF d = 0 THEN NaNR
              ELSE LET g == GCD(Abs(n), Abs(d)) s == IF d < 0 THEN -1 ELSE 1
                   IN IF g = 0 THEN <<0, 1>> ELSE <<(s * n) \div g, (s * d) \div g>>
R(n) == <<n, 1>>
\* least-common-denominator addition and cross-cancelling multiplication keep intermediates inside TLC's 32-bit integers
RAdd(a, b) == IF IsNaN(a) \/ IsNaN(b) THEN NaNR
              ELSE LET g == GCD(a[2], b[2]) IN Norm((a[1] * (b[2] \div g)) + (b[1] * (a[2] \div g)), (a[2] \div g) * b[2])
RSub(a, b) == IF IsNaN(a) \/ IsNaN(b) THEN NaNR ELSE RAdd(a, <<-b[1], b[2]>>)
RMul(a, b) == IF IsNaN(a) \/ IsNaN(b) THEN NaNR
              ELSE LET g1 == GCD(Abs(a[1]), b[2]) g2 == GCD(Abs(b[1]), a[2])
                       h1 == IF g1 = 0 THEN 1 ELSE g1 h2 == IF g2 = 0 THEN 1 ELSE g2
                   IN Norm((a[1] \div h1) * (b[1] \div h2), (a[2] \div h2) * (b[2] \div h1))
RDiv(a, b) == IF IsNaN(a) \/ IsNaN(b) \/ b[1] = 0 THEN NaNR ELSE RMul(a, IF b[1] < 0 THEN <<-b[2], -b[1]>> ELSE <<b[2], b[1]>>)
RGeq0(a) == IsNaN(a) \/ a[1] >= 0

SeqSum(s) == LET f[k \in 0..Len(s)] == IF k = 0 THEN <<0, 1>> ELSE RAdd(f[k-1], s[k]) IN f[Len(s)]
SortInts(S) == SetToSortSeq(S, LAMBDA a, b : a < b)

REq(a, b) == a = b
RLeq(a, b) == IsNaN(a) \/ IsNaN(b) \/ a[1] * b[2] <= b[1] * a[2]
RMin(a, b) == IF RLeq(a, b) THEN a ELSE b
RMax(a, b) == IF RLeq(a, b) THEN b ELSE a
=============================================================================
