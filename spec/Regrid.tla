--------------------------------- MODULE Regrid ---------------------------------
(* C08: regridding (core/utils.py regrid_spec, SpecArray.interp / interp_like / rotate) in exact rational     *)
(* arithmetic on the lattice (frequencies in 0.05 Hz units, whole degrees, integer energies), stage by stage  *)
(* as the code runs them:                                                                                    *)
(*   DirStage   labels mod 360; duplicate labels dropped (first stored occurrence kept) and sorted; the       *)
(*              highest bin repeated at -360 when the target reaches below the lowest source direction, the   *)
(*              lowest at +360 when it reaches above the highest; linear interpolation (missing outside)      *)
(*   FreqStage  a zero-energy node at f = 0 when the target starts below the source; linear interpolation,    *)
(*              zero outside the source range                                                                *)
(*   Scale      one factor Hs_in^2 / Hs_out^2 per spectrum (Hs with the tail rule and each grid's own widths)  *)
(*   Rotate(a)  relabel by +a (mod 360), then DirStage onto the original labels, then Scale                   *)
(* Rationals are <<num, den>> with den > 0, normalised; NaNR = <<0, 0>> stands for a missing value.           *)
EXTENDS Rat

\* linear interpolation of node values ys (rationals) at integer nodes xs (strictly increasing) at integer x
\* outside the nodes: `fill`
Interp(xs, ys, x, fill) ==
  IF Len(xs) = 0 \/ x < xs[1] \/ x > xs[Len(xs)] THEN fill
  ELSE IF \E k \in 1..Len(xs) : xs[k] = x THEN ys[CHOOSE k \in 1..Len(xs) : xs[k] = x]
  ELSE LET k == CHOOSE k \in 1..(Len(xs)-1) : xs[k] < x /\ x < xs[k+1]
       IN RAdd(ys[k], RMul(RSub(ys[k+1], ys[k]), Norm(x - xs[k], xs[k+1] - xs[k])))

(* ---------------- DirStage: one frequency row ---------------- *)
\* D: stored labels (any order, may contain both 0 and 360); row: rationals per stored direction
DirNodes(D, tdir) ==
  LET lab == [j \in 1..Len(D) |-> D[j] % 360]
      uniq == SortInts({lab[j] : j \in 1..Len(D)})
      first(u) == Min({j \in 1..Len(D) : lab[j] = u})          \* np.unique(return_index): first stored occurrence
      lo == uniq[1] hi == uniq[Len(uniq)]
      tmin == Min({tdir[k] : k \in 1..Len(tdir)}) tmax == Max({tdir[k] : k \in 1..Len(tdir)})
      pre == IF tmin < lo THEN << <<hi - 360, first(hi)>> >> ELSE <<>>
      post == IF tmax > hi THEN << <<lo + 360, first(lo)>> >> ELSE <<>>
  IN pre \o [k \in 1..Len(uniq) |-> <<uniq[k], first(uniq[k])>>] \o post      \* sequence of <<node label, source column>>
DirStageRow(D, row, tdir) ==
  LET nodes == DirNodes(D, tdir)
      xs == [k \in 1..Len(nodes) |-> nodes[k][1]]
      ys == [k \in 1..Len(nodes) |-> row[nodes[k][2]]]
  IN [k \in 1..Len(tdir) |-> Interp(xs, ys, tdir[k], NaNR)]

(* ---------------- FreqStage: one direction column ---------------- *)
FreqStageCol(F, col, tfreq) ==
  LET tmin == Min({tfreq[k] : k \in 1..Len(tfreq)})
      xs == IF tmin < F[1] THEN <<0>> \o F ELSE F
      ys == IF tmin < F[1] THEN << <<0, 1>> >> \o col ELSE col
  IN [k \in 1..Len(tfreq) |-> Interp(xs, ys, tfreq[k], <<0, 1>>)]

(* ---------------- Hs^2 numerator with the grid's own widths ---------------- *)
DF2(F, i) == IF Len(F) = 1 THEN 40 ELSE IF i = 1 THEN 2 * (F[2] - F[1]) ELSE IF i = Len(F) THEN 2 * (F[Len(F)] - F[Len(F)-1])
             ELSE F[i+1] - F[i-1]
\* direction width of a grid: the smallest gap between distinct labels, the gap across 0/360 included (1 for a single direction)
DDof(D) == LET s == SortInts({D[j] : j \in 1..Len(D)}) IN
           IF Len(s) < 2 THEN 1
           ELSE Min({g \in {s[k+1] - s[k] : k \in 1..(Len(s)-1)} \cup {s[1] + 360 - s[Len(s)]} : g > 0})
\* 5 Hs^2 / 1  =  dd * (2 sum_i Sf_i DF2_i + [F_top >= 7] Sf_top F_top)      (Sf without dd)
HsNum(F, D, E) ==
  LET sf == [i \in 1..Len(F) |-> SeqSum(E[i])]
      m0 == SeqSum([i \in 1..Len(F) |-> RMul(sf[i], R(DF2(F, i)))])
      tail == IF F[Len(F)] >= 7 THEN RMul(sf[Len(F)], R(F[Len(F)])) ELSE <<0, 1>>
  IN RMul(R(DDof(D)), RAdd(RMul(R(2), m0), tail))

(* ---------------- the whole operation ---------------- *)
ToR(E) == [i \in 1..Len(E) |-> [j \in 1..Len(E[i]) |-> R(E[i][j])]]
\* tdir = <<>> / tfreq = <<>> mean "keep"
RegridUnscaled(F, D, E, tfreq, tdir) ==
  LET e0 == ToR(E)
      e1 == IF tdir = <<>> THEN e0 ELSE [i \in 1..Len(F) |-> DirStageRow(D, e0[i], tdir)]
      d1 == IF tdir = <<>> THEN D ELSE tdir
      e2 == IF tfreq = <<>> THEN e1
            ELSE LET cols == [j \in 1..Len(d1) |-> FreqStageCol(F, [i \in 1..Len(F) |-> e1[i][j]], tfreq)]
                 IN [i \in 1..Len(tfreq) |-> [j \in 1..Len(d1) |-> cols[j][i]]]
  IN e2
OutF(F, tfreq) == IF tfreq = <<>> THEN F ELSE tfreq
OutD(D, tdir) == IF tdir = <<>> THEN D ELSE tdir
ScaleOf(F, D, E, tfreq, tdir) == RDiv(HsNum(F, D, ToR(E)), HsNum(OutF(F, tfreq), OutD(D, tdir), RegridUnscaled(F, D, E, tfreq, tdir)))
Regrid(F, D, E, tfreq, tdir, m0) ==
  LET u == RegridUnscaled(F, D, E, tfreq, tdir) IN
  IF ~m0 THEN u
  ELSE LET s == ScaleOf(F, D, E, tfreq, tdir) IN [i \in 1..Len(u) |-> [j \in 1..Len(u[i]) |-> RMul(u[i][j], s)]]
\* rotate: relabel by +a, regrid onto the original stored labels, variance kept
Rotate(F, D, E, a) == Regrid(F, [j \in 1..Len(D) |-> (D[j] + a) % 360], E, <<>>, D, TRUE)
=============================================================================
