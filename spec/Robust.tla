--------------------------------- MODULE Robust ---------------------------------
(* C20, Python half: the outcome table of the public operations on valid spectra.           *)
(* A case is (grid class, spectrum class, operation, argument class); Allowed gives the set  *)
(* of outcome kinds the documentation permits:                                               *)
(*    "finite"     a result whose values are all finite                                      *)
(*    "nan"        a result containing NaN (documented degenerate cases only)                *)
(*    "empty"      a result with an empty spectral axis (band split that selects nothing)    *)
(*    "ValueError" the call is rejected with ValueError                                      *)
(* Any other exception type, or an outcome outside Allowed, is a violation.  TLC enumerates   *)
(* the table, checks it is total and that invalid arguments are always rejected and valid     *)
(* non-degenerate ones always produce a finite result, and emits one vector per case for the  *)
(* harness to realise with a representative spectrum of that class.                           *)
EXTENDS Integers, FiniteSets, TLC, Json

NF == {1, 2, 3, 8}                  \* number of frequencies (3 = smallest grid with an interior bin)
DIRS == {"none", "one", "two", "many"}   \* "none" = 1-D frequency spectrum
SPECTRA == {"zero", "const", "single", "peakfirst", "peaklast", "onealpha", "ordinary", "twopeaks"}

IntegralOps == {"hs", "hrms", "hmax", "momf", "oned", "to_energy", "mss", "celerity", "wavelen", "gamma"}
DirIntegralOps == {"dm", "dp", "momd", "uss_x", "uss_y", "uss"}
RatioOps == {"tm01", "tm02", "swe", "goda"}
WidthOps == {"sw", "gw"}
DirRatioOps == {"dspr", "fdspr"}
PeakOps == {"tp", "fp", "tp_raw", "alpha"}
DirPeakOps == {"dpm", "dpspr"}
Transforms == {"smooth", "interp", "rotate", "split", "scale_by_hs", "stats"}
Partitions == {"ptm1", "ptm2", "ptm3", "ptm4", "ptm5", "bbox"}
OPS == IntegralOps \cup DirIntegralOps \cup RatioOps \cup WidthOps \cup DirRatioOps \cup PeakOps \cup DirPeakOps
         \cup Transforms \cup Partitions

\* argument classes per operation ("ok" = documented valid arguments)
Args(op) ==
  CASE op = "smooth" -> {"ok", "win1", "evenwindow"}
    [] op = "split" -> {"ok", "offgrid", "inverted_f", "inverted_d", "equal_f", "equal_d"}
    [] op = "stats" -> {"ok", "unknown_name", "not_a_container", "names_mismatch"}
    [] op = "bbox" -> {"ok", "overlap"}
    [] op = "interp" -> {"ok", "extend"}
    [] op \in {"ptm1", "ptm2", "ptm3"} -> {"ok", "more_than_detected", "ihmax1"}
    [] OTHER -> {"ok"}

NeedsDir(op) == op \in DirIntegralOps \cup DirRatioOps \cup DirPeakOps \cup Partitions \cup {"rotate"}
\* operations that are directional *statistics* and must say so with ValueError on 1-D spectra
MustRejectOneD(op) == op \in (DirIntegralOps \ {"uss"}) \cup DirRatioOps \cup DirPeakOps

HasInteriorPeak(nf, s) == nf >= 3 /\ s \in {"single", "onealpha", "ordinary", "twopeaks"}
Positive(s) == s # "zero"
\* energy in one frequency only: zero-width spectra (width parameters are 0/0-like there)
OneFreqEnergy(nf, s) == nf = 1 \/ s \in {"single", "peaklast"}
\* energy in one direction only: zero directional spread, the spread formulas evaluate sqrt(0 +- rounding)
OneDirEnergy(d, s) == d = "one" \/ s = "single"

InvalidArg(op, a) == a \in {"evenwindow", "inverted_f", "inverted_d", "equal_f", "equal_d", "unknown_name", "not_a_container",
                            "names_mismatch", "overlap"}

Allowed(nf, d, s, op, a) ==
  IF InvalidArg(op, a) THEN {"ValueError"}
  ELSE IF d = "none" /\ MustRejectOneD(op) THEN {"ValueError"}
  ELSE IF d = "none" /\ NeedsDir(op) THEN {"ValueError", "finite"}    \* uss, partitions, rotate: not pinned down
  ELSE IF op \in IntegralOps \cup DirIntegralOps THEN {"finite"}
  ELSE IF op \in RatioOps \cup DirRatioOps THEN
       IF ~Positive(s) THEN {"finite", "nan"}
       ELSE IF op = "fdspr" THEN {"finite", "nan"}          \* per-frequency: NaN where a frequency holds no energy
       ELSE IF op = "dspr" /\ OneDirEnergy(d, s) THEN {"finite", "nan"}
       ELSE {"finite"}
  ELSE IF op \in WidthOps THEN
       IF op = "gw" THEN {"finite", "nan"}                   \* Bunney's formula is real only for m2 >= m1^2
       ELSE IF ~Positive(s) \/ OneFreqEnergy(nf, s) THEN {"finite", "nan"} ELSE {"finite"}
  ELSE IF op \in PeakOps \cup DirPeakOps THEN
       IF ~HasInteriorPeak(nf, s) THEN {"nan"}
       ELSE IF op = "dpspr" /\ OneDirEnergy(d, s) THEN {"finite", "nan"} ELSE {"finite"}
  ELSE IF op = "split" /\ a = "offgrid" /\ nf = 1 THEN {"ValueError"}   \* nothing to interpolate between
  ELSE IF op \in Transforms THEN
       \* variance-conserving transforms and ratio statistics are 0/0 on an all-zero spectrum; a one-point frequency
       \* axis cannot be interpolated
       IF op \in {"scale_by_hs", "interp", "rotate", "stats"} /\ ~Positive(s) THEN {"finite", "nan"}
       ELSE IF op = "interp" /\ nf = 1 THEN {"finite", "nan"}
       ELSE {"finite"}
  ELSE IF op \in Partitions THEN {"finite"}
  ELSE {}

VARIABLES nf, d, s, op, a, done
vars == <<nf, d, s, op, a, done>>
\* operations defined on frequency-direction spectra only (watershed and rule-based partitions, rotation,
\* 2-D smoothing) are not part of the table for 1-D spectra: the property speaks of valid grids for the operation
InScope(dd, o) == ~(dd = "none" /\ o \in Partitions \cup {"rotate", "smooth"})
Init == /\ nf \in NF /\ d \in DIRS /\ s \in SPECTRA /\ op \in OPS /\ a \in Args(op) /\ done = FALSE
        /\ InScope(d, op)
Observe == /\ ~done /\ done' = TRUE
           /\ PrintT(ToJson([nf |-> nf, dirs |-> d, spectrum |-> s, op |-> op, arg |-> a,
                             allowed |-> Allowed(nf, d, s, op, a)]))
           /\ UNCHANGED <<nf, d, s, op, a>>
Next == Observe
Spec == Init /\ [][Next]_vars

Total == Allowed(nf, d, s, op, a) # {}
InvalidRejected == InvalidArg(op, a) => Allowed(nf, d, s, op, a) = {"ValueError"}
NeverOtherException == Allowed(nf, d, s, op, a) \subseteq {"finite", "nan", "empty", "ValueError"}
\* NaN is allowed only in the degenerate classes the property names
NanOnlyWhenDegenerate ==
  ("nan" \in Allowed(nf, d, s, op, a)) =>
     \/ ~Positive(s) \/ ~HasInteriorPeak(nf, s) \/ OneFreqEnergy(nf, s) \/ OneDirEnergy(d, s) \/ op \in {"gw", "fdspr"}
ValidNondegenerateIsFinite ==
  (~InvalidArg(op, a) /\ d \in {"two", "many"} /\ s \in {"ordinary", "twopeaks"} /\ nf >= 3 /\ op \notin {"gw", "fdspr"})
     => Allowed(nf, d, s, op, a) = {"finite"}
=============================================================================
