---------------------------------- MODULE Select ----------------------------------
(* C14: station selection on a sphere-aware longitude axis (core/select.py sel_nearest, sel_idw, sel_bbox).        *)
(* Positions are abstract points on the sphere: longitude in half-degree units 0..719 (0 .. 359.5 deg east),        *)
(* latitude in half-degree units.  A dataset or a query EXPRESSES longitudes in a convention: 360 ([0,360)) or      *)
(* 180 ([-180,180)); Rep gives the number that is stored.  Selection is defined on the abstract positions, so the   *)
(* same stations are chosen whatever the two conventions are, and longitudes are reported in the query's.           *)
(* Distances are Euclidean in (longitude difference the short way round, latitude difference), compared squared.    *)
EXTENDS Integers, Sequences, FiniteSets, TLC, FiniteSetsExt, SequencesExt

Abs(x) == IF x < 0 THEN -x ELSE x
Rep(lonU, conv) == IF conv = 360 THEN lonU ELSE IF lonU >= 360 THEN lonU - 720 ELSE lonU     \* half-degree units
LonDiff(a, b) == LET d == Abs(a - b) % 720 IN IF d > 360 THEN 720 - d ELSE d
Dist2(p, q) == (LonDiff(p[1], q[1]) * LonDiff(p[1], q[1])) + ((p[2] - q[2]) * (p[2] - q[2]))

\* stations: sequence of <<lonU, lat>>; tol in half-degree units (a distance d is within tolerance iff d <= tol)
Within(st, q, tol) == {k \in 1..Len(st) : Dist2(st[k], q) <= tol * tol}
MinD2(st, q) == Min({Dist2(st[k], q) : k \in 1..Len(st)})
NearestSet(st, q) == {k \in 1..Len(st) : Dist2(st[k], q) = MinD2(st, q)}
NearestFails(st, q, tol) == MinD2(st, q) > tol * tol

\* inverse-distance: the up-to-maxs nearest stations within tolerance, as sets of admissible choices (ties at the cut-off are free)
Closer(st, q, a, b) == Dist2(st[a], q) < Dist2(st[b], q)
IdwChoices(st, q, tol, maxs) ==
  LET w == Within(st, q, tol)
      n == IF Cardinality(w) < maxs THEN Cardinality(w) ELSE maxs
  IN {S \in SUBSET w : Cardinality(S) = n /\ \A a \in S : \A b \in w \ S : ~Closer(st, q, b, a)}
IdwExact(st, q, tol) == {k \in Within(st, q, tol) : Dist2(st[k], q) = 0}        \* the station itself at zero distance
IdwMissing(st, q, tol, maxs) == IdwExact(st, q, tol) = {} /\ \A S \in IdwChoices(st, q, tol, maxs) : Cardinality(S) < 2

\* bounding box in the query's own convention, widened by the tolerance
BBox(st, qs, convQ, tol) ==
  LET lons == {Rep(qs[k][1], convQ) : k \in 1..Len(qs)} lats == {qs[k][2] : k \in 1..Len(qs)}
  IN {k \in 1..Len(st) : /\ Rep(st[k][1], convQ) >= Min(lons) - tol /\ Rep(st[k][1], convQ) <= Max(lons) + tol
                         /\ st[k][2] >= Min(lats) - tol /\ st[k][2] <= Max(lats) + tol}
=============================================================================
