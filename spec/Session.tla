--------------------------------- MODULE Session ---------------------------------
(* A user session on one spectra object (C05, C06, C07, C17, C18).                                     *)
(* The object has abstract CONTENTS (a version number standing for the labelled values: which spectrum  *)
(* and which direction grid) and a concrete REPRESENTATION (dimension order, memory layout, dtype width, *)
(* where the stored direction sequence starts, its orientation, chunking).  Actions:                    *)
(*   representation changes  Transpose, Layout, Cast, RollDir, FlipDir, SortDir, Chunk                   *)
(*   in-place edits          SetEfth(v)  (ds['efth'] = ...),  SetDir(g)  (obj['dir'] = ...), SetFreq       *)
(*   calls                   Access (first touch of the accessor), Call(op), CallUnknown, OtherShape,    *)
(*                           ReaderCalls (files of every format read into OTHER objects, 1-D and 2-D)   *)
(* In this abstract specification the VALUE OBSERVED BY A CALL IS A FUNCTION OF THE CURRENT CONTENTS AND *)
(* THE OPERATION ONLY (obs), and a call leaves the object as it was (frame condition).  Mechanisms.tla   *)
(* refines it with the places where the code keeps state; the harness replays every behaviour printed by *)
(* EmitInv on the real library and compares each observation with obs.                                   *)
EXTENDS Integers, Sequences, FiniteSets, TLC, Json

CONSTANTS OPS,        \* operation names
          REPACTS,    \* enabled representation actions (subset of the names below)
          EDITACTS,   \* enabled edit / history actions
          MAXLEN,     \* maximal program length (number of actions before the observed call)
          NVER, NGRID,\* content versions / direction grids available to the edits
          DERIVES     \* enabled derivation steps (the object becomes the RESULT of a public operation)

RepActs == {"transpose_df", "transpose_lead", "fortran", "strided", "cast32", "bigendian", "roll1", "roll_seam", "flip", "sortdir",
            "chunk_lead", "chunk_freq", "chunk_dir", "chunk_all1"}
EditActs == {"access", "call_other", "set_efth", "set_dir", "set_freq", "call_unknown", "other_shape", "reader_calls"}
\* Derivations: the session continues on what a public operation (or an xarray selection / arithmetic / concatenation) returned.
\* Contents become a function of the previous contents (`via` records which), the dimensions change as DimsAfter says, and the
\* representation is whatever the library produced - the specification says nothing about it, which is the point: the next call's
\* observation is still a function of the contents only.
Derives == {"isel_time_list", "isel_time_scalar", "sel_dirs", "sel_dir_one", "isel_freq_slice", "sel_freq_one", "smooth", "interp", "split", "rotate",
            "ptm3", "bbox", "oned", "times2", "concat", "expand_site", "expand_site_last", "readonly", "sortby_time_desc", "where", "scale_by_hs",
            \* through a file and back: what a reader returns for what a writer wrote is an object like any other
            "via_swan", "via_json", "via_netcdf", "via_octopus"}
ViaFile == {"via_swan", "via_json", "via_netcdf", "via_octopus"}
NeedsDir == {"sel_dirs", "sel_dir_one", "rotate", "oned", "ptm3", "bbox", "smooth", "interp"} \cup ViaFile
NeedsTime == {"isel_time_list", "isel_time_scalar", "concat", "sortby_time_desc"} \cup ViaFile
AddsPart == {"ptm3", "bbox"}
AddsSite == {"expand_site", "expand_site_last", "via_octopus"}
CanDerive(t, ds) == /\ (t \in NeedsDir => "dir" \in ds) /\ (t \in NeedsTime => "time" \in ds)
                    /\ (t \in AddsPart => "part" \notin ds) /\ (t \in AddsSite => "site" \notin ds)
                    /\ (t \in ViaFile => ds = {"time", "freq", "dir"})       \* the file formats hold records of 2-D spectra at positions
DimsAfter(t, ds) == CASE t = "isel_time_scalar" -> ds \ {"time"} [] t = "oned" -> ds \ {"dir"}
                      [] t \in AddsPart -> ds \cup {"part"} [] t \in AddsSite -> ds \cup {"site"}
                      [] t = "via_swan" -> ds \cup {"lat", "lon"}      \* a single location reads back as a 1 x 1 grid
                      [] OTHER -> ds
ASSUME REPACTS \subseteq RepActs /\ EDITACTS \subseteq EditActs /\ DERIVES \subseteq Derives

VARIABLES rep,     \* representation record
          ver,     \* contents: [efth |-> version, grid |-> direction grid]
          path,    \* the program so far (sequence of action names with arguments)
          obs,     \* <<op, contents>> observed by the last Call, or <<>> before any call
          frame    \* TRUE as long as no call changed rep or ver
vars == <<rep, ver, path, obs, frame>>

Rep0 == [dimorder |-> "lead_freq_dir", layout |-> "C", width |-> 64, endian |-> "native", roll |-> 0, flip |-> FALSE, chunks |-> "none"]
Init == rep = Rep0 /\ ver = [efth |-> 1, grid |-> 1, fgrid |-> 1, via |-> <<>>, dims |-> {"time", "freq", "dir"}] /\ path = <<>> /\ obs = <<>> /\ frame = TRUE

Rec(a, x) == [act |-> a, arg |-> x]
Apply(op, v) == <<op, v.efth, v.grid, v.fgrid, v.via>>          \* the abstract result: contents and operation, nothing else

DoRep(a) ==
  /\ a \in REPACTS /\ Len(path) < MAXLEN /\ obs = <<>>
  /\ rep' = CASE a = "transpose_df" -> [rep EXCEPT !.dimorder = IF @ = "lead_freq_dir" THEN "lead_dir_freq" ELSE "lead_freq_dir"]
              [] a = "transpose_lead" -> [rep EXCEPT !.dimorder = IF @ = "lead_freq_dir" THEN "freq_dir_lead" ELSE "lead_freq_dir"]
              [] a = "fortran" -> [rep EXCEPT !.layout = "F"]
              [] a = "strided" -> [rep EXCEPT !.layout = "S"]
              [] a = "cast32" -> [rep EXCEPT !.width = 32]
              \* byte order is part of the in-memory layout: the same numbers stored most-significant byte first (netCDF3 / XDR readers)
              [] a = "bigendian" -> [rep EXCEPT !.endian = "big"]
              \* the roll actions store the ASCENDING sequence started one bin later / at the last direction, so they also undo a flip
              [] a = "roll1" -> [rep EXCEPT !.roll = 1, !.flip = FALSE]
              [] a = "roll_seam" -> [rep EXCEPT !.roll = 2, !.flip = FALSE]      \* the 0/360 seam falls between the first two stored directions
              [] a = "flip" -> [rep EXCEPT !.flip = ~@]
              [] a = "sortdir" -> [rep EXCEPT !.roll = 0, !.flip = FALSE]
              [] a = "chunk_lead" -> [rep EXCEPT !.chunks = "lead"]
              [] a = "chunk_freq" -> [rep EXCEPT !.chunks = "freq"]
              [] a = "chunk_dir" -> [rep EXCEPT !.chunks = "dir"]
              [] a = "chunk_all1" -> [rep EXCEPT !.chunks = "all1"]
  /\ rep' # rep                                    \* prune no-ops
  /\ path' = Append(path, Rec(a, 0))
  /\ UNCHANGED <<ver, obs, frame>>

DoEdit(a) ==
  /\ a \in EDITACTS /\ Len(path) < MAXLEN /\ obs = <<>>
  /\ \/ /\ a \in {"access", "call_other", "call_unknown", "other_shape", "reader_calls"}
        /\ path' = Append(path, Rec(a, 0)) /\ UNCHANGED ver          \* calls do not change contents (frame)
     \/ /\ a = "set_efth" /\ \E v \in (1..NVER) \ {ver.efth} : ver' = [ver EXCEPT !.efth = v] /\ path' = Append(path, Rec(a, v))
     \/ /\ a = "set_dir" /\ \E g \in (1..NGRID) \ {ver.grid} : ver' = [ver EXCEPT !.grid = g] /\ path' = Append(path, Rec(a, g))
     \/ /\ a = "set_freq" /\ ver' = [ver EXCEPT !.fgrid = 3 - @] /\ path' = Append(path, Rec(a, 3 - ver.fgrid))     \* obj['freq'] = ... (two frequency grids)
  /\ UNCHANGED <<rep, obs, frame>>

DoDerive(t) ==
  /\ t \in DERIVES /\ Len(path) < MAXLEN /\ obs = <<>> /\ CanDerive(t, ver.dims)
  /\ ver' = [ver EXCEPT !.via = Append(@, t), !.dims = DimsAfter(t, @)]
  /\ rep' = [rep EXCEPT !.layout = "asproduced"]
  /\ path' = Append(path, Rec("derive", t))
  /\ UNCHANGED <<obs, frame>>

Call(op) ==
  /\ obs = <<>> /\ op \in OPS
  /\ obs' = Apply(op, ver)
  /\ path' = Append(path, Rec("call", op))
  /\ frame' = TRUE                                  \* a call changes neither representation nor contents
  /\ UNCHANGED <<rep, ver>>

Next == (\E a \in REPACTS : DoRep(a)) \/ (\E a \in EDITACTS : DoEdit(a)) \/ (\E t \in DERIVES : DoDerive(t)) \/ (\E op \in OPS : Call(op))
Spec == Init /\ [][Next]_vars

\* results depend on the present contents and the call's arguments only (C05, C18): whatever path led here
ResultIsFunctionOfContents == obs # <<>> => obs = Apply(obs[1], ver)
\* a derivation never yields an object the model cannot name the dimensions of: spectra always keep their frequencies
DerivedKeepFreq == "freq" \in ver.dims
\* frame condition of every call (C17)
CallsDoNotModify == [][(obs' # obs) => (rep' = rep /\ ver' = ver)]_vars
EmitInv == obs # <<>> => PrintT(ToJson([path |-> path, rep |-> rep, ver |-> ver, op |-> obs[1]]))
=============================================================================
