--------------------------------- MODULE Smooth ---------------------------------
(* C16: smoothing (core/utils.py smooth_spec, SpecArray.smooth) as a local average in exact rationals.        *)
(* Input: NF frequencies (only the count matters), stored direction labels D (any order), energies E[i][j].   *)
(* A full-circle grid (distinct labels, uniform spacing dd, max - min + dd = 360) is treated circularly in     *)
(* direction; otherwise the direction window has to fit inside the sorted range.  Where the whole             *)
(* (fw x fd) window fits the output is the window mean, elsewhere it is the input value.  Even windows are     *)
(* rejected.  The output keeps the input's dimensions, coordinates and stored order.                          *)
EXTENDS Rat

Labels(D) == {D[j] : j \in 1..Len(D)}
Sorted(D) == SortInts(Labels(D))
Uniform(D) == LET s == Sorted(D) IN Len(s) >= 2 /\ \A k \in 1..(Len(s)-1) : s[k+1] - s[k] = s[2] - s[1]
IsCircular(D) == Cardinality(Labels(D)) = Len(D) /\ Uniform(D) /\
                 LET s == Sorted(D) IN s[Len(s)] - s[1] + (s[2] - s[1]) = 360
\* rank of stored column j in ascending label order, and its inverse
Rank(D, j) == Cardinality({k \in 1..Len(D) : D[k] < D[j]}) + 1
ColOfRank(D, r) == CHOOSE j \in 1..Len(D) : Rank(D, j) = r
Wrap(r, n) == ((((r - 1) % n) + n) % n) + 1

Even(w) == (w % 2) = 0
\* the set of <<frequency index, stored column>> under the window centred at (i, j), or {} when it does not fit
Window(NF, D, i, j, fw, fd) ==
  LET hf == (fw - 1) \div 2 hd == (fd - 1) \div 2 n == Len(D) r == Rank(D, j)
      fitsF == i - hf >= 1 /\ i + hf <= NF
      fitsD == IsCircular(D) \/ (r - hd >= 1 /\ r + hd <= n)
  IN IF ~(fitsF /\ fitsD) THEN {}
     ELSE {<<ii, ColOfRank(D, IF IsCircular(D) THEN Wrap(rr, n) ELSE rr)>> : ii \in (i-hf)..(i+hf), rr \in (r-hd)..(r+hd)}
\* windows wider than the circle would count bins twice: outside the quantifier of the property
Admissible(NF, D, fw, fd) == fw >= 1 /\ fd >= 1 /\ fw <= NF /\ fd <= Len(D)

SmoothAt(NF, D, E, i, j, fw, fd) ==
  LET w == Window(NF, D, i, j, fw, fd) hd == (fd - 1) \div 2 n == Len(D) r == Rank(D, j) hf == (fw - 1) \div 2 IN
  IF w = {} THEN R(E[i][j])
  ELSE LET cells == [a \in 1..(fw * fd) |->
                       LET ii == (i - hf) + ((a - 1) \div fd)
                           rr == (r - hd) + ((a - 1) % fd)
                       IN R(E[ii][ColOfRank(D, IF IsCircular(D) THEN Wrap(rr, n) ELSE rr)])]
       IN RDiv(SeqSum(cells), R(fw * fd))
SmoothAll(NF, D, E, fw, fd) == [i \in 1..NF |-> [j \in 1..Len(D) |-> SmoothAt(NF, D, E, i, j, fw, fd)]]
=============================================================================
