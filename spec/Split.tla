---------------------------------- MODULE Split ----------------------------------
(* C09: rule-based splits in exact arithmetic on the lattice (frequencies in 0.05 Hz units, whole degrees).        *)
(*  PTM4   wave-age split: bin (i, j) is wind sea iff  C[i] <= U[j]  (celerity at the given depth vs age factor    *)
(*         times the wind component along the bin's direction); swell is the complement.                           *)
(*  BBOX   each box takes the bins with fmin <= f <= fmax and dmin <= d <= dmax (omitted limits = the grid's        *)
(*         extremes), the last partition is the complement of the union; boxes that overlap as rectangles are       *)
(*         rejected, as is fmin >= fmax.                                                                            *)
(*  BAND   split(fmin, fmax, dmin, dmax): the bins inside the band unchanged, the rest removed, plus the linearly   *)
(*         interpolated row at a cutoff that is not a grid frequency.                                               *)
(*  PTM5   the cutoff frequency is inserted by Regrid (one variance-preserving factor), sea = rows >= fcut,          *)
(*         swell = rows <= fcut, zeros elsewhere.                                                                    *)
(* Outputs are in sorted (freq, dir) order as the code returns them.                                                *)
EXTENDS Regrid

SortedIdx(D) == LET s == SortInts({D[j] : j \in 1..Len(D)}) IN [k \in 1..Len(s) |-> CHOOSE j \in 1..Len(D) : D[j] = s[k]]
SortedD(D) == [k \in 1..Len(D) |-> D[SortedIdx(D)[k]]]
SortCols(D, E) == [i \in 1..Len(E) |-> [k \in 1..Len(D) |-> E[i][SortedIdx(D)[k]]]]

(* ---------------- PTM4 ---------------- *)
Ptm4Sea(C, U, D, E) == LET e == SortCols(D, E) u == [k \in 1..Len(D) |-> U[SortedIdx(D)[k]]]
                       IN [i \in 1..Len(E) |-> [k \in 1..Len(D) |-> IF C[i] <= u[k] THEN e[i][k] ELSE 0]]
Ptm4Swell(C, U, D, E) == LET e == SortCols(D, E) u == [k \in 1..Len(D) |-> U[SortedIdx(D)[k]]]
                         IN [i \in 1..Len(E) |-> [k \in 1..Len(D) |-> IF C[i] <= u[k] THEN 0 ELSE e[i][k]]]

(* ---------------- BBOX ---------------- *)
\* a box is [fmin, fmax, dmin, dmax] with -1 for an omitted limit
Lim(b, k, dflt) == IF b[k] = -1 THEN dflt ELSE b[k]
BoxRect(F, D, b) == LET sd == SortedD(D) IN <<Lim(b, 1, F[1]), Lim(b, 3, sd[1]), Lim(b, 2, F[Len(F)]), Lim(b, 4, sd[Len(sd)])>>   \* l, b, r, t
RectOverlap(r1, r2) == ~(r1[3] <= r2[1] \/ r2[3] <= r1[1]) /\ ~(r1[4] <= r2[2] \/ r2[4] <= r1[2])
InBox(F, D, b, i, k) == LET r == BoxRect(F, D, b) sd == SortedD(D) IN F[i] >= r[1] /\ F[i] <= r[3] /\ sd[k] >= r[2] /\ sd[k] <= r[4]
BoxesRejected(F, D, boxes) == \/ \E a \in 1..Len(boxes) : BoxRect(F, D, boxes[a])[1] >= BoxRect(F, D, boxes[a])[3]
                              \/ \E a, c \in 1..Len(boxes) : a < c /\ RectOverlap(BoxRect(F, D, boxes[a]), BoxRect(F, D, boxes[c]))
BboxParts(F, D, E, boxes) ==
  LET e == SortCols(D, E)
      part(b) == [i \in 1..Len(F) |-> [k \in 1..Len(D) |-> IF InBox(F, D, b, i, k) THEN e[i][k] ELSE 0]]
      rest == [i \in 1..Len(F) |-> [k \in 1..Len(D) |-> IF \E a \in 1..Len(boxes) : InBox(F, D, boxes[a], i, k) THEN 0 ELSE e[i][k]]]
  IN [a \in 1..(Len(boxes) + 1) |-> IF a <= Len(boxes) THEN part(boxes[a]) ELSE rest]
SharesBin(F, D, boxes) == \E a, c \in 1..Len(boxes) : a < c /\ \E i \in 1..Len(F), k \in 1..Len(D) : InBox(F, D, boxes[a], i, k) /\ InBox(F, D, boxes[c], i, k)

(* ---------------- BAND ---------------- *)
\* frequencies of split(fmin, fmax): the grid nodes inside plus off-grid cutoffs (-1 = omitted)
BandF(F, fmin, fmax) ==
  LET lo == IF fmin = -1 THEN F[1] ELSE fmin hi == IF fmax = -1 THEN F[Len(F)] ELSE fmax
  IN SortInts({F[i] : i \in {i \in 1..Len(F) : F[i] >= lo /\ F[i] <= hi}} \cup (IF fmin # -1 THEN {fmin} ELSE {}) \cup (IF fmax # -1 THEN {fmax} ELSE {}))
BandD(D, dmin, dmax) == LET sd == SortedD(D) lo == IF dmin = -1 THEN sd[1] ELSE dmin hi == IF dmax = -1 THEN sd[Len(sd)] ELSE dmax
                        IN IF dmin = -1 /\ dmax = -1 THEN D ELSE SelectSeq(sd, LAMBDA d : d >= lo /\ d <= hi)
\* value at frequency f (a node, or linearly interpolated between its neighbours), per direction label d
BandValue(F, D, E, f, d) == LET j == CHOOSE j \in 1..Len(D) : D[j] = d IN
                            Interp(F, [i \in 1..Len(F) |-> R(E[i][j])], f, NaNR)
Band(F, D, E, fmin, fmax, dmin, dmax) ==
  LET bf == BandF(F, fmin, fmax) bd == BandD(D, dmin, dmax)
  IN [a \in 1..Len(bf) |-> [k \in 1..Len(bd) |-> BandValue(F, D, E, bf[a], bd[k])]]

(* ---------------- PTM5 ---------------- *)
Ptm5F(F, fcut) == SortInts({F[i] : i \in 1..Len(F)} \cup {fcut})
Ptm5Base(F, D, E, fcut) == IF \E i \in 1..Len(F) : F[i] = fcut THEN ToR(SortCols(D, E))
                           ELSE Regrid(F, SortedD(D), SortCols(D, E), Ptm5F(F, fcut), <<>>, TRUE)
Ptm5Sea(F, D, E, fcut) == LET b == Ptm5Base(F, D, E, fcut) f == Ptm5F(F, fcut) IN
                          [a \in 1..Len(f) |-> [k \in 1..Len(D) |-> IF f[a] >= fcut /\ ~IsNaN(b[a][k]) THEN b[a][k] ELSE <<0, 1>>]]   \* missing values are filled with zero
Ptm5Swell(F, D, E, fcut) == LET b == Ptm5Base(F, D, E, fcut) f == Ptm5F(F, fcut) IN
                            [a \in 1..Len(f) |-> [k \in 1..Len(D) |-> IF f[a] <= fcut /\ ~IsNaN(b[a][k]) THEN b[a][k] ELSE <<0, 1>>]]
=============================================================================
