---------------------------------- MODULE Stats ----------------------------------
(* Defining integrals of the spectral statistics (C01, C02, C10), transcribed from the published   *)
(* definitions over an exact lattice:                                                             *)
(*   frequencies  F[i]  in units of 1/20 Hz (so f = F/20),  strictly increasing                   *)
(*   directions   D[j]  whole degrees, uniformly spaced by DD (DD = 1 for a single direction)     *)
(*   energy       E[i][j]  natural numbers (m2/Hz/deg)                                            *)
(* Bin widths are the dataset's own: df = centred differences, one-sided at the ends, 1 Hz for a  *)
(* single frequency (DF2 = 2*df in lattice units = 40*df[Hz]); dd = spacing of the directions.     *)
(* Results are exact rationals <<num, den>> or expression trees over exact leaves:                 *)
(*   <<"q", n, d>> rational leaf; <<"add"|"sub"|"mul"|"div", a, b>>; <<"sqrt", a>>;                *)
(*   <<"atan2d", y, x>> (degrees); <<"wsum", "sin"|"cos", <<<<w1, a1>>, ...>>>> = sum w*sin(a deg); *)
(*   <<"pi2">> = pi^2 ; <<"mod360", a>> ; <<"nan">>.                                               *)
(* The harness evaluates trees with math.* only; every physical formula is here.                   *)
EXTENDS Integers, Sequences, FiniteSets, TLC, SequencesExt

SetToSeqOrd(S) == SetToSortSeq(S, LAMBDA a, b : a < b)

SumTo(n, f(_)) == LET s[k \in 0..n] == IF k = 0 THEN 0 ELSE f(k) + s[k-1] IN s[n]
RECURSIVE Pow(_, _)
Pow(b, k) == IF k = 0 THEN 1 ELSE b * Pow(b, k - 1)

Q(n, d) == <<"q", n, d>>
Add(a, b) == <<"add", a, b>>
Sub(a, b) == <<"sub", a, b>>
Mul(a, b) == <<"mul", a, b>>
Div(a, b) == <<"div", a, b>>
Sqrt(a) == <<"sqrt", a>>
NaNTok == <<"nan">>

NF(F) == Len(F)
DF2(F, i) == IF Len(F) = 1 THEN 40
             ELSE IF i = 1 THEN 2 * (F[2] - F[1])
             ELSE IF i = Len(F) THEN 2 * (F[Len(F)] - F[Len(F)-1])
             ELSE F[i+1] - F[i-1]

\* direction-summed energy per frequency WITHOUT the direction width (kept symbolic to stay in 32 bits)
S0(E, i, nd) == IF nd = 0 THEN E[i] ELSE SumTo(nd, LAMBDA j : E[i][j])
\* M'(k) = sum_i S0[i] F[i]^k DF2[i]      real moment m_k = dd * M'(k) / (40 * 20^k)
MP(F, E, nd, k) == SumTo(Len(F), LAMBDA i : S0(E, i, nd) * Pow(F[i], k) * DF2(F, i))
HasTail(F) == F[Len(F)] >= 7                       \* f[-1] > 0.333 Hz  (0.333*20 = 6.66)
TailP(F, E, nd) == IF HasTail(F) THEN S0(E, Len(F), nd) * F[Len(F)] ELSE 0     \* 0.25*Sf*f = dd*TailP/80
\* total variance with/without tail: Etot = dd * (2 M'(0) + TailP) / 80
EtotNum(F, E, nd, tail) == 2 * MP(F, E, nd, 0) + (IF tail THEN TailP(F, E, nd) ELSE 0)

Mom(F, E, nd, dd, k) == Mul(Q(dd, 1), Q(MP(F, E, nd, k), 40 * Pow(20, k)))
Etot(F, E, nd, dd, tail) == Q(dd * EtotNum(F, E, nd, tail), 80)
Hs(F, E, nd, dd, tail) == Mul(Q(4, 1), Sqrt(Etot(F, E, nd, dd, tail)))
Hrms(F, E, nd, dd, tail) == Sqrt(Mul(Q(8, 1), Etot(F, E, nd, dd, tail)))
Hmax(F, E, nd, dd) == Mul(Q(186, 100), Hs(F, E, nd, dd, TRUE))      \* no time axis: k = 1.86
\* a time axis needs a time STEP: NREC records; with one record (a length-1 time dimension, a scalar time coordinate) there is none
HmaxSeries(F, E, nd, dd, nrec, hmaxt) == IF nrec <= 1 THEN Hmax(F, E, nd, dd) ELSE hmaxt
\* with a time axis: k = sqrt(ln(N)/2), N = round(dt / Tm02) waves per record, dt = MEAN time step in seconds (Holthuijsen)
Ln(a) == <<"ln", a>>
Round(a) == <<"round", a>>
Tm01(F, E, nd) == IF MP(F, E, nd, 1) = 0 THEN NaNTok ELSE Q(20 * MP(F, E, nd, 0), MP(F, E, nd, 1))
Tm02(F, E, nd) == IF MP(F, E, nd, 2) = 0 THEN NaNTok ELSE Sqrt(Q(400 * MP(F, E, nd, 0), MP(F, E, nd, 2)))
\* spectral widths: dimensionless, the scalings of the moments cancel
HmaxT(F, E, nd, dd, dt) == IF MP(F, E, nd, 2) = 0 THEN NaNTok
                           ELSE Mul(Sqrt(Mul(Q(1, 2), Ln(Round(Div(Q(dt, 1), Tm02(F, E, nd)))))), Hs(F, E, nd, dd, TRUE))
Swe(F, E, nd) == IF MP(F, E, nd, 0) = 0 THEN NaNTok
                 ELSE Sqrt(Sub(Q(1, 1), Div(Mul(Q(MP(F, E, nd, 2), 1), Q(MP(F, E, nd, 2), 1)),
                                               Mul(Q(MP(F, E, nd, 0), 1), Q(MP(F, E, nd, 4), 1)))))
Sw(F, E, nd) == IF MP(F, E, nd, 0) = 0 THEN NaNTok
                ELSE Sqrt(Sub(Div(Mul(Q(MP(F, E, nd, 0), 1), Q(MP(F, E, nd, 2), 1)),
                                  Mul(Q(MP(F, E, nd, 1), 1), Q(MP(F, E, nd, 1), 1))), Q(1, 1)))
\* Goda peakedness 2/m0^2 * sum Sf^2 f df  =  4 G' / M'(0)^2  (dd cancels)
GP(F, E, nd) == SumTo(Len(F), LAMBDA i : S0(E, i, nd) * S0(E, i, nd) * F[i] * DF2(F, i))
Goda(F, E, nd) == IF MP(F, E, nd, 0) = 0 THEN NaNTok
                  ELSE Div(Q(4 * GP(F, E, nd), 1), Mul(Q(MP(F, E, nd, 0), 1), Q(MP(F, E, nd, 0), 1)))
\* Bunney's gaussian width: sqrt( m0t/Tm02^2 - m0t^2/Tm01^2 ), m0t = (Hs/4)^2 (includes the tail)
Gw(F, E, nd, dd) ==
  IF MP(F, E, nd, 0) = 0 THEN NaNTok
  ELSE LET et == Etot(F, E, nd, dd, TRUE)
           r2 == Q(MP(F, E, nd, 2), 400 * MP(F, E, nd, 0))          \* 1/Tm02^2 = m2/m0
           r1 == Q(MP(F, E, nd, 1), 20 * MP(F, E, nd, 0))           \* 1/Tm01   = m1/m0
       IN Sqrt(Sub(Mul(et, r2), Mul(Mul(et, et), Mul(r1, r1))))

(* ---- directional quantities: weights per direction, angles exact ---- *)
\* frequency-integrated weight of direction j with the bin widths:  W[j] = sum_i E[i][j] F[i]^k DF2[i]
W(F, E, j, k) == SumTo(Len(F), LAMBDA i : E[i][j] * Pow(F[i], k) * DF2(F, i))
\* the library's dm adds the per-frequency moments WITHOUT df: weights sum_i E[i][j]
WNoDf(F, E, j) == SumTo(Len(F), LAMBDA i : E[i][j])
WSeq(F, E, D, k) == [j \in 1..Len(D) |-> <<W(F, E, j, k), 270 - D[j]>>]
WSeqNoDf(F, E, D) == [j \in 1..Len(D) |-> <<WNoDf(F, E, j), 270 - D[j]>>]
RowSeq(E, D, i) == [j \in 1..Len(D) |-> <<E[i][j], 270 - D[j]>>]
\* mean direction (270 - atan2(sum w sin, sum w cos)) mod 360 of a weight sequence
DirOf(ws) == <<"mod360", Sub(Q(270, 1), <<"atan2d", <<"wsum", "sin", ws>>, <<"wsum", "cos", ws>>>>)>>
\* one-sided spread  R2D * sqrt(2 (1 - |sum w e^{ia}| / sum w))
SprOf(ws) == <<"spread", ws>>
Dm(F, E, D) == DirOf(WSeq(F, E, D, 0))                 \* the defining integral (df-weighted)
DmNoDf(F, E, D) == DirOf(WSeqNoDf(F, E, D))           \* what a sum without bin widths gives
Dspr(F, E, D) == IF SumTo(Len(D), LAMBDA j : W(F, E, j, 0)) = 0 THEN NaNTok ELSE SprOf(WSeq(F, E, D, 0))
\* deep water: k = 2 pi f^2 / 1.56 ;  uss = sum dd 4 pi f k E df = (8 pi^2/1.56) dd M'(3)/(40*8000)
UssK(dd) == Mul(Mul(<<"pi2">>, Q(800, 156)), Q(dd, 320000))
Uss(F, E, nd, dd) == Mul(UssK(dd), Q(MP(F, E, nd, 3), 1))
UssX(F, E, D, dd) == Mul(UssK(dd), <<"wsum", "cos", WSeq(F, E, D, 3)>>)
UssY(F, E, D, dd) == Mul(UssK(dd), <<"wsum", "sin", WSeq(F, E, D, 3)>>)
\* mss = sum k^2 Sf df = (2 pi/1.56)^2 dd M'(4)/(40*160000)
Mss(F, E, nd, dd) == Mul(Mul(Mul(<<"pi2">>, Q(40000, 24336)), Q(dd, 6400000)), Q(MP(F, E, nd, 4), 1))

(* ---- peaks (C02) ---- *)
Sfv(E, nd, i) == S0(E, i, nd)
IsPeak(E, nd, n, i) == i > 1 /\ i < n /\ Sfv(E, nd, i-1) < Sfv(E, nd, i) /\ Sfv(E, nd, i) > Sfv(E, nd, i+1)
PeakSet(E, nd, n) == {i \in 1..n : IsPeak(E, nd, n, i)}
\* the largest interior strict local maxima (several when exactly tied)
TopPeaks(E, nd, n) == {i \in PeakSet(E, nd, n) : \A k \in PeakSet(E, nd, n) : Sfv(E, nd, k) <= Sfv(E, nd, i)}
TpRaw(F, p) == Q(20, F[p])
\* vertex of the parabola through (f1,e1),(f2,e2),(f3,e3):  fp = (f1+f2 - q12/qa)/2
\*   q12 = (e1-e2)/(f1-f2), q13 = (e1-e3)/(f1-f3), qa = (q13-q12)/(f3-f2)    (frequencies in lattice units)
VertexF(F, E, nd, p) ==
  LET f1 == F[p-1] f2 == F[p] f3 == F[p+1]
      e1 == Sfv(E, nd, p-1) e2 == Sfv(E, nd, p) e3 == Sfv(E, nd, p+1)
      q12 == Q(e1 - e2, f1 - f2) q13 == Q(e1 - e3, f1 - f3)
      qa == Div(Sub(q13, q12), Q(f3 - f2, 1))
  IN Div(Sub(Q(f1 + f2, 1), Div(q12, qa)), Q(2, 1))        \* in lattice units; Tp = 20 / VertexF
\* exact test "vertex strictly between the neighbours", by cross-multiplication (all integers small):
\*   with a = e2-e1 > 0, b = e2-e3 > 0, h1 = f2-f1, h2 = f3-f2 the vertex is f2 + (a h2^2 - b h1^2)/(2 (a h2 + b h1))
VertexNum(F, E, nd, p) == LET a == Sfv(E, nd, p) - Sfv(E, nd, p-1) b == Sfv(E, nd, p) - Sfv(E, nd, p+1)
                              h1 == F[p] - F[p-1] h2 == F[p+1] - F[p]
                          IN (a * h2 * h2) - (b * h1 * h1)
VertexDen(F, E, nd, p) == LET a == Sfv(E, nd, p) - Sfv(E, nd, p-1) b == Sfv(E, nd, p) - Sfv(E, nd, p+1)
                              h1 == F[p] - F[p-1] h2 == F[p+1] - F[p]
                          IN 2 * ((a * h2) + (b * h1))
VertexInside(F, E, nd, p) ==
  LET num == VertexNum(F, E, nd, p) den == VertexDen(F, E, nd, p)
  IN den > 0 /\ num < den * (F[p+1] - F[p]) /\ -num < den * (F[p] - F[p-1])
\* peak direction: direction(s) at which the frequency-summed spectrum is largest
DpSet(F, E, D) == {D[j] : j \in {j \in 1..Len(D) : \A k \in 1..Len(D) : WNoDf(F, E, k) <= WNoDf(F, E, j)}}
Dpm(E, D, p) == DirOf(RowSeq(E, D, p))
Dpspr(E, D, p) == SprOf(RowSeq(E, D, p))

(* ---- Phillips alpha and JONSWAP gamma at the peak ---- *)
\* peak frequency used by alpha/gamma (smooth = parabola vertex) as an exact fraction of lattice units
FpNum(F, E, nd, p) == (F[p] * VertexDen(F, E, nd, p)) + VertexNum(F, E, nd, p)
FpDen(F, E, nd, p) == VertexDen(F, E, nd, p)
\* tail-fit window: frequencies strictly between 1.35 fp and 2 fp (decided exactly)
AlphaWin(F, fpn, fpd) == {i \in 1..Len(F) : 100 * F[i] * fpd > 135 * fpn /\ F[i] * fpd < 2 * fpn}
AlphaPos(F, fpn, fpd) ==
  LET w == AlphaWin(F, fpn, fpd) n == Len(F) IN
  IF w = {} THEN {n - 1, n}
  ELSE IF Cardinality(w) = 1
       THEN (LET i == CHOOSE i \in w : TRUE IN IF i = n THEN {i - 1, i} ELSE {i, i + 1})
       ELSE w
G0 == Q(980665, 100000)
Pi4x16 == Mul(Q(16, 1), Mul(<<"pi2">>, <<"pi2">>))
Powi(a, k) == <<"powi", a, k>>
\* alpha = (2 pi)^4 / g^2 / npos * sum_{i in pos} Sf_i f_i^5 exp(1.25 (fp/f_i)^4)
AlphaOf(F, E, nd, dd, fpn, fpd) ==
  LET pos == AlphaPos(F, fpn, fpd)
      lo == CHOOSE i \in pos : \A k \in pos : i <= k
      hi == CHOOSE i \in pos : \A k \in pos : i >= k
      term(i) == Mul(Mul(Q(dd * S0(E, i, nd), 1), Powi(Q(F[i], 20), 5)),
                     <<"exp", Mul(Q(125, 100), Powi(Q(fpn, fpd * F[i]), 4))>>)
      terms == [k \in 1..(hi - lo + 1) |-> term(lo + k - 1)]
  IN Div(Div(Pi4x16, Mul(G0, G0)), Mul(Q(hi - lo + 1, 1), Div(Q(1, 1), <<"sumseq", terms>>)))
\* gamma (unscaled) = E(fp) / E_PM(fp),  E_PM(fp) = 0.3125 hs^2 fp^4 * fp^-5 * 0.2865048 ; clamped below at 1
GammaRaw(F, E, nd, dd, fpn, fpd, sfnum) ==
  Div(Q(dd * sfnum, 1),
      Div(Mul(Mul(Q(3125, 10000), Mul(Q(16, 1), Etot(F, E, nd, dd, TRUE))), Q(2865048, 10000000)), Q(fpn, 20 * fpd)))
SfMaxNum(F, E, nd) == CHOOSE v \in {S0(E, i, nd) : i \in 1..Len(F)} : \A i \in 1..Len(F) : S0(E, i, nd) <= v
=============================================================================
