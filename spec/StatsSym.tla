-------------------------------- MODULE StatsSym --------------------------------
(* C10: how the defining integrals of Stats.tla transform under                                     *)
(*   ScaleA(k)    multiply every energy by k > 0                                                     *)
(*   RelabelA(a)  add a degrees to every direction label (data untouched)                            *)
(*   ScaleByHsA   rescale the spectra of a small dataset by (c*hs/hs)^2 where hs lies in a range     *)
(* The relations are action properties over consecutive states, evaluated exactly by TLC on every    *)
(* lattice spectrum: moments scale linearly, ratios of moments (periods, widths, Goda) are invariant, *)
(* direction weights are unchanged by relabelling while every angle shifts by a, and rescaling by hs  *)
(* hits exactly the prescribed height where the range holds and is the identity elsewhere.            *)
EXTENDS Stats

CONSTANTS Vals, FS, NDIR, DD0, Ks, As

VARIABLES vF, vD, vE,     \* one spectrum
          ds, hsq,        \* a 3-position dataset of total variances (integers) for ScaleByHsA and the result
          last            \* name of the last action
vars == <<vF, vD, vE, ds, hsq, last>>

ND == Len(vD)
n == Len(vF)
FGrid(k) == CASE k = 1 -> <<1, 2, 4, 8>> [] k = 2 -> <<2, 3, 7>> [] k = 3 -> <<2, 4, 6>>
Init == /\ \E k \in FS : vF = FGrid(k)
        /\ vD = [j \in 1..NDIR |-> (j - 1) * DD0]
        /\ vE \in [1..Len(vF) -> [1..NDIR -> Vals]]
        /\ ds = <<16, 64, 144>> /\ hsq = [p \in 1..3 |-> 4 * ds[p]] /\ last = "init"

ScaleA(k) == /\ vE' = [i \in 1..n |-> [j \in 1..ND |-> k * vE[i][j]]] /\ last' = "scale"
             /\ UNCHANGED <<vF, vD, ds, hsq>>
RelabelA(a) == /\ vD' = [j \in 1..ND |-> vD[j] + a] /\ last' = "relabel" /\ UNCHANGED <<vF, vE, ds, hsq>>
\* ds[p] = Hs^2 of position p (16, 64, 144: heights 4, 8, 12 m); expr = "hs/2"; range 6 <= hs <= 10, inclusive,
\* decided on squares (36 <= Hs^2 <= 100).  hsq holds 4 * (new Hs^2) so that a quarter stays integral.
InRange(p) == ds[p] >= 36 /\ ds[p] <= 100
ScaleByHsA == /\ last' = "scale_by_hs" /\ UNCHANGED <<vF, vD, vE, ds>>
              /\ hsq' = [p \in 1..3 |-> IF InRange(p) THEN ds[p] ELSE 4 * ds[p]]
Next == \/ (last = "init" /\ \E k \in Ks : ScaleA(k))
        \/ (last = "init" /\ \E a \in As : RelabelA(a))
        \/ (last = "init" /\ ScaleByHsA)
Spec == Init /\ [][Next]_vars

M(k) == MP(vF, vE, ND, k)
(* scaling: every moment, the tail term, drift and slope numerators are linear in the energy *)
ScaleLinear == [][last' = "scale" => \E k \in Ks :
                   /\ \A m \in 0..4 : MP(vF', vE', ND, m) = k * M(m)
                   /\ TailP(vF', vE', ND) = k * TailP(vF, vE, ND)
                   /\ EtotNum(vF', vE', ND, TRUE) = k * EtotNum(vF, vE, ND, TRUE)       \* heights^2 x k
                   \* ratios of moments unchanged (cross-multiplied): Tm01, Tm02, sw, swe
                   /\ MP(vF', vE', ND, 0) * M(1) = M(0) * MP(vF', vE', ND, 1)
                   /\ MP(vF', vE', ND, 0) * M(2) = M(0) * MP(vF', vE', ND, 2)
                   \* direction weights all scale by the same k: directions and spreads unchanged
                   /\ \A j \in 1..ND : W(vF', vE', j, 0) = k * W(vF, vE, j, 0)
                   /\ PeakSet(vE', ND, n) = PeakSet(vE, ND, n)]_vars
RelabelShifts == [][last' = "relabel" => \E a \in As :
                   /\ \A m \in 0..4 : MP(vF', vE', ND, m) = M(m)
                   /\ \A j \in 1..ND : /\ WSeq(vF', vE', vD', 0)[j][1] = WSeq(vF, vE, vD, 0)[j][1]
                                       /\ WSeq(vF', vE', vD', 0)[j][2] = WSeq(vF, vE, vD, 0)[j][2] - a
                   /\ DpSet(vF', vE', vD') = {d + a : d \in DpSet(vF, vE, vD)}]_vars
\* exactly the prescribed height (hs/2)^2 = Hs^2/4 where the range holds, untouched elsewhere, position by position
ScaleByHsExact == [][last' = "scale_by_hs" =>
                   \A p \in 1..3 : (InRange(p) => 4 * hsq'[p] = 4 * ds[p]) /\ (~InRange(p) => hsq'[p] = 4 * ds[p])]_vars
=============================================================================
