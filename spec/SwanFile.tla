------------------------------ MODULE SwanFile ------------------------------
(* Beyond the listed properties' numeric content: the SWAN ASCII spectra file as a protocol between the         *)
(* line-level writer (SwanSpecFile.write_spectra, wavespectra/core/swan.py:203-221) and the one-line-lookahead   *)
(* reader (SwanSpecFile.read / _read_header / readall, :111-172).  The header is fixed-format and parsed by      *)
(* the constructor; this module starts where the constructor leaves off: lookahead empty, position at the first   *)
(* body line.                                                                                                      *)
(*   writer:  for each time: [time line]  then for each location one block:                                        *)
(*              NODATA                      (the maximum of the spectrum is NaN)                                   *)
(*              ZERO                        (maximum <= 0)                                                         *)
(*              FACTOR / factor / NF rows   (otherwise)                                                            *)
(*   reader:  read() = [time line read directly] then per location try NODATA, ZERO, FACTOR through the            *)
(*            lookahead; FACTOR is followed by 1 + NF direct reads; anything else ends the file ("return None").   *)
(*            readall() repeats read() while it returns a non-empty list.                                          *)
(* TLC enumerates every content (kinds per time and location) within the bounds, lets the writer produce the      *)
(* file and the reader consume it, and checks that the reader returns the content, aligned block by block,         *)
(* consumes every line exactly once, never reads directly while a line sits in the lookahead, and terminates.      *)
EXTENDS Integers, Sequences, FiniteSets, TLC, Json, SwanReaderOps

CONSTANTS NLOC,     \* locations per record (>= 1)
          NF,       \* rows per FACTOR block (>= 1)
          MAXT,     \* at most this many records in a time-dependent file
          TIMED,    \* TRUE: file with TIME header (any number of records); FALSE: stationary file (exactly one record)
          EMIT

Kinds == {"N", "Z", "F"}
VARIABLES content,                 \* what the caller hands to the writer: content[t][p] \in Kinds
          file, owner,             \* body lines written so far (kinds) and, for the checks only, which (t, p) each belongs to
          wpc, wt, wp,             \* writer: "time" | "blocks" | "closed"
          pos, buf, rpc, ip, ri,   \* reader: next line, lookahead (0 = empty), control state, location, row
          times, cur, out,         \* reader results: time stamps, blocks of the record being read, finished records
          garbled                  \* a row position was filled from a line that is not a line of numbers (the code only warns)
vars == <<content, file, owner, wpc, wt, wp, pos, buf, rpc, ip, ri, times, cur, out, garbled>>
wvars == <<content, file, owner, wpc, wt, wp>>
rvars == <<pos, buf, rpc, ip, ri, times, cur, out, garbled>>
T == Len(content)

BlockLines(kind) == CASE kind = "N" -> <<"NODATA">> [] kind = "Z" -> <<"ZERO">>
                      [] OTHER -> <<"FACTOR", "num">> \o [i \in 1..NF |-> "num"]

Init == /\ content \in UNION {[1..n -> [1..NLOC -> Kinds]] : n \in (IF TIMED THEN 0..MAXT ELSE {1})}
        /\ file = <<>> /\ owner = <<>> /\ wpc = "time" /\ wt = 1 /\ wp = 1
        /\ pos = 1 /\ buf = 0 /\ rpc = "idle" /\ ip = 1 /\ ri = 0 /\ times = <<>> /\ cur = <<>> /\ out = <<>> /\ garbled = FALSE

(* ------------------------------- writer: one action per write call ------------------------------- *)
WTime == /\ wpc = "time" /\ wt <= T
         /\ file' = IF TIMED THEN Append(file, "time") ELSE file
         /\ owner' = IF TIMED THEN Append(owner, <<wt, 0>>) ELSE owner
         /\ wpc' = "blocks" /\ wp' = 1 /\ UNCHANGED <<content, wt>> /\ UNCHANGED rvars
WBlock == /\ wpc = "blocks"
          /\ LET b == BlockLines(content[wt][wp]) IN
             /\ file' = file \o b /\ owner' = owner \o [k \in 1..Len(b) |-> <<wt, wp>>]
          /\ IF wp = NLOC THEN wt' = wt + 1 /\ wpc' = "time" /\ wp' = 1 ELSE wp' = wp + 1 /\ UNCHANGED <<wt, wpc>>
          /\ UNCHANGED content /\ UNCHANGED rvars
WClose == /\ wpc = "time" /\ wt > T /\ wpc' = "closed" /\ UNCHANGED <<content, file, owner, wt, wp>> /\ UNCHANGED rvars
Writer == WTime \/ WBlock \/ WClose

(* ------------------------------- reader: one action per readline / _read_header ------------------------------- *)
HdrPc(kw) == CASE kw = "NODATA" -> "hdr_NODATA" [] kw = "ZERO" -> "hdr_ZERO" [] OTHER -> "hdr_FACTOR"
NextLoc(blk) == IF ip = NLOC THEN /\ cur' = Append(cur, blk) /\ rpc' = "ret_ok" /\ UNCHANGED ip
                ELSE /\ cur' = Append(cur, blk) /\ ip' = ip + 1 /\ rpc' = "hdr_NODATA"

REnter == /\ wpc = "closed" /\ rpc = "idle"
          /\ rpc' = (IF TIMED THEN "time" ELSE "hdr_NODATA") /\ ip' = 1 /\ cur' = <<>>
          /\ UNCHANGED <<pos, buf, ri, times, out, garbled>> /\ UNCHANGED wvars
RTime == /\ rpc = "time"
         /\ LET r == ReadLine(file, pos) IN
            /\ pos' = r.pos
            /\ IF r.i = 0 THEN rpc' = "ret_none" /\ UNCHANGED times
               ELSE IF file[r.i] = "time" THEN rpc' = "hdr_NODATA" /\ times' = Append(times, r.i)
               ELSE rpc' = "error" /\ UNCHANGED times                 \* strptime raises ValueError
         /\ UNCHANGED <<buf, ip, ri, cur, out, garbled>> /\ UNCHANGED wvars
RHdr(kw) == /\ rpc = HdrPc(kw)
            /\ LET h == Hdr(file, pos, buf, kw) IN
               /\ pos' = h.pos /\ buf' = h.buf
               /\ IF h.ok THEN IF kw = "FACTOR" THEN rpc' = "fac" /\ cur' = Append(cur, [kind |-> "pending", at |-> IF h.rl > 0 THEN h.rl ELSE buf]) /\ UNCHANGED ip
                               ELSE NextLoc([kind |-> KindOfKw(kw), at |-> IF h.rl > 0 THEN h.rl ELSE buf])
                  ELSE /\ rpc' = (IF NextTry(kw) = "none" THEN "ret_none" ELSE HdrPc(NextTry(kw))) /\ UNCHANGED <<ip, cur>>
            /\ UNCHANGED <<ri, times, out, garbled>> /\ UNCHANGED wvars
RFac == /\ rpc = "fac"
        /\ LET r == ReadLine(file, pos) IN
           /\ pos' = r.pos
           /\ IF KindAt(file, r.i) = "num" THEN rpc' = "rows" /\ ri' = 1 ELSE rpc' = "error" /\ UNCHANGED ri     \* float() raises
        /\ UNCHANGED <<buf, ip, times, cur, out, garbled>> /\ UNCHANGED wvars
RRow == /\ rpc = "rows"
        /\ LET r == ReadLine(file, pos)
               blk == [kind |-> "F", at |-> cur[Len(cur)].at]
               done == SubSeq(cur, 1, Len(cur) - 1) IN
           /\ pos' = r.pos
           /\ garbled' = (garbled \/ KindAt(file, r.i) # "num")          \* the code swallows the exception and warns
           /\ IF ri = NF
              THEN IF ip = NLOC THEN cur' = Append(done, blk) /\ rpc' = "ret_ok" /\ UNCHANGED <<ip, ri>>
                   ELSE cur' = Append(done, blk) /\ ip' = ip + 1 /\ rpc' = "hdr_NODATA" /\ UNCHANGED ri
              ELSE ri' = ri + 1 /\ UNCHANGED <<rpc, ip, cur>>
        /\ UNCHANGED <<buf, times, out>> /\ UNCHANGED wvars
RExitOk == /\ rpc = "ret_ok" /\ out' = Append(out, cur) /\ rpc' = "idle" /\ UNCHANGED <<pos, buf, ip, ri, times, cur, garbled>> /\ UNCHANGED wvars
RExitNone == /\ rpc = "ret_none" /\ rpc' = "stopped" /\ UNCHANGED <<pos, buf, ip, ri, times, cur, out, garbled>> /\ UNCHANGED wvars
Reader == REnter \/ RTime \/ RHdr("NODATA") \/ RHdr("ZERO") \/ RHdr("FACTOR") \/ RFac \/ RRow \/ RExitOk \/ RExitNone

Done == rpc \in {"stopped", "error"} /\ UNCHANGED vars
Next == \/ WTime \/ WBlock \/ WClose
        \/ REnter \/ RTime \/ RHdr("NODATA") \/ RHdr("ZERO") \/ RHdr("FACTOR") \/ RFac \/ RRow \/ RExitOk \/ RExitNone
        \/ Done
Spec == Init /\ [][Next]_vars
FairSpec == Spec /\ WF_vars(Writer \/ Reader)

(* ------------------------------- properties ------------------------------- *)
TypeOK == /\ wpc \in {"time", "blocks", "closed"} /\ pos \in 1..(Len(file) + 1) /\ buf \in 0..Len(file)
          /\ rpc \in {"idle", "time", "hdr_NODATA", "hdr_ZERO", "hdr_FACTOR", "fac", "rows", "ret_ok", "ret_none", "stopped", "error"}
          /\ ip \in 1..NLOC /\ ri \in 0..NF
\* the writer's file is the content, block by block (the reader starts only on a closed file)
RECURSIVE Flat(_, _, _)
Flat(c, t, p) == IF t > Len(c) THEN <<>>
                 ELSE (IF p = 1 /\ TIMED THEN <<"time">> ELSE <<>>) \o BlockLines(c[t][p]) \o (IF p = NLOC THEN Flat(c, t + 1, 1) ELSE Flat(c, t, p + 1))
WriterWellFormed == wpc = "closed" => file = Flat(content, 1, 1)
\* the discipline the reader's correctness rests on: a direct read happens only while the lookahead is empty
LookaheadEmptyAtDirectRead == rpc \in {"time", "fac", "rows"} => buf = 0
\* the lookahead, when held, is the line just before the position: no line is skipped or read twice
LookaheadIsPrevious == buf # 0 => buf = pos - 1
NeverError == rpc # "error"
NeverGarbled == ~garbled
\* what read-all returns is what was written: same number of records, each block of the right kind AND taken from the lines the
\* writer wrote for that (time, location); every time stamp line is the one of its record; nothing is left unread
ParseCorrect == rpc = "stopped" =>
                  /\ Len(out) = T
                  /\ \A t \in 1..T : /\ Len(out[t]) = NLOC
                                     /\ \A p \in 1..NLOC : /\ out[t][p].kind = content[t][p]
                                                           /\ owner[out[t][p].at] = <<t, p>>
                  /\ TIMED => /\ Len(times) = T /\ \A t \in 1..T : owner[times[t]] = <<t, 0>>
                  /\ pos = Len(file) + 1 /\ buf = 0
PosMonotone == [][pos' >= pos]_vars
Terminates == <>(rpc = "stopped")

EmitInv == (EMIT /\ rpc = "stopped") =>
             PrintT(ToJson([timed |-> TIMED, nloc |-> NLOC, nf |-> NF, content |-> content, file |-> file,
                            out |-> [t \in 1..Len(out) |-> [p \in 1..Len(out[t]) |-> out[t][p].kind]], nrec |-> Len(out)]))
=============================================================================
