---------------------------- MODULE SwanFileTrace ----------------------------
(* Recorded runs of the real SWAN ASCII reader against the reader of SwanFile.tla (same step semantics:        *)
(* SwanReaderOps).  The harness wraps SwanSpecFile.__init__ / read / _read_header and the file object (in the    *)
(* harness, not in the repository) and writes, per file read, one line per event:                               *)
(*   file  {tid, timed, nloc, nf, lines}   the body of the file lexed into line kinds (after the header)         *)
(*   enter {tid}                           read() entered                                                        *)
(*   rl    {tid, i}                        read() took a line directly from the file object (i = 0: end of file)  *)
(*   hdr   {tid, kw, ok, i}                _read_header(kw): found or not; i = line it had to fetch (-1 none, 0 eof) *)
(*   exit  {tid, n}                        read() returned a list of n blocks (-1: None)                          *)
(*   end   {tid}                           readall() finished                                                    *)
(* Each event must be the step the model takes in its current state on the logged file: same line index, same    *)
(* keyword outcome, same return.  At `end` the model must have stopped with every line consumed.  Verdicts are   *)
(* total: register 1 collects accepted tids, register 2 <<tid, clause, line>> of the first failing event.        *)
EXTENDS Integers, Sequences, FiniteSets, TLC, Json, IOUtils, SequencesExt, FiniteSetsExt, SwanReaderOps

TraceLog == ndJsonDeserialize(IOEnv.TRACE_FILE)
NL == Len(TraceLog)
VARIABLES l, tid, file, timed, nloc, nf, pos, buf, rpc, ip, ri, nblk, nrec
tvars == <<l, tid, file, timed, nloc, nf, pos, buf, rpc, ip, ri, nblk, nrec>>

Ev(i) == IF i <= NL THEN TraceLog[i].ev ELSE "eof"
NextFile(i) == LET c == {j \in (i+1)..NL : TraceLog[j].ev = "file"} IN IF c = {} THEN NL + 1 ELSE CHOOSE j \in c : \A k \in c : j <= k
HdrPc(kw) == CASE kw = "NODATA" -> "hdr_NODATA" [] kw = "ZERO" -> "hdr_ZERO" [] OTHER -> "hdr_FACTOR"

TInit == /\ l = 1 /\ tid = -1 /\ file = <<>> /\ timed = FALSE /\ nloc = 1 /\ nf = 1 /\ pos = 1 /\ buf = 0 /\ rpc = "nofile" /\ ip = 1 /\ ri = 0
         /\ nblk = 0 /\ nrec = 0 /\ TLCSet(1, {}) /\ TLCSet(2, {})
Same == UNCHANGED <<tid, file, timed, nloc, nf>>
Reject(clause) == /\ TLCSet(2, TLCGet(2) \cup {<<tid, clause, l>>})
                  /\ l' = (IF Ev(l) = "file" THEN l ELSE NextFile(l)) /\ rpc' = "nofile"
                  /\ UNCHANGED <<tid, file, timed, nloc, nf, pos, buf, ip, ri, nblk, nrec>>
AfterBlock == IF ip = nloc THEN rpc' = "ret_ok" /\ UNCHANGED ip ELSE rpc' = "hdr_NODATA" /\ ip' = ip + 1

Step ==
  \/ /\ rpc = "nofile" /\ Ev(l) = "file"
     /\ tid' = TraceLog[l].tid /\ file' = TraceLog[l].lines /\ timed' = (TraceLog[l].timed = 1) /\ nloc' = TraceLog[l].nloc /\ nf' = TraceLog[l].nf
     /\ pos' = 1 /\ buf' = 0 /\ rpc' = "idle" /\ ip' = 1 /\ ri' = 0 /\ nblk' = 0 /\ nrec' = 0 /\ l' = l + 1
  \/ /\ rpc = "nofile" /\ l <= NL /\ Ev(l) # "file" /\ Reject("stray-event")
  \/ /\ rpc = "idle" /\ Ev(l) = "enter"
     /\ rpc' = (IF timed THEN "time" ELSE "hdr_NODATA") /\ ip' = 1 /\ nblk' = 0 /\ l' = l + 1 /\ Same /\ UNCHANGED <<pos, buf, ri, nrec>>
  \/ /\ rpc = "idle" /\ Ev(l) = "end"       \* readall may stop only after a read() that returned nothing
     /\ Reject("end-before-stop")
  \/ /\ rpc = "time"
     /\ IF Ev(l) # "rl" THEN Reject("order:expected-time-read")
        ELSE IF buf # 0 THEN Reject("lookahead-held-at-direct-read")
        ELSE LET r == ReadLine(file, pos) IN
             IF TraceLog[l].i # r.i THEN Reject("readline-index")
             ELSE IF r.i # 0 /\ file[r.i] # "time" THEN Reject("time-line-is-not-a-time-stamp")
             ELSE /\ pos' = r.pos /\ rpc' = (IF r.i = 0 THEN "ret_none" ELSE "hdr_NODATA") /\ l' = l + 1 /\ Same /\ UNCHANGED <<buf, ip, ri, nblk, nrec>>
  \/ /\ rpc \in {"hdr_NODATA", "hdr_ZERO", "hdr_FACTOR"}
     /\ IF Ev(l) # "hdr" THEN Reject("order:expected-keyword-test")
        ELSE LET kw == TraceLog[l].kw  h == Hdr(file, pos, buf, kw) IN
             IF HdrPc(kw) # rpc THEN Reject("keyword-order")
             ELSE IF TraceLog[l].i # h.rl THEN Reject("readline-index")
             ELSE IF (TraceLog[l].ok = 1) # h.ok THEN Reject("keyword-match")
             ELSE /\ pos' = h.pos /\ buf' = h.buf /\ l' = l + 1 /\ Same /\ UNCHANGED <<ri, nrec>>
                  /\ IF h.ok THEN IF kw = "FACTOR" THEN rpc' = "fac" /\ UNCHANGED <<ip, nblk>>
                                  ELSE nblk' = nblk + 1 /\ AfterBlock
                     ELSE /\ rpc' = (IF NextTry(kw) = "none" THEN "ret_none" ELSE HdrPc(NextTry(kw))) /\ UNCHANGED <<ip, nblk>>
  \/ /\ rpc = "fac"
     /\ IF Ev(l) # "rl" THEN Reject("order:expected-factor-read")
        ELSE IF buf # 0 THEN Reject("lookahead-held-at-direct-read")
        ELSE LET r == ReadLine(file, pos) IN
             IF TraceLog[l].i # r.i THEN Reject("readline-index")
             ELSE IF KindAt(file, r.i) # "num" THEN Reject("factor-line-is-not-a-number")
             ELSE /\ pos' = r.pos /\ rpc' = "rows" /\ ri' = 1 /\ l' = l + 1 /\ Same /\ UNCHANGED <<buf, ip, nblk, nrec>>
  \/ /\ rpc = "rows"
     /\ IF Ev(l) # "rl" THEN Reject("order:expected-row-read")
        ELSE IF buf # 0 THEN Reject("lookahead-held-at-direct-read")
        ELSE LET r == ReadLine(file, pos) IN
             IF TraceLog[l].i # r.i THEN Reject("readline-index")
             ELSE IF KindAt(file, r.i) # "num" THEN Reject("row-line-is-not-numbers")
             ELSE /\ pos' = r.pos /\ l' = l + 1 /\ Same /\ UNCHANGED <<buf, nrec>>
                  /\ IF ri = nf THEN nblk' = nblk + 1 /\ AfterBlock /\ UNCHANGED ri
                     ELSE ri' = ri + 1 /\ UNCHANGED <<rpc, ip, nblk>>
  \/ /\ rpc = "ret_ok"
     /\ IF Ev(l) = "exit" /\ TraceLog[l].n = nloc /\ nblk = nloc
        THEN rpc' = "idle" /\ nrec' = nrec + 1 /\ l' = l + 1 /\ Same /\ UNCHANGED <<pos, buf, ip, ri, nblk>>
        ELSE Reject("exit:record-expected")
  \/ /\ rpc = "ret_none"
     /\ IF Ev(l) = "exit" /\ TraceLog[l].n = -1
        THEN rpc' = "stopped" /\ l' = l + 1 /\ Same /\ UNCHANGED <<pos, buf, ip, ri, nblk, nrec>>
        ELSE Reject("exit:none-expected")
  \/ /\ rpc = "stopped"
     /\ IF Ev(l) # "end" THEN Reject("read-after-stop")
        ELSE IF pos # Len(file) + 1 \/ buf # 0 THEN Reject("unconsumed-lines")
        ELSE IF TraceLog[l].nrec # nrec THEN Reject("record-count")
        ELSE /\ TLCSet(1, TLCGet(1) \cup {tid}) /\ rpc' = "nofile" /\ l' = l + 1 /\ Same /\ UNCHANGED <<pos, buf, ip, ri, nblk, nrec>>

TSpec == TInit /\ [][Step]_tvars
\* the invariants of SwanFile.tla, evaluated in every state of every recorded run
RecLookaheadIsPrevious == (rpc # "nofile" /\ buf # 0) => buf = pos - 1
RecPosInFile == rpc # "nofile" => pos \in 1..(Len(file) + 1)
Verdict == /\ PrintT(ToJson([verdict |-> "SwanFileTrace", accepted |-> Cardinality(TLCGet(1)),
                              rejected |-> SetToSeq({[tid |-> r[1], clause |-> r[2], line |-> r[3]] : r \in TLCGet(2)})]))
           /\ TLCGet(2) = {}
=============================================================================
