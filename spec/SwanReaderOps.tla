---------------------------- MODULE SwanReaderOps ----------------------------
(* The step semantics of SwanSpecFile.read / _read_header (wavespectra/core/swan.py:111-165), free of         *)
(* constants and variables so that the design model (SwanFile.tla) and the trace specification               *)
(* (SwanFileTrace.tla) share ONE definition of what the reader does with a line.                              *)
(* A file body is a sequence of abstract lines; only the kind matters to the control flow:                    *)
(*   "time"    a time stamp (yyyymmdd.HHMMSS ...)         "NODATA" / "ZERO" / "FACTOR"   the block keywords     *)
(*   "num"     a line of numbers (the factor, or one row of the table)         "eof"  what readline gives at   *)
(*   the end of the file (the empty string, which is FALSY: `if not self.buf` reads again).                     *)
(* The reader keeps ONE line of lookahead in self.buf: _read_header(kw) fills it if it is empty, and empties   *)
(* it only when the keyword is found in it.  Everything else (time stamp, factor, rows) is read directly from  *)
(* the file object, bypassing the lookahead - correct only while the lookahead is empty at that moment.        *)
EXTENDS Integers, Sequences

KindAt(file, i) == IF i >= 1 /\ i <= Len(file) THEN file[i] ELSE "eof"

\* fid.readline(): the index of the line returned (0 at end of file) and the new position
ReadLine(file, pos) == [i |-> IF pos <= Len(file) THEN pos ELSE 0, pos |-> IF pos <= Len(file) THEN pos + 1 ELSE pos]

\* _read_header(kw): buf = 0 stands for an empty (falsy) lookahead.  Returns what was read (rl = -1: nothing read,
\* 0: read hit the end of file, k: line k), whether the keyword was found, the new lookahead and position.
Hdr(file, pos, buf, kw) ==
  LET need == buf = 0
      r    == ReadLine(file, pos)
      held == IF need THEN r.i ELSE buf
      ok   == held # 0 /\ KindAt(file, held) = kw
  IN [rl |-> IF need THEN r.i ELSE -1, ok |-> ok, buf |-> IF ok THEN 0 ELSE held, pos |-> IF need THEN r.pos ELSE pos]

\* the order in which read() tries the block keywords for one location
NextTry(kw) == CASE kw = "NODATA" -> "ZERO" [] kw = "ZERO" -> "FACTOR" [] OTHER -> "none"
KindOfKw(kw) == CASE kw = "NODATA" -> "N" [] kw = "ZERO" -> "Z" [] OTHER -> "F"
=============================================================================
