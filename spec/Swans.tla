-------------------------------- MODULE Swans --------------------------------
(* Beyond the single-file readers: read_swans (wavespectra/input/swan.py:178-480), the reader that merges many     *)
(* SWAN ASCII files - different sites and different forecast cycles - into one dataset.  It is a loop over the     *)
(* files in FILE-NAME order that accumulates, per cycle (= first time stamp of a file),                            *)
(*    dsets[cycle]      the arrays of the files of that cycle        (a SortedDict: iterated in CYCLE order)       *)
(*    all_sites[cycle]  their site names / positions, in the order met                                            *)
(*    all_times         the time stamps of the FIRST file met of every cycle                                       *)
(* then checks that every cycle lists the same sites, concatenates the sites of a cycle and the cycles, and labels *)
(* the rows with the flattened all_times.  MECH says how all_times is kept:                                        *)
(*    "list"     a plain list appended in file-name order            (the code before the repair)                 *)
(*    "bycycle"  keyed by cycle like everything else                 (the code as repaired)                       *)
(* A scenario is any sequence (= file-name order) of distinct files, a file being a (cycle, site-file) pair that   *)
(* holds NT records for the locations of its site-file.  TLC enumerates every scenario within the bounds, runs the  *)
(* loop one action per file, and checks that every row of the result carries the time stamps (and cycle) of the     *)
(* records whose spectra it holds, that every record of every file is returned exactly once, and that inconsistent  *)
(* site lists are rejected.                                                                                         *)
EXTENDS Integers, Sequences, FiniteSets, TLC, Json, SequencesExt, FiniteSetsExt

CONSTANTS NCYC,     \* cycles 1..NCYC (cycle c starts at time 10*c; its k-th record is stamped 10*c + k)
          NSF,      \* site-files 1..NSF (site-file s holds the single location s)
          NT,       \* records per file
          MAXFILES, \* at most this many files in a scenario
          MECH, EMIT

FileIds == (1..NCYC) \X (1..NSF)
Stamp(c, k) == 10 * c + k
TimesOf(f) == [k \in 1..NT |-> Stamp(f[1], k)]

VARIABLES files,                 \* the scenario: sequence of distinct FileIds, in file-name order
          i,                     \* loop index
          dsets, allSites,       \* cycle -> sequence of file positions / of locations
          allTimesList, allTimesMap, lastCycle,
          phase, outcome, rows   \* "loop" -> "done"; "ok" | "OSError"; the result
vars == <<files, i, dsets, allSites, allTimesList, allTimesMap, lastCycle, phase, outcome, rows>>

Injective(s) == \A a, b \in 1..Len(s) : a # b => s[a] # s[b]
Init == /\ files \in UNION {{s \in [1..n -> FileIds] : Injective(s)} : n \in 1..MAXFILES}
        /\ i = 1 /\ dsets = <<>> /\ allSites = <<>> /\ allTimesList = <<>> /\ allTimesMap = <<>> /\ lastCycle = 0
        /\ phase = "loop" /\ outcome = "none" /\ rows = <<>>

Has(m, c) == c \in DOMAIN m
Put(m, c, v) == [x \in DOMAIN m \cup {c} |-> IF x = c THEN v ELSE m[x]]

\* one pass of `for filename in swans:`
ProcessFile == /\ phase = "loop" /\ i <= Len(files)
               /\ LET f == files[i]  c == f[1] IN
                  /\ lastCycle' = c
                  /\ IF ~Has(dsets, c)
                     THEN /\ dsets' = Put(dsets, c, <<i>>) /\ allSites' = Put(allSites, c, <<f[2]>>)
                          /\ allTimesList' = Append(allTimesList, TimesOf(f)) /\ allTimesMap' = Put(allTimesMap, c, TimesOf(f))
                     ELSE /\ dsets' = Put(dsets, c, Append(dsets[c], i)) /\ allSites' = Put(allSites, c, Append(allSites[c], f[2]))
                          /\ UNCHANGED <<allTimesList, allTimesMap>>
               /\ i' = i + 1 /\ UNCHANGED <<files, phase, outcome, rows>>

CyclesSorted == SetToSortSeq(DOMAIN dsets, <)
RECURSIVE Flatten(_)
Flatten(ss) == IF ss = <<>> THEN <<>> ELSE Head(ss) \o Flatten(Tail(ss))
\* after the loop: site consistency (against the LAST file's cycle), concatenation, labelling
Finish == /\ phase = "loop" /\ i > Len(files)
          /\ phase' = "done"
          /\ IF \E c \in DOMAIN allSites : allSites[c] # allSites[lastCycle]
             THEN outcome' = "OSError" /\ rows' = <<>>
             ELSE LET cs == CyclesSorted
                      \* data rows in cycle order; each row lists, per site column, the record it holds: <<cycle, k, site-file>>
                      data == Flatten([x \in 1..Len(cs) |-> [k \in 1..NT |-> [p \in 1..Len(dsets[cs[x]]) |-> <<cs[x], k, files[dsets[cs[x]][p]][2]>>]]])
                      cyclab == Flatten([x \in 1..Len(cs) |-> [k \in 1..NT |-> cs[x]]])
                      timelab == IF MECH = "list" THEN Flatten(allTimesList) ELSE Flatten([x \in 1..Len(cs) |-> allTimesMap[cs[x]]])
                  IN /\ outcome' = "ok"
                     /\ rows' = [r \in 1..Len(data) |-> [cycle |-> cyclab[r], time |-> timelab[r], recs |-> data[r]]]
          /\ UNCHANGED <<files, i, dsets, allSites, allTimesList, allTimesMap, lastCycle>>
Done == phase = "done" /\ UNCHANGED vars
Next == ProcessFile \/ Finish \/ Done
Spec == Init /\ [][Next]_vars
FairSpec == Spec /\ WF_vars(ProcessFile \/ Finish)

(* ------------------------------- properties ------------------------------- *)
\* every row carries the cycle and the time stamp of each record whose spectrum it holds
RowsLabelled == (phase = "done" /\ outcome = "ok") =>
                  \A r \in 1..Len(rows) : \A p \in 1..Len(rows[r].recs) :
                     /\ rows[r].cycle = rows[r].recs[p][1]
                     /\ rows[r].time = Stamp(rows[r].recs[p][1], rows[r].recs[p][2])
\* every record of every file is returned exactly once
AllRecordsOnce == (phase = "done" /\ outcome = "ok") =>
                    LET got == [r \in 1..Len(rows) |-> rows[r].recs]
                        all == Flatten(got) IN
                    /\ Len(all) = Len(files) * NT
                    /\ {all[x] : x \in 1..Len(all)} = {<<files[a][1], k, files[a][2]>> : a \in 1..Len(files), k \in 1..NT}
\* the site lists of the cycles are compared: a scenario whose cycles do not list the same site-files in the same order is rejected
RejectsInconsistentSites == phase = "done" =>
                              (outcome = "OSError" <=> \E c, d \in DOMAIN allSites : allSites[c] # allSites[d])
\* within a cycle the rows are in the order of the file (the single-cycle result is additionally sorted by time by the code)
Terminates == <>(phase = "done")

EmitInv == (EMIT /\ phase = "done") =>
             PrintT(ToJson([files |-> files, outcome |-> outcome, nt |-> NT,
                            rows |-> [r \in 1..Len(rows) |-> [cycle |-> rows[r].cycle, time |-> rows[r].time, recs |-> rows[r].recs]]]))
=============================================================================
