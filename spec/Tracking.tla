-------------------------------- MODULE Tracking --------------------------------
(* Partition tracking over time (wavespectra/partition/tracking.py), one action per time step,        *)
(* shaped like the code: Match = match_consecutive_partitions (greedy assignment in partition order   *)
(* over the still-available previous partitions that are within the thresholds of the PREVIOUS        *)
(* partition's type, closest first), Propagate = the id bookkeeping of np_track_partitions.           *)
(*                                                                                                    *)
(* Units: peak frequency in 0.001 Hz (lattice values are multiples of 10), direction in whole degrees.*)
(* Thresholds are OFF the lattice (never a multiple of 10 / never equal to a lattice difference), so   *)
(* every strict comparison of the code is decided exactly.  The sea threshold varies per step (it is   *)
(* a function of wind speed and of the previous wind-sea peak frequency); it enters only through the  *)
(* strict comparison dfp > DfSeaMin, so the step input is the integer DfSeaMin (in 0.001 Hz, negative).*)
(* The distance normalisation max(dfp_max, |dfp_min|) equals DfSwell because |DfSeaMin| < DfSwell is   *)
(* assumed (ASSUME below; the harness only generates such histories).                                  *)
(* Exact ties of the distance are left nondeterministic (floating point decides them in the code).     *)
EXTENDS Integers, Sequences, FiniteSets, TLC, Json

CONSTANTS NP,        \* number of partitions per step (index 0 = wind sea)
          Alphabet,  \* set of <<fp, dpm>> observations
          Gaps,      \* set of possible DfSeaMin values (negative integers, not multiples of 10)
          DdSea, DdSwell,   \* direction thresholds (degrees, compared strictly)
          DfSwell,   \* swell frequency threshold, 0.001 Hz, not a multiple of 10
          T,         \* number of steps explored after the first
          EMIT       \* carry the history and print one vector per complete behaviour

\* MISSINGGAP: the sea threshold of the step is not a number (the wind speed of the previous step is missing, NaN, or zero:
\* dfp_wsea gives NaN).  No frequency change is "within" such a threshold, so the previous wind-sea slot continues nothing.
MISSINGGAP == 1
ASSUME \A g \in Gaps : g = MISSINGGAP \/ (g < 0 /\ -g < DfSwell)

NaN == <<-1, -1>>
P == 0..(NP-1)
EMPTY == -999
NEWID == -888
IsNaN(o) == o = NaN
Abs(x) == IF x < 0 THEN -x ELSE x

\* |((a - b + 180) mod 360) - 180|  as in the code
DDir(a, b) == Abs((((a - b) + 180) % 360) - 180)
DdMax(p) == IF p = 0 THEN DdSea ELSE DdSwell
DfMin(p, gap) == IF p = 0 THEN gap ELSE -DfSwell

Within(cur, prev, c, p, gap) ==
  /\ ~IsNaN(cur[c]) /\ ~IsNaN(prev[p])
  /\ DDir(cur[c][2], prev[p][2]) < DdMax(p)
  /\ cur[c][1] - prev[p][1] < DfSwell
  /\ cur[c][1] - prev[p][1] > DfMin(p, gap)
  /\ (p = 0 => gap # MISSINGGAP)

\* distance |dfp|/DfSwell + ddpm/DdMax(p) as <<num, den>>
Dist(cur, prev, c, p) ==
  <<(Abs(cur[c][1] - prev[p][1]) * DdMax(p)) + (DDir(cur[c][2], prev[p][2]) * DfSwell), DfSwell * DdMax(p)>>
RLeq(a, b) == a[1] * b[2] <= b[1] * a[2]

\* all results of the greedy matching (set-valued because of exact distance ties)
RECURSIVE Greedy(_, _, _, _, _, _)
Greedy(cur, prev, gap, c, avail, acc) ==
  IF c = NP THEN {acc}
  ELSE IF IsNaN(cur[c]) THEN Greedy(cur, prev, gap, c+1, avail, acc @@ (c :> EMPTY))
  ELSE LET cand == {p \in avail : Within(cur, prev, c, p, gap)} IN
       IF cand = {} THEN Greedy(cur, prev, gap, c+1, avail, acc @@ (c :> NEWID))
       ELSE LET best == {p \in cand : \A q \in cand : RLeq(Dist(cur, prev, c, p), Dist(cur, prev, c, q))}
            IN UNION {Greedy(cur, prev, gap, c+1, avail \ {b}, acc @@ (c :> b)) : b \in best}

Matches(cur, prev, gap) == Greedy(cur, prev, gap, 0, {p \in P : ~IsNaN(prev[p])}, <<>>)

\* id propagation of np_track_partitions for one step, rows in order
RECURSIVE Prop(_, _, _, _, _)
Prop(m, prevIds, c, nid, acc) ==
  IF c = NP THEN [ids |-> acc, next |-> nid]
  ELSE IF m[c] = NEWID THEN Prop(m, prevIds, c+1, nid+1, acc @@ (c :> nid))
  ELSE IF m[c] = EMPTY THEN Prop(m, prevIds, c+1, nid, acc @@ (c :> EMPTY))
  ELSE Prop(m, prevIds, c+1, nid, acc @@ (c :> prevIds[m[c]]))

\* first step: non-empty partitions numbered in order
RECURSIVE First(_, _, _, _)
First(cur, c, nid, acc) ==
  IF c = NP THEN [ids |-> acc, next |-> nid]
  ELSE IF IsNaN(cur[c]) THEN First(cur, c+1, nid, acc @@ (c :> EMPTY))
  ELSE First(cur, c+1, nid+1, acc @@ (c :> nid))

Obs == Alphabet \cup {NaN}

VARIABLES t,        \* index of the current step (0 = first)
          cur,      \* observations of the current step
          prev,     \* observations of the previous step (all NaN at t = 0)
          ids,      \* identifiers of the current step
          prevIds,  \* identifiers of the previous step
          gap,      \* DfSeaMin used for the step that produced `ids`
          nextId,   \* number of identifiers issued so far (the reported count)
          retired,  \* identifiers that were not continued at some step
          hist      \* when EMIT: sequence of [obs, gap, ids] per step
vars == <<t, cur, prev, ids, prevIds, gap, nextId, retired, hist>>

AllNaN == [p \in P |-> NaN]
Rec(o, g, i, m, tie) == [obs |-> [k \in 1..NP |-> o[k-1]], gap |-> g, ids |-> [k \in 1..NP |-> i[k-1]],
                         m |-> [k \in 1..NP |-> m[k-1]], tie |-> tie]

Init == /\ t = 0 /\ cur \in [P -> Obs] /\ prev = AllNaN /\ gap = 0
        /\ LET f == First(cur, 0, 0, <<>>) IN ids = f.ids /\ nextId = f.next
        /\ prevIds = [p \in P |-> EMPTY] /\ retired = {}
        /\ hist = IF EMIT THEN <<Rec(cur, 0, First(cur, 0, 0, <<>>).ids, [p \in P |-> EMPTY], FALSE)>> ELSE <<>>

Used(i) == {i[p] : p \in P} \ {EMPTY}

Step == /\ t < T
        /\ \E o \in [P -> Obs], g \in Gaps :
             \E m \in Matches(o, cur, g) :
               LET r == Prop(m, ids, 0, nextId, <<>>) IN
               /\ cur' = o /\ prev' = cur /\ gap' = g
               /\ ids' = r.ids /\ prevIds' = ids /\ nextId' = r.next
               /\ retired' = retired \cup (Used(ids) \ Used(r.ids))
               /\ hist' = IF EMIT THEN Append(hist, Rec(o, g, r.ids, m, Cardinality(Matches(o, cur, g)) > 1)) ELSE hist
        /\ t' = t + 1
Next == Step
Spec == Init /\ [][Next]_vars

(* ---------------- the property, clause by clause ---------------- *)
EmptyIffMissing == \A p \in P : (ids[p] = EMPTY) <=> IsNaN(cur[p])
UniqueWithinStep == \A p, q \in P : (p # q /\ ids[p] # EMPTY) => ids[p] # ids[q]
\* identifiers are exactly 0..N-1: every id in use is below the counter and nothing was skipped
IdsBelowCount == \A p \in P : ids[p] # EMPTY => (ids[p] >= 0 /\ ids[p] < nextId)
\* issued in order of first appearance: the new ids of a step are nextId(before).. in partition order
NewIdsInOrder ==
  LET newp == {p \in P : ids[p] # EMPTY /\ ids[p] \notin Used(prevIds)} IN
  \A p, q \in newp : p < q => ids[p] < ids[q]
NewIdsAreFresh ==
  \A p \in P : (ids[p] # EMPTY /\ ids[p] \notin Used(prevIds)) => (t = 0 \/ ids[p] \notin retired)
\* carried only within thresholds, from the partition that held it
CarriedOnlyWithinThresholds ==
  \A p \in P : (t > 0 /\ ids[p] # EMPTY /\ ids[p] \in Used(prevIds)) =>
     \E q \in P : prevIds[q] = ids[p] /\ Within(cur, prev, p, q, gap)
RetiredNeverReturns == Used(ids) \cap retired = {}
CountMatches == nextId = Cardinality(retired \cup Used(ids))      \* N = number of distinct ids ever issued

EmitInv == (EMIT /\ t = T) => PrintT(ToJson([hist |-> hist, n |-> nextId, np |-> NP]))
=============================================================================
