----------------------------- MODULE TrackingTrace -----------------------------
(* Validates recorded runs of np_track_partitions / track_partitions against Tracking.tla.            *)
(* One ndjson line per time step: {tid, t, obs: [[fp, dpm], ...] (lattice units, [-1,-1] = missing),   *)
(* gap (DfSeaMin of this step, 0 at t = 0), ids: [...], last: 0/1, n: reported count (on the last line)}.*)
(* A step is accepted iff some result of Match (ties are nondeterministic) followed by the id          *)
(* propagation yields exactly the recorded identifiers; the clause invariants of Tracking.tla are       *)
(* evaluated on every accepted step.  Verdicts are total (registers 1 = accepted tids, 2 = rejected).   *)
EXTENDS Tracking, IOUtils, SequencesExt

TraceLog == ndJsonDeserialize(IOEnv.TRACE_FILE)
NL == Len(TraceLog)
VARIABLE l
tvars == <<vars, l>>

ObsAt(i) == [p \in P |-> <<TraceLog[i].obs[p+1][1], TraceLog[i].obs[p+1][2]>>]
IdsAt(i) == [p \in P |-> TraceLog[i].ids[p+1]]
NextStart(i) == IF \E j \in (i+1)..NL : TraceLog[j].t = 0
                THEN CHOOSE j \in (i+1)..NL : TraceLog[j].t = 0 /\ \A k \in (i+1)..(j-1) : TraceLog[k].t # 0
                ELSE NL + 1

TInit == /\ l = 1 /\ t = -1 /\ cur = AllNaN /\ prev = AllNaN /\ gap = 0 /\ ids = [p \in P |-> EMPTY]
         /\ prevIds = [p \in P |-> EMPTY] /\ nextId = 0 /\ retired = {} /\ hist = <<>>
         /\ TLCSet(1, {}) /\ TLCSet(2, {})

Reject(clause) == /\ TLCSet(2, TLCGet(2) \cup {<<TraceLog[l].tid, clause, l>>})
                  /\ l' = NextStart(l) /\ t' = -1
                  /\ UNCHANGED <<cur, prev, ids, prevIds, gap, nextId, retired, hist>>
Finish(i) == IF TraceLog[i].last = 1 THEN TLCSet(1, TLCGet(1) \cup {TraceLog[i].tid}) ELSE TRUE

ClausesHold(c, pv, i, pi, g, nid, ret, tt) ==
  /\ \A p \in P : (i[p] = EMPTY) <=> IsNaN(c[p])
  /\ \A p, q \in P : (p # q /\ i[p] # EMPTY) => i[p] # i[q]
  /\ \A p \in P : i[p] # EMPTY => (i[p] >= 0 /\ i[p] < nid)
  /\ Used(i) \cap ret = {}
  /\ \A p \in P : (tt > 0 /\ i[p] # EMPTY /\ i[p] \in Used(pi)) => \E q \in P : pi[q] = i[p] /\ Within(c, pv, p, q, g)

TFirst == /\ l <= NL /\ TraceLog[l].t = 0
          /\ LET o == ObsAt(l) f == First(o, 0, 0, <<>>) IN
             IF f.ids = IdsAt(l) /\ (TraceLog[l].last = 0 \/ TraceLog[l].n = f.next)
             THEN /\ cur' = o /\ prev' = AllNaN /\ ids' = f.ids /\ prevIds' = [p \in P |-> EMPTY] /\ gap' = 0
                  /\ nextId' = f.next /\ retired' = {} /\ t' = 0 /\ l' = l + 1 /\ UNCHANGED hist /\ Finish(l)
             ELSE Reject("first-step")

TStep == /\ l <= NL /\ t >= 0 /\ TraceLog[l].t = t + 1
         /\ LET o == ObsAt(l) g == TraceLog[l].gap
                ok == {m \in Matches(o, cur, g) : Prop(m, ids, 0, nextId, <<>>).ids = IdsAt(l)} IN
            IF ok = {} THEN Reject("match-or-propagation")
            ELSE LET m == CHOOSE m \in ok : TRUE
                     r == Prop(m, ids, 0, nextId, <<>>)
                     ret == retired \cup (Used(ids) \ Used(r.ids)) IN
                 IF ~ClausesHold(o, cur, r.ids, ids, g, r.next, ret, t + 1) THEN Reject("clause")
                 ELSE IF TraceLog[l].last = 1 /\ TraceLog[l].n # r.next THEN Reject("reported-count")
                 ELSE /\ cur' = o /\ prev' = cur /\ ids' = r.ids /\ prevIds' = ids /\ gap' = g
                      /\ nextId' = r.next /\ retired' = ret /\ t' = t + 1 /\ l' = l + 1 /\ UNCHANGED hist
                      /\ Finish(l)

TStray == /\ l <= NL /\ ~(TraceLog[l].t = 0) /\ ~(t >= 0 /\ TraceLog[l].t = t + 1) /\ Reject("step-order")

TNext == TFirst \/ TStep \/ TStray
TSpec == TInit /\ [][TNext]_tvars
Verdict == /\ PrintT(ToJson([verdict |-> "TrackingTrace", accepted |-> Cardinality(TLCGet(1)),
                             rejected |-> SetToSeq({[tid |-> r[1], clause |-> r[2], line |-> r[3]] : r \in TLCGet(2)})]))
           /\ TLCGet(2) = {}
=============================================================================
