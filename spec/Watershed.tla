-------------------------------- MODULE Watershed --------------------------------
(***************************************************************************)
(* Step-granular transcription of wavespectra/partition/specpart/specpart.c *)
(* (Vincent-Soille watershed on a frequency x direction grid whose          *)
(* direction axis is circular).                                             *)
(*                                                                          *)
(* Same data structures as the C code: flat pixel address n = i + NK*j      *)
(* (i = frequency index, j = direction index), neighbour table in the       *)
(* order ptnghb() builds it, level map imi, counting sort ind, label map    *)
(* imo, distance map imd, circular FIFO iq with start/end indices and the   *)
(* fictitious pixel.  One TLC step per loop iteration of pt_fld():          *)
(*   A1a   : one pixel of phase 1.a (mask, enqueue if labelled neighbour)   *)
(*   A1b   : one queue pop of phase 1.b (geodesic propagation)              *)
(*   A1c   : one pixel of phase 1.c (new basin?)                            *)
(*   AFlood: one queue pop of the flood fill inside 1.c                     *)
(*   ANext : next level                                                     *)
(*   ASweep: one of the <= 5 sweeps of step 2 (watershed pixels -> basin)   *)
(* Only the loop over the <= 8 neighbours of a pixel is a recursive         *)
(* operator (same iteration order as the C loop; order decides ties).       *)
(*                                                                          *)
(* Every array access goes through a ghost bounds flag (st.ok): it becomes  *)
(* FALSE if the C code would index iq/imo/imd/ind outside 0..NSPEC-1 or the *)
(* FIFO would logically overflow (C20).  The declarative post-condition of  *)
(* C04 (PostOK) is defined independently of the algorithm.                  *)
(*                                                                          *)
(* The module is parameterised by operators E0 (the input, function on      *)
(* 0..NSPEC-1 in C order ifreq*NTH+iang), so that the exhaustive MC module, *)
(* the two-run equivariance module and the trace module can all reuse it.   *)
(***************************************************************************)
EXTENDS Integers, Sequences, FiniteSets, TLC, SequencesExt, Folds, FiniteSetsExt

CONSTANTS NK, NTH, IHMAX

NSPEC == NK * NTH
Px == 0..(NSPEC-1)
MASK == -2
INITV == -1
WSHED == 0
FICT == -100

Abs(x) == IF x < 0 THEN -x ELSE x

(* ---- neighbour table exactly as ptnghb() (order matters) ---- *)
Neigh(n) ==
  LET j == n \div NK
      i == n % NK
      s1 == IF i # 0 THEN <<n-1>> ELSE <<>>
      s2 == IF i # NK-1 THEN <<n+1>> ELSE <<>>
      s3 == IF j # 0 THEN <<n-NK>> ELSE <<>>
      s4 == IF j = 0 THEN <<NSPEC-(NK-i)>> ELSE <<>>
      s5 == IF j # NTH-1 THEN <<n+NK>> ELSE <<>>
      s6 == IF j = NTH-1 THEN <<n-(NTH-1)*NK>> ELSE <<>>
      s7 == IF i # 0 /\ j # 0 THEN <<n-NK-1>> ELSE <<>>
      s8 == IF i # 0 /\ j = 0 THEN <<n-1+NK*(NTH-1)>> ELSE <<>>
      s9 == IF i # NK-1 /\ j # 0 THEN <<n-NK+1>> ELSE <<>>
      s10 == IF i # NK-1 /\ j = 0 THEN <<n+1+NK*(NTH-1)>> ELSE <<>>
      s11 == IF i # 0 /\ j # NTH-1 THEN <<n+NK-1>> ELSE <<>>
      s12 == IF i # 0 /\ j = NTH-1 THEN <<n-1-NK*(NTH-1)>> ELSE <<>>
      s13 == IF i # NK-1 /\ j # NTH-1 THEN <<n+NK+1>> ELSE <<>>
      s14 == IF i # NK-1 /\ j = NTH-1 THEN <<n+1-NK*(NTH-1)>> ELSE <<>>
  IN s1 \o s2 \o s3 \o s4 \o s5 \o s6 \o s7 \o s8 \o s9 \o s10 \o s11 \o s12 \o s13 \o s14

NB == [n \in Px |-> Neigh(n)]

(* every neighbour address is inside the buffers, and at most 8 fit the 9-slot rows *)
NeighOK == \A n \in Px : Len(NB[n]) <= 8 /\ \A k \in 1..Len(NB[n]) : NB[n][k] \in Px

\* checksum of the meaningful part of the neighbour table, as hook H1 computes it in C (pinit event)
NeighHash ==
  LET step(h, n) == FoldSeq(LAMBDA v, a : ((a * 31) + v + 1) % 65521, ((h * 31) + Len(NB[n])) % 65521, NB[n])
  IN FoldSeq(LAMBDA n, h : step(h, n), 7, [k \in 1..NSPEC |-> k - 1])

(* ---- input handling of partition() ---- *)
\* zp address n = ifreq + NK*iang ; e is in C order (ifreq*NTH + iang)
ZIn(e) == [n \in Px |-> e[((n % NK) * NTH) + (n \div NK)]]
MinF(z) == FoldSet(LAMBDA a, b : IF a < b THEN a ELSE b, z[0], {z[n] : n \in Px})
MaxF(z) == FoldSet(LAMBDA a, b : IF a > b THEN a ELSE b, z[0], {z[n] : n \in Px})
IsConst(e) == MaxF(ZIn(e)) = MinF(ZIn(e))
ZP(e) == LET z == ZIn(e) zmax == MaxF(z) IN [n \in Px |-> zmax - z[n]]
\* imi = clamp(round(zp*fact)), fact = (ihmax-1)/(zmax-zmin); C round() is half away from zero and the
\* operand is >= 0, i.e. floor(x + 1/2).  Exact ties x = k+1/2 are excluded by the harness unless the
\* quotient is exactly representable.
Levels(e) ==
  LET z == ZIn(e) zmin == MinF(z) zmax == MaxF(z) rng == zmax - zmin
  IN [n \in Px |-> LET a == (zmax - z[n]) * (IHMAX - 1)
                       r == (2*a + rng) \div (2*rng)
                   IN IF r < 0 THEN 0 ELSE IF r > IHMAX-1 THEN IHMAX-1 ELSE r]
\* ptsort(): counting sort, stable in the address
SortedAddr(imi) == SetToSortSeq(Px, LAMBDA a, b : imi[a] < imi[b] \/ (imi[a] = imi[b] /\ a < b))

(* ---- FIFO (fifo_add / fifo_first / fifo_empty) with ghost bounds checks ---- *)
FAdd(s, v) == [s EXCEPT !.iq = [s.iq EXCEPT ![s.qe] = v],
                        !.qe = IF s.qe > NSPEC-2 THEN 0 ELSE s.qe + 1,
                        !.cnt = s.cnt + 1,
                        !.ok = s.ok /\ s.qe \in Px /\ s.cnt + 1 <= NSPEC]
FFirstVal(s) == s.iq[s.qs]
FPop(s) == [s EXCEPT !.qs = IF s.qs + 1 > NSPEC-1 THEN 0 ELSE s.qs + 1, !.cnt = s.cnt - 1,
                     !.ok = s.ok /\ s.qs \in Px /\ s.cnt >= 1]
FEmpty(s) == s.qs = s.qe

Labelled(v) == v > 0 \/ v = WSHED

S0 == [imo |-> [n \in Px |-> INITV], imd |-> [n \in Px |-> 0],
       iq |-> [n \in Px |-> 0], qs |-> 0, qe |-> 0, cnt |-> 0, ok |-> TRUE, lab |-> 0, m |-> 0]

(* ---- neighbour loops (<= 8 iterations, recursion is safe) ---- *)
RECURSIVE HasLab(_, _, _)
HasLab(s, nbs, k) == IF k > Len(nbs) THEN FALSE
                     ELSE IF Labelled(s.imo[nbs[k]]) THEN TRUE ELSE HasLab(s, nbs, k+1)

RECURSIVE NbLoop1b(_, _, _, _, _)
NbLoop1b(s, ip, nbs, k, dist) ==
  IF k > Len(nbs) THEN s
  ELSE LET ipp == nbs[k] IN
       IF s.imd[ipp] < dist /\ Labelled(s.imo[ipp])
       THEN LET v == IF s.imo[ipp] > 0
                     THEN IF s.imo[ip] = MASK \/ s.imo[ip] = WSHED THEN s.imo[ipp]
                          ELSE IF s.imo[ip] # s.imo[ipp] THEN WSHED ELSE s.imo[ip]
                     ELSE IF s.imo[ip] = MASK THEN WSHED ELSE s.imo[ip]
            IN NbLoop1b([s EXCEPT !.imo = [s.imo EXCEPT ![ip] = v]], ip, nbs, k+1, dist)
       ELSE IF s.imo[ipp] = MASK /\ s.imd[ipp] = 0
       THEN NbLoop1b(FAdd([s EXCEPT !.imd = [s.imd EXCEPT ![ipp] = dist + 1]], ipp), ip, nbs, k+1, dist)
       ELSE NbLoop1b(s, ip, nbs, k+1, dist)

RECURSIVE NbLoop1c(_, _, _)
NbLoop1c(s, nbs, k) ==
  IF k > Len(nbs) THEN s
  ELSE LET q == nbs[k] IN
       IF s.imo[q] = MASK
       THEN NbLoop1c([FAdd(s, q) EXCEPT !.imo = [s.imo EXCEPT ![q] = s.lab]], nbs, k+1)
       ELSE NbLoop1c(s, nbs, k+1)

RECURSIVE Closest(_, _, _, _, _, _, _)
Closest(imo, zp, jl, nbs, k, ep1, ipt) ==
  IF k > Len(nbs) THEN ipt
  ELSE LET d == Abs(zp[jl] - zp[nbs[k]]) IN
       IF d <= ep1 /\ imo[nbs[k]] # 0 THEN Closest(imo, zp, jl, nbs, k+1, d, k)
       ELSE Closest(imo, zp, jl, nbs, k+1, ep1, ipt)

SweepOnce(imo, zp, zpmax) ==
  [jl \in Px |-> IF imo[jl] = 0
                 THEN LET ipt == Closest(imo, zp, jl, NB[jl], 1, zpmax, 0)
                      IN IF ipt > 0 THEN imo[NB[jl][ipt]] ELSE imo[jl]
                 ELSE imo[jl]]

(* ------------------------------------------------------------------------ *)
(* Step relation over a state record                                         *)
(*   w = [st, ih, pc, dist, msave, sweep]  with run constants imi, ind, zp   *)
(* Expressed as an operator returning the successor so that several runs     *)
(* (two-run equivariance, batched traces) can share it.                      *)
(* ------------------------------------------------------------------------ *)
W0 == [st |-> S0, ih |-> 0, pc |-> "1a", dist |-> 1, msave |-> 0, sweep |-> 0]

IndAt(ind, m) == ind[m + 1]     \* C index m -> 1-based sequence

Step1a(w, imi, ind) ==
  LET st == w.st
      ip == IndAt(ind, st.m)
      okm == st.m \in Px
  IN IF imi[ip] # w.ih
     THEN [w EXCEPT !.st = FAdd([st EXCEPT !.ok = st.ok /\ okm], FICT), !.pc = "1b", !.dist = 1]
     ELSE LET s1 == [st EXCEPT !.imo = [st.imo EXCEPT ![ip] = MASK], !.ok = st.ok /\ okm]
              s2 == IF HasLab(s1, NB[ip], 1)
                    THEN FAdd([s1 EXCEPT !.imd = [s1.imd EXCEPT ![ip] = 1]], ip) ELSE s1
          IN IF s2.m > NSPEC-2
             THEN [w EXCEPT !.st = FAdd(s2, FICT), !.pc = "1b", !.dist = 1]
             ELSE [w EXCEPT !.st = [s2 EXCEPT !.m = s2.m + 1]]

Step1b(w) ==
  LET st == w.st
      ip0 == FFirstVal(st)
      s0 == FPop(st)
  IN IF ip0 = FICT
     THEN IF FEmpty(s0)
          THEN [w EXCEPT !.st = [s0 EXCEPT !.m = w.msave], !.pc = "1c"]
          ELSE LET s1 == FAdd(s0, FICT)
                   ip1 == FFirstVal(s1)
                   s2 == FPop(s1)
               IN IF ip1 \in Px
                  THEN [w EXCEPT !.st = NbLoop1b(s2, ip1, NB[ip1], 1, w.dist + 1), !.dist = w.dist + 1]
                  ELSE [w EXCEPT !.st = [s2 EXCEPT !.ok = FALSE], !.pc = "1c"]   \* C would index with -100
     ELSE [w EXCEPT !.st = NbLoop1b(s0, ip0, NB[ip0], 1, w.dist)]

Advance(w, s) == IF s.m > NSPEC-2 THEN [w EXCEPT !.st = s, !.pc = "next"]
                 ELSE [w EXCEPT !.st = [s EXCEPT !.m = s.m + 1], !.pc = "1c"]

Step1c(w, imi, ind) ==
  LET st == w.st
      ip == IndAt(ind, st.m)
  IN IF imi[ip] # w.ih THEN [w EXCEPT !.pc = "next"]
     ELSE LET s1 == [st EXCEPT !.imd = [st.imd EXCEPT ![ip] = 0]] IN
          IF s1.imo[ip] = MASK
          THEN LET a == [s1 EXCEPT !.lab = s1.lab + 1]
                   b == FAdd(a, ip)
               IN [w EXCEPT !.st = [b EXCEPT !.imo = [b.imo EXCEPT ![ip] = a.lab]], !.pc = "flood"]
          ELSE Advance(w, s1)

StepFlood(w) ==
  LET st == w.st IN
  IF FEmpty(st) THEN Advance(w, st)
  ELSE LET ipp == FFirstVal(st) IN [w EXCEPT !.st = NbLoop1c(FPop(st), NB[ipp], 1)]

StepNext(w) ==
  [w EXCEPT !.ih = w.ih + 1, !.msave = w.st.m,
            !.pc = IF w.ih + 1 >= IHMAX THEN "sweep" ELSE "1a"]

AllPos(imo) == \A n \in Px : imo[n] > 0

StepSweep(w, zp, zpmax) ==
  IF w.sweep >= 5 \/ (w.sweep > 0 /\ AllPos(w.st.imo))
  THEN [w EXCEPT !.pc = "done"]
  ELSE [w EXCEPT !.st = [w.st EXCEPT !.imo = SweepOnce(w.st.imo, zp, zpmax)], !.sweep = w.sweep + 1]

StepW(w, imi, ind, zp, zpmax) ==
  CASE w.pc = "1a" -> Step1a(w, imi, ind)
    [] w.pc = "1b" -> Step1b(w)
    [] w.pc = "1c" -> Step1c(w, imi, ind)
    [] w.pc = "flood" -> StepFlood(w)
    [] w.pc = "next" -> StepNext(w)
    [] w.pc = "sweep" -> StepSweep(w, zp, zpmax)
    [] OTHER -> w

(* ------------------------------------------------------------------------ *)
(* Declarative definitions, independent of the algorithm (C04)               *)
(* ------------------------------------------------------------------------ *)
NbSet(n) == {NB[n][k] : k \in 1..Len(NB[n])} \ {n}
\* what 8-adjacency with circular direction axis means, independent of ptnghb():
Adj8(a, b) ==
  LET ia == a % NK ja == a \div NK ib == b % NK jb == b \div NK
      dj == (ja - jb + NTH) % NTH
  IN a # b /\ Abs(ia - ib) <= 1 /\ (dj = 0 \/ dj = 1 \/ dj = NTH - 1)
NeighIsAdj8 == \A a \in Px : NbSet(a) = {b \in Px : Adj8(a, b)}

RECURSIVE Grow(_, _)
Grow(C, S) == LET N == {y \in S \ C : \E x \in C : y \in NbSet(x)} IN IF N = {} THEN C ELSE Grow(C \cup N, S)
Comp(x, S) == Grow({x}, S)
Connected(S) == S = {} \/ LET x == CHOOSE x \in S : TRUE IN Comp(x, S) = S
Plateau(x, lv) == Comp(x, {y \in Px : lv[y] = lv[x]})
\* level 0 = highest energy: a regional maximum is a plateau with no neighbour at a smaller level number
IsRegMaxPlateau(P, lv) == \A x \in P : \A y \in NbSet(x) : lv[y] >= lv[x]
RegMaxPlateaus(lv) == {P \in {Plateau(x, lv) : x \in Px} : IsRegMaxPlateau(P, lv)}
Classes(imo) == {{n \in Px : imo[n] = l} : l \in {imo[n] : n \in Px}}

AllLabelledOK(imo) == \A n \in Px : imo[n] > 0
\* reference formulation, straight from the property text (costly: one plateau per pixel)
PostOKRef(imo, lv, npart) ==
  LET cls == Classes(imo) rm == RegMaxPlateaus(lv)
  IN /\ AllLabelledOK(imo)
     /\ Cardinality(cls) = Cardinality(rm)
     /\ \A C \in cls : Connected(C) /\ Cardinality({P \in rm : P \subseteq C}) = 1
     /\ npart = Cardinality(cls)

\* equivalent formulation used on large grids: NonMax = pixels whose plateau touches a strictly higher pixel
\* (fixpoint of "has a higher neighbour, or an equal-level neighbour already in NonMax"); the regional maxima are
\* the connected components of the remaining pixels.  MC_Watershed checks PostOK = PostOKRef exhaustively.
RECURSIVE NonMaxClose(_, _)
NonMaxClose(NM, lv) ==
  LET N == {x \in Px \ NM : \E y \in NbSet(x) : y \in NM /\ lv[y] = lv[x]}
  IN IF N = {} THEN NM ELSE NonMaxClose(NM \cup N, lv)
MaxPix(lv) == Px \ NonMaxClose({x \in Px : \E y \in NbSet(x) : lv[y] < lv[x]}, lv)
PostOK(imo, lv, npart) ==
  LET cls == Classes(imo) mp == MaxPix(lv)
  IN /\ AllLabelledOK(imo)
     /\ \A C \in cls : Connected(C) /\ (C \cap mp) # {} /\ Connected(C \cap mp)
     /\ \A x \in mp : \A y \in NbSet(x) \cap mp : imo[x] = imo[y]
     /\ npart = Cardinality(cls)

\* output as the Python wrapper returns it: matrix [ifreq][iang] flattened in C order
OutC(imo) == [k \in 0..(NSPEC-1) |-> imo[(k \div NTH) + NK * (k % NTH)]]
\* circular shift of the input along direction by one bin (C order input)
ShiftIn(e) == [k \in 0..(NSPEC-1) |-> e[((k \div NTH) * NTH) + (((k % NTH) + 1) % NTH)]]
\* classes of a label map expressed in (ifreq, iang) pairs, with direction index shifted by s
ClassesShift(imo, s) ==
  {{<<n % NK, ((n \div NK) + s) % NTH>> : n \in C} : C \in Classes(imo)}
=============================================================================
