----------------------------- MODULE WatershedTrace -----------------------------
(* Trace validation of the real C routine (hook H1) against Watershed.tla.                 *)
(* One TLC run validates a batch of recorded executions that share (NK, NTH, IHMAX).       *)
(* Trace lines (ndjson, integers only):                                                    *)
(*   input {tid, e, mode, lv, cst}   mode 0: e = the integer spectrum handed to partition(), C order;       *)
(*                             mode 1 (floating-point spectra: repository tests, sample files): the level map  *)
(*                             lv recorded by the routine is the input, cst says whether the spectrum was      *)
(*                             constant; flooding (steps 1a-1c) is then validated exactly, each step-2 sweep    *)
(*                             against the relation SweepRel (a watershed pixel takes the label of SOME labelled *)
(*                             neighbour), the result against the declarative C04 post-condition                *)
(*   pinit {a=mk,b=mth,c=nspec,d=hash}  static work area after partinit()                   *)
(*   const                     partition() took the constant-spectrum early return          *)
(*   imi {arr} / ind {arr}     level map after discretisation / counting-sort result        *)
(*   level {a=ih,b=label,c=iq_start,d=iq_end,arr=imo}   end of level ih                    *)
(*   sweep {a=j, arr=imo}      end of sweep j of step 2                                    *)
(*   out {p, np}               what the caller received (C order) and npart                *)
(* Each event must be the one the spec produces at that point; steps without an event      *)
(* (pixel visits, queue pops) are silent spec steps bounded by the algorithm itself.       *)
(* Verdicts are total: accepted tids in register 1, <<tid, clause, line>> in register 2.   *)
EXTENDS Watershed, Json, IOUtils

CONSTANT CHECKPOST   \* evaluate the declarative C04 post-condition on the recorded output

TraceLog == ndJsonDeserialize(IOEnv.TRACE_FILE)
NL == Len(TraceLog)

VARIABLES l, stage, e, w, rc, tid,
          prevcls   \* classes of the previous accepted run shifted by one bin (for paired shift-equivariance checks)
vars == <<l, stage, e, w, rc, tid, prevcls>>

RunConst(ee) == IF IsConst(ee) THEN [imi |-> <<>>, ind |-> <<>>, zp |-> <<>>, rng |-> 0, mode |-> 0, cst |-> TRUE]
                ELSE [imi |-> Levels(ee), ind |-> SortedAddr(Levels(ee)), zp |-> ZP(ee),
                      rng |-> MaxF(ZIn(ee)) - MinF(ZIn(ee)), mode |-> 0, cst |-> FALSE]
RunLevels(lv, cst) == IF cst THEN [imi |-> <<>>, ind |-> <<>>, zp |-> <<>>, rng |-> 0, mode |-> 1, cst |-> TRUE]
                      ELSE LET m == [n \in Px |-> lv[n+1]] IN
                           [imi |-> m, ind |-> SortedAddr(m), zp |-> <<>>, rng |-> 0, mode |-> 1, cst |-> FALSE]
\* step 2 without the spectrum values: labelled pixels keep their label, a watershed pixel with a labelled (or
\* watershed-free) neighbourhood takes the label of one of its non-zero neighbours, otherwise it stays
SweepRel(old, new) == \A jl \in Px :
   IF old[jl] # 0 THEN new[jl] = old[jl]
   ELSE LET c == {old[NB[jl][k]] : k \in 1..Len(NB[jl])} \ {0} IN IF c = {} THEN new[jl] = 0 ELSE new[jl] \in c
Arr(i) == [n \in Px |-> TraceLog[i].arr[n+1]]
Ev(i) == IF i <= NL THEN TraceLog[i].ev ELSE "eof"
NextInput(i) == Min({j \in (i+1)..NL : TraceLog[j].ev = "input"} \cup {NL + 1})

Init == /\ l = 1 /\ stage = "idle" /\ e = <<>> /\ w = W0 /\ rc = <<>> /\ tid = -1 /\ prevcls = {}
        /\ TLCSet(1, {}) /\ TLCSet(2, {})

Reject(clause) == /\ TLCSet(2, TLCGet(2) \cup {<<tid, clause, l>>})
                  /\ l' = (IF Ev(l) = "input" THEN l ELSE NextInput(l)) /\ stage' = "idle"
                  /\ UNCHANGED <<e, w, rc, tid, prevcls>>
Accept == TLCSet(1, TLCGet(1) \cup {tid})

TInput == /\ stage = "idle" /\ Ev(l) = "input"
          /\ IF TraceLog[l].mode = 1
             THEN e' = <<>> /\ rc' = RunLevels(TraceLog[l].lv, TraceLog[l].cst = 1)
             ELSE LET ee == [n \in Px |-> TraceLog[l].e[n+1]] IN e' = ee /\ rc' = RunConst(ee)
          /\ w' = W0
          /\ stage' = "pinit"
          /\ tid' = TraceLog[l].tid /\ l' = l + 1 /\ UNCHANGED prevcls

\* the static work area must have been (re)built for exactly this shape, whatever ran before in the process
TPinit == /\ stage = "pinit"
          /\ IF Ev(l) = "pinit" /\ TraceLog[l].a = NK /\ TraceLog[l].b = NTH /\ TraceLog[l].c = NSPEC
                /\ TraceLog[l].d = NeighHash
             THEN /\ stage' = (IF rc.cst THEN "const" ELSE "imi") /\ l' = l + 1 /\ UNCHANGED <<e, w, rc, tid, prevcls>>
             ELSE Reject("static-work-area")

TConst == /\ stage = "const"
          /\ IF Ev(l) = "const" THEN /\ stage' = "out" /\ l' = l + 1 /\ w' = [w EXCEPT !.pc = "const"]
                                     /\ UNCHANGED <<e, rc, tid, prevcls>>
             ELSE Reject("const-expected")

TImi == /\ stage = "imi"
        /\ IF Ev(l) = "imi" /\ Arr(l) = rc.imi THEN /\ stage' = "ind" /\ l' = l + 1 /\ UNCHANGED <<e, w, rc, tid, prevcls>>
           ELSE Reject("imi")

TInd == /\ stage = "ind"
        /\ IF Ev(l) = "ind" /\ [k \in 1..NSPEC |-> TraceLog[l].arr[k]] = rc.ind
           THEN /\ stage' = "run" /\ l' = l + 1 /\ UNCHANGED <<e, w, rc, tid, prevcls>>
           ELSE Reject("ind")

WillSweep == ~(w.sweep >= 5 \/ (w.sweep > 0 /\ AllPos(w.st.imo)))

TSilent == /\ stage = "run"
           /\ w.pc \in {"1a", "1b", "1c", "flood"} \/ (w.pc = "sweep" /\ ~WillSweep)
           /\ w' = StepW(w, rc.imi, rc.ind, rc.zp, rc.rng)
           /\ UNCHANGED <<l, stage, e, rc, tid, prevcls>>

TLevel == /\ stage = "run" /\ w.pc = "next"
          /\ IF ~w.st.ok THEN Reject("bounds")
             \* the queue is empty at the end of a level (start = end, inside the ring); WHICH slot the ring has reached is an
             \* implementation detail no property depends on (a routine restarting the ring at every level is as good)
             ELSE IF /\ Ev(l) = "level" /\ TraceLog[l].a = w.ih /\ TraceLog[l].b = w.st.lab
                     /\ TraceLog[l].c = TraceLog[l].d /\ TraceLog[l].c \in 0..(NSPEC-1) /\ w.st.qs = w.st.qe /\ Arr(l) = w.st.imo
             THEN /\ w' = StepNext(w) /\ l' = l + 1 /\ UNCHANGED <<stage, e, rc, tid, prevcls>>
             ELSE Reject("level")

TSweep == /\ stage = "run" /\ w.pc = "sweep" /\ WillSweep /\ rc.mode = 0
          /\ LET w2 == StepW(w, rc.imi, rc.ind, rc.zp, rc.rng) IN
             IF Ev(l) = "sweep" /\ TraceLog[l].a = w.sweep /\ Arr(l) = w2.st.imo
             THEN /\ w' = w2 /\ l' = l + 1 /\ UNCHANGED <<stage, e, rc, tid, prevcls>>
             ELSE Reject("sweep")

TSweepRel == /\ stage = "run" /\ w.pc = "sweep" /\ WillSweep /\ rc.mode = 1
             /\ IF Ev(l) = "sweep" /\ TraceLog[l].a = w.sweep /\ SweepRel(w.st.imo, Arr(l))
                THEN /\ w' = [w EXCEPT !.st = [w.st EXCEPT !.imo = Arr(l)], !.sweep = w.sweep + 1]
                     /\ l' = l + 1 /\ UNCHANGED <<stage, e, rc, tid, prevcls>>
                ELSE Reject("sweep-relation")

TDone == /\ stage = "run" /\ w.pc = "done" /\ stage' = "out" /\ UNCHANGED <<l, e, w, rc, tid, prevcls>>

\* out.pair: 0 = first run of a (E, E shifted by one direction bin) pair, 1 = second run, 2 = unpaired
AllOne == {{<<n % NK, n \div NK>> : n \in Px}}
CurCls == IF w.pc = "const" THEN AllOne ELSE ClassesShift(w.st.imo, 0)
TOut == /\ stage = "out"
        /\ IF Ev(l) # "out" THEN Reject("out-expected")
           ELSE IF w.pc = "const" /\ ~([n \in Px |-> TraceLog[l].p[n+1]] = [n \in Px |-> 1] /\ TraceLog[l].np = 1)
           THEN Reject("const-output")
           ELSE IF w.pc # "const" /\ ([n \in Px |-> TraceLog[l].p[n+1]] # OutC(w.st.imo) \/ TraceLog[l].np # w.st.lab)
           THEN Reject("output")
           ELSE IF CHECKPOST /\ w.pc # "const" /\ ~PostOK(w.st.imo, rc.imi, w.st.lab)
           THEN Reject("C04-postcondition")
           ELSE IF TraceLog[l].pair = 1 /\ CurCls # prevcls
           THEN Reject("C04-shift-equivariance")
           ELSE /\ Accept /\ l' = l + 1 /\ stage' = "idle" /\ UNCHANGED <<e, w, rc, tid>>
                /\ prevcls' = IF TraceLog[l].pair = 0
                              THEN (IF w.pc = "const" THEN AllOne ELSE ClassesShift(w.st.imo, NTH - 1))
                              ELSE {}

\* an event where none is expected (e.g. the code ran more sweeps or levels than the spec)
TStray == /\ stage = "idle" /\ l <= NL /\ Ev(l) # "input" /\ Reject("stray-event")

Next == TInput \/ TPinit \/ TConst \/ TImi \/ TInd \/ TSilent \/ TLevel \/ TSweep \/ TSweepRel \/ TDone \/ TOut \/ TStray
Spec == Init /\ [][Next]_vars

Verdict == /\ PrintT(ToJson([verdict |-> "WatershedTrace", accepted |-> Cardinality(TLCGet(1)),
                              rejected |-> SetToSeq({[tid |-> r[1], clause |-> r[2], line |-> r[3]] : r \in TLCGet(2)})]))
           /\ TLCGet(2) = {}
=============================================================================
