-------------------------------- MODULE ChunkLoop --------------------------------
(* C11: chunked writing.  to_swan and to_octopus write the N time steps of a dataset in slices of K = min(ntime or N, N) *)
(* steps:   i0 = 0; i1 = K; while COND: write times[i0:i1]; i0 = i1; i1 += K.                                           *)
(*   COND = "swan":    i1 <= N or i0 < N        (output/swan.py)                                                        *)
(*   COND = "octopus": i1 <= N                  (output/octopus.py)                                                     *)
(* Property: on termination every time step has been written exactly once, in order.                                    *)
EXTENDS Integers, Sequences, TLC
CONSTANTS MAXN, COND
VARIABLES n, k, i0, i1, written, pc
vars == <<n, k, i0, i1, written, pc>>
Init == /\ n \in 1..MAXN /\ \E nt \in 0..(MAXN + 1) : k = (IF nt = 0 \/ nt > n THEN n ELSE nt)     \* ntime None / larger than N / smaller
        /\ i0 = 0 /\ i1 = k /\ written = <<>> /\ pc = "loop"
Cond == IF COND = "swan" THEN i1 <= n \/ i0 < n ELSE i1 <= n
Slice(a, b) == [j \in 1..((IF b < n THEN b ELSE n) - a) |-> a + j - 1]          \* python times[a:b], 0-based indices
Body == /\ pc = "loop" /\ Cond
        /\ written' = written \o (IF i0 < n THEN Slice(i0, i1) ELSE <<>>)
        /\ i0' = i1 /\ i1' = i1 + k /\ UNCHANGED <<n, k, pc>>
Exit == /\ pc = "loop" /\ ~Cond /\ pc' = "done" /\ UNCHANGED <<n, k, i0, i1, written>>
Next == Body \/ Exit
Spec == Init /\ [][Next]_vars /\ WF_vars(Next)
AllWrittenOnceInOrder == pc = "done" => written = [j \in 1..n |-> j - 1]
Terminates == <>(pc = "done")
=============================================================================
