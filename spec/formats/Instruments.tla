------------------------------- MODULE Instruments -------------------------------
(* C13: instrument / model file readers.  Three things are specified here:                                           *)
(*  (1) FIELD SEMANTICS as a quantity algebra (rational x power of pi x power of rho*g): for every format the factor   *)
(*      that takes the number printed in the file to variance density in m2/Hz(/deg), and the direction mapping;        *)
(*  (2) RECONSTRUCTION: where a reader builds a 2-D spectrum from a frequency spectrum and directional moments, the     *)
(*      spreading integrates to one over the reader's uniform full-circle direction grid, hence integrating the result  *)
(*      over direction gives back the file's frequency spectrum (exact, with exact cosines on 60 / 90 degree lattices); *)
(*  (3) RECORD ORDER: files hold records in any time order (NDBC realtime: newest first; several files concatenated);    *)
(*      Read returns every record exactly once, sorted by time.                                                         *)
(* It also enumerates the CASES (format x header variant x number of records x record order x grid sizes) that the       *)
(* harness realises with the independent reference encoders (harness/instruments.py) and reads with the real readers.    *)
EXTENDS Integers, Sequences, FiniteSets, TLC, Json, SequencesExt

FORMATS == {"triaxys", "ndbc_ascii", "spotter", "datawell", "obscape", "ww3_station", "swan", "xwaves"}   \* the formats C13 names (octopus: see C11)

(* ---- (1) factors: <<num, den, pik, rgk>> = num/den * pi^pik * (rho g)^rgk ---- *)
Factor(fmt, variant) ==
  CASE fmt = "triaxys" -> <<1, 1, 0, 0>>                       \* m2/Hz(/deg) as printed
    [] fmt = "obscape" -> <<1, 180, 1, 0>>                     \* per radian -> per degree
    [] fmt = "ww3_station" -> <<1, 180, 1, 0>>                 \* m2 s / rad
    [] fmt = "xwaves" -> <<1, 180, 1, 0>>                      \* spec2d / (180/pi)
    [] fmt = "swan" -> IF variant = "EnDens" THEN <<1, 1, 0, -1>> ELSE <<1, 1, 0, 0>>      \* J/m2/Hz/deg -> / (rho g)
    [] fmt = "ndbc_ascii" -> <<1, 1, 0, 0>>                    \* m2/Hz; 2-D: x spreading (deg^-1), see (2)
    [] fmt = "spotter" -> <<1, 1, 0, 0>>
    [] OTHER -> <<1, 1, 0, 0>>                                 \* datawell: column 2 is S/Smax: x Smax, see the encoder
\* direction written in the file (whole degrees on the lattice) -> coming-from nautical degrees
DirMap(fmt, variant, d) ==
  CASE fmt = "swan" /\ variant = "CDIR" -> (270 - d) % 360         \* cartesian going-to? -> nautical (to_nautical)
    [] fmt = "ww3_station" -> (((((d - 450) % 360) + 360) % 360) + 270) % 360 \* abs((theta - 2.5 pi) mod 2 pi) in degrees + 270, see reader
    [] OTHER -> d % 360

(* ---- (2) reconstruction: exact cosines on the 30-degree lattice that are rational ---- *)
Cos2(a) == LET b == ((a % 360) + 360) % 360 IN      \* 2*cos(a) for a multiple of 60 or 90 degrees
           CASE b = 0 -> 2 [] b = 60 -> 1 [] b = 90 -> 0 [] b = 120 -> -1 [] b = 180 -> -2 [] b = 240 -> -1 [] b = 270 -> 0 [] b = 300 -> 1
SumTo(m, f(_)) == LET s[k \in 0..m] == IF k = 0 THEN 0 ELSE f(k) + s[k-1] IN s[m]
\* NDBC: D(theta) = 1/2 + r1 cos(theta - a1) + r2 cos 2(theta - a2), efth = ef * D * (pi/180) / pi ;  sum_theta efth * dd = ef * sum D * dd / 180
\* with r1 = R1/10, r2 = R2/10 :  20 * sum_theta D(theta) = sum (10 + R1 * 2cos(.) + R2 * 2cos(2.))   and   dd = 360/n
NdbcSum20(n, a1, a2, R1, R2) == SumTo(n, LAMBDA k : 10 + R1 * Cos2((k - 1) * (360 \div n) - a1) + R2 * Cos2(2 * ((k - 1) * (360 \div n) - a2)))
\* integrates to the frequency spectrum  <=>  sum D * dd / 180 = 1  <=>  NdbcSum20 * (360/n) = 20 * 180
NdbcIntegratesToOne(n, a1, a2, R1, R2) == NdbcSum20(n, a1, a2, R1, R2) * (360 \div n) = 3600

(* ---- (3) record order ---- *)
SortedAsc(s) == \A i \in 1..(Len(s) - 1) : s[i] <= s[i+1]
ReadTimes(file) == SortSeq(file, LAMBDA a, b : a < b)

CONSTANTS MAXREC
VARIABLES fmt, variant, nrec, order, nf, nd, n1d, nloc
vars == <<fmt, variant, nrec, order, nf, nd, n1d, nloc>>
Variants(f) == CASE f = "triaxys" -> {"directional", "nondirectional"}
                 [] f = "ndbc_ascii" -> {"realtime", "realtime_2d", "history", "history_nominutes"}
                 [] f = "spotter" -> {"csv", "json"}
                 [] f = "swan" -> {"LONLAT", "LOCATIONS", "RFREQ", "CDIR", "EnDens", "VaDens", "notime", "blocks"}
                 [] f = "xwaves" -> {"int32", "double"}          \* how the date vectors are stored in the MAT file
                 [] OTHER -> {"default"}
Perms(m) == {p \in [1..m -> 1..m] : \A a, b \in 1..m : a # b => p[a] # p[b]}
Init == /\ fmt \in FORMATS /\ variant \in Variants(fmt)
        /\ nrec \in 1..MAXREC /\ order \in Perms(nrec)
        /\ nf \in {2, 3, 5} /\ nd \in {4, 6, 12} /\ n1d \in BOOLEAN
        /\ nloc \in (IF fmt = "ww3_station" THEN {1, 2} ELSE {1})      \* output points per time step
Next == UNCHANGED vars
Spec == Init /\ [][Next]_vars
\* records carry times 1..nrec written in the order `order`; the reader must return them sorted, each exactly once
FileTimes == [k \in 1..nrec |-> order[k]]
ReadSortsByTime == ReadTimes(FileTimes) = [k \in 1..nrec |-> k]
ReconstructionIntegrates == \A n \in {3, 4, 6} : \A a1 \in {0, 60, 90, 180} : \A a2 \in {0, 90, 120} : \A R1 \in {0, 5, 9} : \A R2 \in {0, 3} :
                               (n = 4 => ((a1 % 90) = 0 /\ (a2 % 90) = 0)) /\ (n \in {3, 6} => ((a1 % 60) = 0 /\ (a2 % 60) = 0)) => NdbcIntegratesToOne(n, a1, a2, R1, R2)
\* with only two directions the second harmonic does not cancel: the reconstruction needs at least three (kept as a documented boundary)
TwoDirectionsDoNotIntegrate == ~NdbcIntegratesToOne(2, 0, 0, 0, 3)
Lattice == {30 * k : k \in 0..11}
DirMapsAreBijections == \A f \in FORMATS : \A v \in Variants(f) : {DirMap(f, v, d) : d \in Lattice} = Lattice
\* ww3_outp writes going-to directions: the reader's mapping is the opposite direction; CDIR is SWAN's cartesian convention
DirMapMeaning == \A d \in Lattice : DirMap("ww3_station", "default", d) = (d + 180) % 360 /\ DirMap("swan", "CDIR", d) = (270 - d + 360) % 360
FactorsWellFormed == \A f \in FORMATS : \A v \in Variants(f) : Factor(f, v)[2] > 0
EmitInv == PrintT(ToJson([fmt |-> fmt, variant |-> variant, nrec |-> nrec, order |-> order, nf |-> nf, nd |-> nd, oned |-> n1d, nloc |-> nloc,
                          factor |-> Factor(fmt, variant)]))
=============================================================================
