--------------------------------- MODULE MC_Swan ---------------------------------
(* Exhaustive design-level check of the SWAN round trip: every assignment of {missing, zero, A, B} to the positions of  *)
(* small station lists and lat x lon grids (unequal sizes, unsorted axes).                                             *)
EXTENDS Swan
CONSTANTS READMODE, LAYOUTS
SpA == <<<<2500, 4999>>, <<7498, 9998>>>>
SpB == <<<<1, 0>>, <<0, 3>>>>
Kinds == {[kind |-> "nan", v |-> <<>>], [kind |-> "zero", v |-> <<>>], [kind |-> "data", v |-> SpA], [kind |-> "data", v |-> SpB]}
Layout(k) == CASE k = 1 -> [grid |-> FALSE, lons |-> <<10, 20, 30>>, lats |-> <<-5, 0, 5>>]
               [] k = 2 -> [grid |-> TRUE, lons |-> <<10, 20, 40>>, lats |-> <<-10, 10>>]          \* 2 x 3
               [] k = 3 -> [grid |-> TRUE, lons |-> <<10, 20>>, lats |-> <<-10, 0, 10>>]           \* 3 x 2
               [] k = 4 -> [grid |-> TRUE, lons |-> <<10, 20>>, lats |-> <<5>>]                    \* 1 x 2
               [] k = 5 -> [grid |-> TRUE, lons |-> <<30>>, lats |-> <<-10, 10>>]                  \* 2 x 1
               [] k = 6 -> [grid |-> TRUE, lons |-> <<40, 10, 20>>, lats |-> <<10, -10>>]          \* unsorted axes
VARIABLES ds
Init == \E k \in LAYOUTS : LET lay == Layout(k) np == IF lay.grid THEN Len(lay.lats) * Len(lay.lons) ELSE Len(lay.lons) IN
          \E e \in [1..np -> Kinds] :
             ds = [T |-> <<0, 30>>, F |-> <<5000, 10000>>, D |-> <<0, 1800000>>, grid |-> lay.grid, lons |-> lay.lons, lats |-> lay.lats,
                   E |-> <<e, [p \in 1..np |-> e[np + 1 - p]]>>]
Next == UNCHANGED ds
Spec == Init /\ [][Next]_ds
RoundTripHolds == RoundTrip(ds, READMODE)
=============================================================================
