---------------------------------- MODULE Swan ----------------------------------
(* C11 / C13: the SWAN ASCII spectral file as a record grammar, the writer automaton (output/swan.py to_swan +     *)
(* core/swan.py SwanSpecFile.write_header, write_spectra) and the reader automaton (SwanSpecFile.read + input/swan.py read_swan).       *)
(*                                                                                                                  *)
(* Abstract dataset: NT times (whole seconds since a base time), positions either a station list or a lat x lon     *)
(* grid, frequencies F and directions D (lattice integers), and for every (time, position) a spectrum that is       *)
(* a record [kind, v]: kind "nan" (all missing), "zero" (all zero) or "data" with v an NF x ND table of naturals (energy in units of 1e-3 m2/Hz/deg).       *)
(*                                                                                                                  *)
(* Records: SWAN, COMMENT, TIMEOPT, LONLAT(n), LOC(x, y)*, AFREQ(n), FREQ(v)*, NDIR(n), DIR(v)*, QUANT, VADENS,      *)
(* UNIT, EXC(v), then per time  TIME(t)  and per location IN HEADER ORDER one of  NODATA | ZERO |                   *)
(* FACTOR(max, mantissas)  where the factor is max/9998 and mantissa = round(E / factor) under "%5.0f".              *)
(* The writer stacks a grid as site = (lat, lon): latitude-major location order.                                    *)
(* The reader rebuilds a grid when #unique(x) * #unique(y) = #locations; READMODE says how blocks are mapped to grid *)
(* cells: "positional" = reshape(time, lon, lat) (the code before the repair), "bycoord" = by the LOC coordinates.   *)
EXTENDS Integers, Sequences, FiniteSets, TLC, SequencesExt, FiniteSetsExt

RoundDiv(a, b) == (2 * a + b) \div (2 * b)          \* round half up (exact ties are excluded from the lattice)
Cells(NF, ND) == (1..NF) \X (1..ND)
MaxOf(S, NF, ND) == Max({S.v[c[1]][c[2]] : c \in Cells(NF, ND)})
Mant(S, NF, ND) == LET mx == MaxOf(S, NF, ND) IN [f \in 1..NF |-> [d \in 1..ND |-> RoundDiv(S.v[f][d] * 9998, mx)]]
Block(S, NF, ND) == IF S.kind = "nan" THEN [k |-> "NODATA"]
                    ELSE IF S.kind = "zero" \/ MaxOf(S, NF, ND) = 0 THEN [k |-> "ZERO"]
                    ELSE [k |-> "FACTOR", max |-> MaxOf(S, NF, ND), m |-> Mant(S, NF, ND)]

\* ---- writer: ds = [T, F, D, grid (BOOLEAN), lons, lats (grid axes or per-site), E[t][p]] with p in WRITER order
NLoc(ds) == IF ds.grid THEN Len(ds.lats) * Len(ds.lons) ELSE Len(ds.lons)
\* writer's location order for a grid: site = stack(lat, lon)  => latitude-major
WLat(ds, p) == IF ds.grid THEN ds.lats[((p - 1) \div Len(ds.lons)) + 1] ELSE ds.lats[p]
WLon(ds, p) == IF ds.grid THEN ds.lons[((p - 1) % Len(ds.lons)) + 1] ELSE ds.lons[p]
Header(ds) == << [k |-> "SWAN"], [k |-> "COMMENT"], [k |-> "COMMENT"], [k |-> "TIME"], [k |-> "TIMEOPT", v |-> 1],
                 [k |-> "LONLAT"], [k |-> "COUNT", v |-> NLoc(ds)] >>
              \o [p \in 1..NLoc(ds) |-> [k |-> "LOC", x |-> WLon(ds, p), y |-> WLat(ds, p)]]
              \o << [k |-> "AFREQ"], [k |-> "COUNT", v |-> Len(ds.F)] >> \o [i \in 1..Len(ds.F) |-> [k |-> "NUM", v |-> ds.F[i]]]
              \o << [k |-> "NDIR"], [k |-> "COUNT", v |-> Len(ds.D)] >> \o [j \in 1..Len(ds.D) |-> [k |-> "NUM", v |-> ds.D[j]]]
              \o << [k |-> "QUANT"], [k |-> "COUNT", v |-> 1], [k |-> "VADENS"], [k |-> "UNIT"], [k |-> "EXC", v |-> -99] >>
TimeRecs(ds, t) == << [k |-> "T", v |-> ds.T[t]] >> \o [p \in 1..NLoc(ds) |-> Block(ds.E[t][p], Len(ds.F), Len(ds.D))]
WriteRecords(ds) == Header(ds) \o FlattenSeq([t \in 1..Len(ds.T) |-> TimeRecs(ds, t)])

\* ---- reader: records -> dataset.  Decoded energies are rationals <<mantissa * max, 9998>> (value = m * factor)
NoTable == <<>>
Decode(b, NF, ND) == IF b.k = "NODATA" THEN [kind |-> "nan", v |-> NoTable] ELSE IF b.k = "ZERO" THEN [kind |-> "zero", v |-> NoTable]
                     ELSE [kind |-> "data", v |-> [f \in 1..NF |-> [d \in 1..ND |-> <<b.m[f][d] * b.max, 9998>>]]]
LocsOf(recs) == SelectSeq(recs, LAMBDA r : r.k = "LOC")
SortSet(S) == SetToSortSeq(S, LAMBDA a, b : a < b)
IndexIn(s, v) == CHOOSE i \in 1..Len(s) : s[i] = v
ReadGrid(recs, NT, NF, ND, mode) ==
  LET locs == LocsOf(recs)
      lons == SortSet({locs[p].x : p \in 1..Len(locs)}) lats == SortSet({locs[p].y : p \in 1..Len(locs)})
      isgrid == Len(lons) * Len(lats) = Len(locs)
      blocks == SelectSeq(recs, LAMBDA r : r.k \in {"NODATA", "ZERO", "FACTOR"})
      blk(t, p) == blocks[(t - 1) * Len(locs) + p]
      \* which file block lands in grid cell (ilat, ilon)
      src(ilat, ilon) == IF mode = "positional" THEN (ilon - 1) * Len(lats) + ilat            \* reshape(time, lon, lat) + swapaxes
                         ELSE CHOOSE p \in 1..Len(locs) : locs[p].x = lons[ilon] /\ locs[p].y = lats[ilat]
  IN [grid |-> isgrid, lons |-> lons, lats |-> lats,
      E |-> [t \in 1..NT |-> IF isgrid THEN [ilat \in 1..Len(lats) |-> [ilon \in 1..Len(lons) |-> Decode(blk(t, src(ilat, ilon)), NF, ND)]]
                             ELSE [p \in 1..Len(locs) |-> Decode(blk(t, p), NF, ND)]]]

\* ---- round trip: every spectrum comes back at its own position, within half a factor; zero and missing survive
Close(orig, dec, NF, ND) ==
  IF orig.kind = "nan" THEN dec.kind = "nan"
  ELSE IF orig.kind = "zero" \/ MaxOf(orig, NF, ND) = 0 THEN dec.kind = "zero"
  ELSE dec.kind = "data" /\ \A c \in Cells(NF, ND) :
         LET mx == MaxOf(orig, NF, ND) diff == (dec.v[c[1]][c[2]][1]) - (orig.v[c[1]][c[2]] * 9998)      \* (m*max - E*9998) / 9998
         IN 2 * (IF diff < 0 THEN -diff ELSE diff) <= mx
RoundTrip(ds, mode) ==
  LET r == ReadGrid(WriteRecords(ds), Len(ds.T), Len(ds.F), Len(ds.D), mode) IN
  IF ds.grid /\ r.grid
  THEN /\ r.lons = SortSet({ds.lons[i] : i \in 1..Len(ds.lons)}) /\ r.lats = SortSet({ds.lats[i] : i \in 1..Len(ds.lats)})
       /\ \A t \in 1..Len(ds.T) : \A a \in 1..Len(ds.lats) : \A b \in 1..Len(ds.lons) :
             Close(ds.E[t][(IndexIn(ds.lats, r.lats[a]) - 1) * Len(ds.lons) + IndexIn(ds.lons, r.lons[b])], r.E[t][a][b], Len(ds.F), Len(ds.D))
  ELSE \A t \in 1..Len(ds.T) : \A p \in 1..NLoc(ds) : Close(ds.E[t][p], r.E[t][p], Len(ds.F), Len(ds.D))
=============================================================================
