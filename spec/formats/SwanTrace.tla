--------------------------------- MODULE SwanTrace ---------------------------------
(* Writer conformance: files produced by the real to_swan, lexed into integer records (harness/lex_swan.py knows     *)
(* keywords and numbers only), must be exactly WriteRecords(ds) of Swan.tla: header order, location order, block      *)
(* kinds, the factor projected back onto the lattice and every integer mantissa.                                     *)
(* Trace: per file one line {k: "DS", tid, ds: {...}} followed by the file's records.  Verdicts are total.            *)
EXTENDS Swan, Json, IOUtils
TraceLog == ndJsonDeserialize(IOEnv.TRACE_FILE)
NL == Len(TraceLog)
VARIABLES l, exp, pos, tid
vars == <<l, exp, pos, tid>>
ToSpec(x) == [kind |-> x.kind, v |-> x.v]
DsOf(r) == [T |-> r.T, F |-> r.F, D |-> r.D, grid |-> r.grid, lons |-> r.lons, lats |-> r.lats,
            E |-> [t \in 1..Len(r.E) |-> [p \in 1..Len(r.E[t]) |-> ToSpec(r.E[t][p])]]]
NextDs(i) == IF \E j \in (i+1)..NL : TraceLog[j].k = "DS" THEN Min({j \in (i+1)..NL : TraceLog[j].k = "DS"}) ELSE NL + 1
Init == l = 1 /\ exp = <<>> /\ pos = 0 /\ tid = -1 /\ TLCSet(1, {}) /\ TLCSet(2, {})
Load == /\ l <= NL /\ TraceLog[l].k = "DS" /\ pos = Len(exp)
        /\ exp' = WriteRecords(DsOf(TraceLog[l].ds)) /\ pos' = 0 /\ tid' = TraceLog[l].tid /\ l' = l + 1
Same(a, b) == a = b
Match == /\ l <= NL /\ TraceLog[l].k # "DS" /\ pos < Len(exp)
         /\ IF TraceLog[l] = exp[pos + 1]
            THEN /\ pos' = pos + 1 /\ l' = l + 1 /\ UNCHANGED <<exp, tid>>
                 /\ IF pos + 1 = Len(exp) /\ (l + 1 > NL \/ TraceLog[l + 1].k = "DS") THEN TLCSet(1, TLCGet(1) \cup {tid}) ELSE TRUE
            ELSE /\ TLCSet(2, TLCGet(2) \cup {<<tid, pos + 1, TraceLog[l].k, exp[pos + 1].k>>})
                 /\ l' = NextDs(l) /\ pos' = 0 /\ exp' = <<>> /\ UNCHANGED tid
\* the file has more or fewer records than the specification's
Extra == /\ l <= NL /\ TraceLog[l].k # "DS" /\ pos = Len(exp) /\ exp # <<>>
         /\ TLCSet(2, TLCGet(2) \cup {<<tid, pos + 1, TraceLog[l].k, "end-of-file">>}) /\ TLCSet(1, TLCGet(1) \ {tid})
         /\ l' = NextDs(l) /\ pos' = 0 /\ exp' = <<>> /\ UNCHANGED tid
Short == /\ l <= NL /\ TraceLog[l].k = "DS" /\ pos < Len(exp)
         /\ TLCSet(2, TLCGet(2) \cup {<<tid, pos + 1, "end-of-file", exp[pos + 1].k>>})
         /\ pos' = Len(exp) /\ UNCHANGED <<l, exp, tid>>
ShortEnd == /\ l = NL + 1 /\ pos < Len(exp)
            /\ TLCSet(2, TLCGet(2) \cup {<<tid, pos + 1, "end-of-file", exp[pos + 1].k>>}) /\ pos' = Len(exp) /\ UNCHANGED <<l, exp, tid>>
Next == Load \/ Match \/ Extra \/ Short \/ ShortEnd
TSpec == Init /\ [][Next]_vars
Verdict == /\ PrintT(ToJson([verdict |-> "SwanTrace", accepted |-> Cardinality(TLCGet(1)),
                             rejected |-> SetToSeq({[tid |-> r[1], record |-> r[2], got |-> r[3], expected |-> r[4]] : r \in TLCGet(2)})]))
           /\ TLCGet(2) = {}
=============================================================================
