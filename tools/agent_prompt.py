#!/usr/bin/env python3
"""Prints the prompt handed to a mutation sub-agent for one property (property text + its worktree only)."""
import json, sys
pid, wt = sys.argv[1], sys.argv[2]
variant = sys.argv[3] if len(sys.argv) > 3 else ""
for l in open('/verif/properties.jsonl'):
    p = json.loads(l)
    if p['id'] == pid:
        break
txt = f"""You are helping to test a verification effort for the Python library `wavespectra` (xarray accessor for ocean wave spectra). Your job is to act as a realistic source of regressions.

You have your OWN scratch git worktree of the repository at: {wt}
Work ONLY inside that directory (never touch /repo or /verif, and do not read anything under /verif). Use `/venv/bin/python` (it has all dependencies; there is no network). The C extension is already built in place in your worktree; if you change C sources under wavespectra/partition/specpart/, rebuild with `cd {wt} && /venv/bin/python setup.py build_ext --inplace`.

Here is a semantic property of the library that is supposed to hold for every input:

ID: {p['id']} — {p['title']}
STATEMENT: {p['statement']}
QUANTIFIED OVER: {p['quantifier']['text']}
WHY THE EXISTING TESTS CANNOT SETTLE IT: {p['why_tests_cant']}
CODE ANCHORS: {json.dumps(p['anchors'], indent=1)}

TASK: produce ONE small change to the library source (under {wt}/wavespectra/, typically 1-10 lines, the kind of slip or "harmless refactor" a maintainer could plausibly make) that BREAKS this property, while
  (a) the code still imports/compiles, and
  (b) the existing test-suite still passes exactly as before: run `cd {wt} && /venv/bin/python -m pytest -q -p no:cacheprovider --timeout=900 --continue-on-collection-errors 2>&1 | tail -5` before and after — note that a number of tests already fail offline on the unmodified tree (netCDF4-related, awac, some cli/specarray tests); what matters is that the set of PASSING tests is unchanged (compare with `-rA`/junit output, not just counts, if in doubt).
The change must need something SPECIFIC to manifest — e.g. an unusual but valid input (particular grid shape, a spectrum touching the 0/360 seam, ties/plateaus, a particular argument combination), a multi-step sequence of operations, a particular chunking/interleaving, or two cooperating sites that each look fine alone. Do NOT make a change that ordinary use would expose at once (e.g. do not break hs() for every spectrum). {variant}

DELIVERABLES, written into {wt}/_out/ :
  1. `patch.diff` — output of `git -C {wt} diff -- wavespectra` (only library source changes; do not include the demo or the built .so).
  2. `demo.py` — a small self-contained program (run as `cd <tree> && /venv/bin/python _out/demo.py` or with PYTHONPATH=<tree>) that exercises the property on the specific input/sequence and exits 0 when the property holds and non-zero (assert) when it is violated. It must FAIL with your change and PASS on the unmodified tree (verify both: use `git stash` / `git stash pop` or `git diff > p; git checkout -- wavespectra; ...; git apply p`; remember to rebuild the C extension if you changed C).
  3. `notes.md` — 5-10 lines: what you changed, why it breaks the property, what specific conditions are needed for it to manifest, and the exact commands you ran with their outcome (test-suite before/after, demo before/after).
Leave the worktree with your change applied. Report back a short summary (the diff, the trigger conditions, and the verification results). Do not commit anything.
"""
print(txt)
