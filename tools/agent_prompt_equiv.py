#!/usr/bin/env python3
"""usage: agent_prompt_equiv.py <worktree> <area description> <ID> [<ID> ...]  -> prompt for a behaviour-PRESERVING change"""
import json
import os
import sys

HERE = os.path.dirname(os.path.dirname(os.path.abspath(__file__)))
wt, area, ids = sys.argv[1], sys.argv[2], sys.argv[3:]
props = {json.loads(l)["id"]: json.loads(l) for l in open(os.path.join(HERE, "properties.jsonl"))}
blocks = []
for i in ids:
    p = props[i]
    blocks.append("ID: %s — %s\nSTATEMENT: %s\nQUANTIFIED OVER: %s\nCODE ANCHORS (files): %s" %
                  (i, p["title"], p["statement"], p["quantifier"]["text"], ", ".join(p["anchors"]["files"])))
print("""You are helping to test a verification effort for the Python library `wavespectra` (xarray accessor for ocean wave spectra). Your job is to act as a realistic maintainer doing HARMLESS work.

You have your OWN scratch git worktree of the repository at: %(wt)s
Work ONLY inside that directory (never touch /repo or /verif, and do not read anything under /verif). Use `/venv/bin/python` (it has all dependencies; there is no network). The C extension is already built in place in your worktree; if you change C sources under wavespectra/partition/specpart/, rebuild with `cd %(wt)s && /venv/bin/python setup.py build_ext --inplace`.

Here are semantic properties of the library that hold today and MUST KEEP HOLDING after your change, for every input:

%(blocks)s

TASK: make a realistic, non-trivial but BEHAVIOUR-PRESERVING change to the library source in this area: %(area)s
Think of what a maintainer would plausibly commit: a refactor (extract helper, vectorise a loop, reorder independent statements, rename locals, replace an idiom by an equivalent one), a performance tweak, a numerically equivalent re-association of a formula (results may differ in the last few ulps, not more), extra input validation that rejects only invalid inputs, different-but-equally-valid internal choices (e.g. temporary dtype float64 instead of float32 where the result is then more accurate, a different but valid order of independent writes), reformatted error messages, added logging. 15-60 changed lines, touching 2-5 places. The change must NOT break any of the properties above for ANY input in their quantifier, and
  (a) the code still imports/compiles, and
  (b) the existing test-suite still passes exactly as before: run `cd %(wt)s && /venv/bin/python -m pytest -q -p no:cacheprovider --timeout=900 --continue-on-collection-errors -rA 2>&1 | tail -400 > /tmp/$(basename %(wt)s)_after.txt` before and after — a number of tests already fail offline on the unmodified tree; what matters is that the set of PASSING tests is unchanged.
Be adversarial towards a checker that might be OVER-STRICT: prefer changes that alter incidental behaviour the properties do not fix (e.g. last-ulp rounding, the order of attributes, internal buffer reuse, exact text of exceptions, the formatting of written numbers within what the format allows and the round-trip tolerance of the property, ordering among exactly tied candidates where the property allows any) while keeping every stated property true. Say explicitly in your notes which incidental behaviours changed.

DELIVERABLES, written into %(wt)s/_out/ :
  1. `patch.diff` — output of `git -C %(wt)s diff -- wavespectra`.
  2. `notes.md` — what you changed, which incidental behaviours changed, and for each property above one or two sentences on why it still holds; the commands you ran with their outcome (test-suite before/after).
  3. `demo.py` — a small program that exercises the changed code paths on a few inputs and exits 0 when the properties relevant to them hold (it must pass both before and after your change).
Leave the worktree with your change applied. Report back a short summary. Do not commit anything.""" % dict(wt=wt, blocks="\n\n".join(blocks), area=area))
