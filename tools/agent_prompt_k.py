#!/usr/bin/env python3
"""Round k prompt: the property text, the worktree, a theme, and the one-line descriptions of the changes earlier
sub-agents already produced for this property (so the new one is different). Nothing about the checks."""
import json, subprocess, sys
pid, wt = sys.argv[1], sys.argv[2]
summ = json.load(open('/verif/seeded/summaries.json'))
tried = [v for k, v in sorted(summ.items()) if k.startswith(pid + "-")]
import os
for d in sorted(os.listdir('/verif/seeded')):
    if d.startswith(pid + "-") and d not in summ and os.path.exists('/verif/seeded/%s/notes.md' % d):
        first = open('/verif/seeded/%s/notes.md' % d).readline().strip("# \n")
        tried.append(first)
variant = ("THEME FOR THIS ROUND: prefer a change whose effect depends on METADATA, TYPES or STRUCTURE rather than on the spectral values "
           "- e.g. the dtype of a coordinate (integer, float32, datetime resolution), 0-d / scalar coordinates versus length-1 dimensions, names or "
           "presence of extra dimensions and non-index coordinates, optional variables (wspd, wdir, dpt) present / absent / NaN, attrs and encoding, "
           "a non-default keyword argument that is forwarded through several layers, list versus tuple versus ndarray versus DataArray arguments - "
           "or on an ERROR PATH / second call (state left behind when a call raises or returns early). Do not revert any commit whose message "
           "starts with 'fix:' (see `git log`). The following changes were ALREADY produced for this property by earlier rounds - yours must be a "
           "different mechanism in a different place:\n  - " + "\n  - ".join(tried))
print(subprocess.run([sys.executable, '/verif/tools/agent_prompt.py', pid, wt, variant], capture_output=True, text=True).stdout)
