#!/usr/bin/env python3
"""Round l prompt: the property text, the worktree, a theme, and the one-line descriptions of the changes earlier
sub-agents already produced for this property (so the new one is different). Nothing about the checks."""
import json, subprocess, sys
pid, wt = sys.argv[1], sys.argv[2]
summ = json.load(open('/verif/seeded/summaries.json'))
tried = [v for k, v in sorted(summ.items()) if k.startswith(pid + "-")]
import os
for d in sorted(os.listdir('/verif/seeded')):
    if d.startswith(pid + "-") and d not in summ and os.path.exists('/verif/seeded/%s/notes.md' % d):
        first = open('/verif/seeded/%s/notes.md' % d).readline().strip("# \n")
        tried.append(first)
variant = ("THEME FOR THIS ROUND: prefer a change that needs a COMPOSITION to manifest - two public operations applied one after the other "
           "(e.g. a selection, sort, interpolation, smoothing, split, partition, write/read, concatenation or unit conversion FOLLOWED BY the operation the property talks "
           "about, where the first leaves behind something unusual but valid: a length-1 or empty dimension, a reordered / descending / non-contiguous "
           "coordinate, a renamed or extra dimension, a dask-backed or read-only array, NaN padding, a `part` dimension), or two cooperating SITES in the "
           "source (a helper whose contract you change slightly plus an existing caller that relied on the old contract; a default value that only matters "
           "when a second method forwards it; a cache / early return keyed on too little). Each site must look fine on its own. Also consider the "
           "less-travelled public entry points named in the property (numpy-level twins, Dataset accessor wrappers, keyword forms, multi-file readers, "
           "writers with non-default options). Do not revert any commit whose message starts with 'fix:' (see `git log`). The following changes were "
           "ALREADY produced for this property by earlier rounds - yours must be a "
           "different mechanism in a different place:\n  - " + "\n  - ".join(tried))
print(subprocess.run([sys.executable, '/verif/tools/agent_prompt.py', pid, wt, variant], capture_output=True, text=True).stdout)
