#!/usr/bin/env python3
"""Regenerates the two generated tables of DESIGN.md (§7.1 seeded matrix, §7.2 behaviour-preserving changes)."""
import glob
import json
import os
import re
import subprocess

HERE = os.path.dirname(os.path.dirname(os.path.abspath(__file__)))
seed = subprocess.run(["python3", os.path.join(HERE, "tools", "seed_table.py")], stdout=subprocess.PIPE, text=True).stdout.strip()
rows = ["| change | area | files | checks run (quick tier) | alarms |", "|---|---|---|---|---|"]
AREA = {"E1": "statistics (specarray/npstats/xrstats)", "E2": "partitioning + C watershed", "E3": "instrument readers, SWAN core",
        "E4": "writers", "E5": "site selection", "E6": "regrid / smooth / interp / split", "E7": "construct + model converters",
        "E8": "tracking + dask plumbing", "E9": "SWAN core reader/writer + multi-file readers (round 2)", "E10": "instrument readers (round 2)",
        "E11": "watershed C code + numpy partition functions (round 2)", "E12": "statistics and transforms of specarray.py (round 2)",
        "E13": "accessor / selection / writers plumbing (round 2)", "E14": "dask / apply_ufunc plumbing (round 2)",
        "E15": "core/utils: regrid, smooth, dispersion (round 2)", "E16": "construct, model converters, tracking (round 2)"}
for d in sorted(glob.glob(os.path.join(HERE, "seeded_equiv", "*")), key=lambda x: int(os.path.basename(x)[1:]) if os.path.basename(x)[1:].isdigit() else 0):
    if not os.path.isdir(d):
        continue
    m = json.load(open(os.path.join(d, "meta.json")))
    patch = open(os.path.join(d, "patch.diff")).read()
    files = sorted(set(os.path.basename(f) for f in re.findall(r"^\+\+\+ b/(\S+)", patch, re.M)))
    ran = ", ".join(c["check"] for c in m.get("checks", []))
    alarms = ", ".join("%s (%d)" % (c["check"], c["violations"]) for c in m.get("checks", []) if c["rc"] != 0) or "none"
    rows.append("| %s | %s | %s | %s | %s |" % (m["name"], AREA.get(m["name"], ""), ", ".join(files), ran, alarms))
p = os.path.join(HERE, "DESIGN.md")
s = open(p).read()


def put(s, tag, body):
    a, b = "<!-- %s -->" % tag, "<!-- /%s -->" % tag
    block = a + "\n" + body + "\n" + b
    if a in s:
        return s[:s.index(a)] + block + s[s.index(b) + len(b):]
    return s.replace(tag + "_PLACEHOLDER", block)


s = put(s, "SEED_TABLE", seed)
s = put(s, "EQUIV_TABLE", "\n".join(rows))
open(p, "w").write(s)
print("tables written")
