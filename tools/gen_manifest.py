#!/usr/bin/env python3
"""Regenerates /verif/MANIFEST.json from the table below (single source of truth for the interface)."""
import json
import os
import subprocess

HERE = os.path.dirname(os.path.dirname(os.path.abspath(__file__)))

CHECKS = {
    "C04": dict(
        text="TLC enumerates every grid over a value alphabet for a family of small shapes on a step-granular TLA+ "
             "transcription of specpart.c and checks the four clauses (all bins labelled, one class per regional maximum, "
             "classes connected under circular 8-adjacency, two-run shift equivariance) as invariants; every enumerated "
             "input is replayed through the real C routine (exact label-map equality) and hook-H1 traces of random larger "
             "grids are validated step by step against the same spec, with the declarative clauses evaluated by TLC on the "
             "recorded outputs. The repository's own partition tests are run under the hooks and every distinct call (floating-point "
             "25x24 spectra) is validated by WatershedTrace in level mode (flooding exactly, sweeps against SweepRel, result against the "
             "post-condition); label maps computed from 8-16 concurrent threads must equal the serial ones.",
        note="Trusted: TLC, the hook events (add-only, written by the C routine itself), integer-valued inputs; rounding "
             "ties of the level discretisation are excluded by an exact filter. Bounded: exhaustive only for the listed small "
             "shapes/alphabets; larger grids by recorded traces.",
        technique="TLA+ transcription of the C watershed + TLC exhaustive invariants + replay and H1 trace validation",
        ref="§4 C04", engine="tlc"),
    "C20": dict(
        text="Native half: the TLA+ transcription of specpart.c carries a ghost bounds check on every array/FIFO access "
             "(BoundsOK), the neighbour table is shown to lie inside the buffers and to equal circular 8-adjacency (TableOK), "
             "and termination is checked as a liveness property under weak fairness; TLC explores every shape up to 8x8 over a "
             "pattern family and several ihmax. Every enumerated input and long random shape-alternating sequences (up to 40x40, "
             "constants in between) are executed by the real routine compiled with ASan+UBSan, outputs must equal the spec's, and "
             "H1 traces including the static work-area state after partinit are validated. Python half: Robust.tla enumerates the "
             "outcome table (grid class x spectrum class x operation x argument class -> allowed outcomes); every case is realised "
             "on the real library and must yield an allowed outcome, never another exception.",
        note="Trusted: TLC, clang sanitizers as monitors, representative spectra per class (one or two per class, seeded). "
             "Operations outside the table: crsd (undocumented), hp01 (experimental), plotting; 2-D-only operations are not "
             "applied to 1-D spectra.",
        technique="TLA+ bounds/termination model of the C routine + sanitizer-monitored replay; TLA+ outcome table + replay",
        ref="§4 C20", engine="tlc"),
    "C19": dict(
        text="Tracking.tla models one action per time step shaped like tracking.py (greedy threshold matching in partition "
             "order with an availability list, then id propagation); the clauses of the property (missing marker, uniqueness "
             "within a step, ids = 0..N-1 issued in order of appearance, carried only within the previous partition's "
             "thresholds, retired ids never return, reported count) are invariants checked by TLC over all histories of bounded "
             "length on alphabets built around seam crossings, threshold edges, sea-gap decisions and exact distance ties. "
             "Every emitted behaviour is replayed into match_consecutive_partitions, np_track_partitions (thresholds realised "
             "through dt, wind speed and source distance) and track_partitions with two sites; random long histories recorded "
             "from the implementation are validated step by step by TrackingTrace.tla.",
        note="Trusted: TLC; thresholds are placed off the frequency lattice so strict comparisons are exact; |sea threshold| < "
             "swell threshold (normalisation); exact distance ties are nondeterministic in the spec. ptm1_track is covered "
             "through track_partitions only.",
        technique="TLA+ step model of the tracker + TLC invariants + behaviour replay and trace validation",
        ref="§4 C19", engine="tlc"),
    "C01": dict(
        text="Stats.tla transcribes the published defining integrals over an exact lattice (frequencies in 0.05 Hz units, whole "
             "degrees, integer energies, the dataset's own bin widths, tail rule at 0.333 Hz) producing exact rationals or expression "
             "trees over exact leaves; MC_Stats enumerates every spectrum over an alphabet on a family of grids (log-like, irregular, "
             "uniform, single frequency, either side of the tail threshold; 1-D, 1/2/3/4/6 directions, full and partial circle, offset "
             "starts), checks the algebraic consequences (1-D = direction-integrated 2-D, Hs/Hrms relation, tail iff above threshold) "
             "as invariants, and every state becomes one implementation test through the DataArray and Dataset accessors (float64 and "
             "float32, batched along leading dimensions, inside lat/lon blocks, and as 1-D spectra). The dispersion clause is evaluated "
             "by the harness against the relation itself.",
        note="Trusted: TLC, the 60-line expression evaluator (arithmetic + sqrt/atan2/sin/cos/exp). Exact only on the lattice; arbitrary "
             "float spectra are reached through scaling/dtype variants only. Known finding: dm on non-uniform frequency grids.",
        technique="TLA+ exact-lattice transcription of the defining integrals + TLC enumeration + replay of every state",
        ref="§4 C01", engine="tlc"),
    "C02": dict(
        text="Stats.tla defines the interior strict local maxima, the set of largest peaks (ties nondeterministic), discrete and "
             "parabola-vertex peak period (TLC checks on every lattice spectrum that the vertex lies strictly between the neighbours and "
             "that monotone/flat/zero spectra have no peak), peak-row direction and spread, argmax-set peak direction, the exactly "
             "decided alpha tail window and gamma at the peak; MC_Stats enumerates all spectra over an alphabet on 3..7-frequency grids "
             "and each state is replayed through tp/fp/dp/dpm/dpspr/alpha/gamma at every position of batched datasets.",
        note="Trusted: TLC, expression evaluator. Peak statistics are float32 in the library (compared at 3e-6); alpha only where the "
             "window decisions have a 2e-3 margin; any of exactly tied peaks/directions is accepted.",
        technique="TLA+ exact-lattice peak definitions + TLC enumeration + replay of every state",
        ref="§4 C02", engine="tlc"),
    "C10": dict(
        text="StatsSym.tla states how the defining integrals transform under Scale(k), Relabel(a) and ScaleByHs as action properties "
             "checked exactly by TLC on every lattice spectrum; MC_Stats checks the physical bounds as polynomial inequalities between "
             "moments. Binding is metamorphic: both members of each pair (S, kS), (S, S relabelled) are run through the real accessor and "
             "the relation the spec states is checked between the two outputs (k in 1e-6..1e6, angles incl. non-integer and beyond 360), "
             "bounds are checked on the outputs, and scale_by_hs is replayed on datasets with exact range decisions (including spectra "
             "without a peak, which meet no tp/dpm range).",
        note="Trusted: TLC, float comparison at 1e-9 (2e-6 for float32 peak statistics). gw is excluded from the scaling relation (not "
             "homogeneous by its own formula); relations on spreads/widths are not demanded where the exact value is < 1e-3.",
        technique="TLA+ action properties on the exact lattice + metamorphic replay",
        ref="§4 C10", engine="tlc"),
    "C03": dict(
        text="Partition.tla models the pipeline np_ptm1/2/3 run after the watershed (mask by label, classify by wind-sea fraction "
             "against the cutoff with 0/0 => swell, PTM2's secondary wind sea, order by the array-level trapezoid Hs with ties free, "
             "truncate/zero-pad) and, independently, restates the property clause by clause; TLC checks that every result the pipeline "
             "can return satisfies the clauses for every spectrum x canonical label map x wave-age mask x cutoff x requested count on "
             "small grids. Each state is replayed into the real functions with the watershed stubbed to the state's label map, and "
             "random spectra (smooth, noisy, plateau, sparse, constant) run through the real watershed, np_ptm* and the accessor methods "
             "on (time, site) datasets are validated by PartitionTrace.tla against the same clauses.",
        note="Trusted: TLC; integer energies; wave-age masks realised by one deep-water wind with 0.5 % decision margin; exact "
             "wsfrac = wscut ties not replayed; pipeline-model membership in traces only for <= 5 classes (the clauses always).",
        technique="TLA+ pipeline model + declarative clauses, TLC refinement check, stubbed replay and trace validation",
        ref="§4 C03", engine="tlc"),
    "C05": dict(
        text="Session.tla models an object as abstract contents plus a concrete representation (dimension order, layout, dtype width, "
             "start and orientation of the stored direction sequence); representation actions change the representation only and the "
             "observation of a call is a function of the contents (invariant ResultIsFunctionOfContents, frame property). TLC enumerates "
             "every program of representation actions up to a length bound; each program x each of ~45 statistics / transforms / "
             "rule-based and watershed partitions is replayed on the real library and the labelled projection of the result is compared "
             "with the canonical representation (watershed methods exempt from the orientation clause, as the property states).",
        note="Trusted: TLC, xarray/numpy for building representations; integer-valued energies so that dtype casts keep the contents. "
             "Three defects found by this check were repaired (dd from stored order, smooth_spec labels, non-contiguous arrays to C).",
        technique="TLA+ session model (contents vs representation) + TLC program enumeration + replay by label",
        ref="§4 C05", engine="tlc"),
    "C06": dict(
        text="Dataset.tla defines every operation pointwise over the positions of a dataset; TLC enumerates shapes (0-3 non-spectral "
             "dimensions incl. part, lat/lon, site) x all fillings from three spectra x all single-position edits and checks "
             "BatchEqualsSingle and Isolation. Scenarios are replayed for every operation except hmax-with-time: the batched result at "
             "each position against the spectrum extracted into its own buffer with its own wind/depth, bit-identical results away from "
             "an edited position, Dataset accessor vs efth accessor; layouts with the spectral dims stored first and float32 included.",
        note="Trusted: TLC; extraction copies the spectrum into a fresh contiguous buffer (a view would share the defect under test).",
        technique="TLA+ pointwise dataset model + TLC scenario enumeration + differential replay",
        ref="§4 C06", engine="tlc"),
    "C17": dict(
        text="Frame.tla: only the driver's own edits may change an object's fingerprint; a call never does, also when it raises "
             "(ArgsImmutable). TLC enumerates all programs of two calls over ~45 public operations (accessor statistics/transforms, "
             "selection with every method and list/ndarray/DataArray queries, partitions with wind/depth arrays, construction helpers "
             "with keyword dictionaries, every writer); each is executed on the same objects in four world variants (both longitude "
             "conventions for dataset and query, numpy- and dask-backed, spectra that are a strided view of a caller-owned buffer) with "
             "every argument object fingerprinted deeply before and after each call; the recorded events are validated by FrameTrace.tla.",
        note="Trusted: TLC; the fingerprint function (values, coords, attrs, encodings, dims, strides/chunks, lists/dicts recursively).",
        technique="TLA+ frame conditions + TLC program enumeration + fingerprint trace validation",
        ref="§4 C17", engine="tlc"),
    "C18": dict(
        text="Mechanisms.tla models, shaped like the code, where state survives between calls (the accessor object cached per "
             "Dataset/DataArray and what SpecDataset binds at creation, the dd memo, the attribute table inserting on lookup, the "
             "watershed's static work area) and TLC checks Fresh (observation = what a fresh object with the same contents gives) over "
             "all interleavings; pre-repair mechanisms are kept as regression configurations that must still produce TLC's stale "
             "history. Session.tla enumerates all histories of accesses, other calls, in-place edits of efth / dir, unknown statistic "
             "names and partition/reader calls on other objects; each is replayed on a Dataset and a DataArray and the final "
             "observation compared with a fresh object evaluated in a pristine child process; H1 traces of interleaved shapes check the "
             "static work area per call.",
        note="Trusted: TLC; fresh values come from a forked child of a process that only imported the library. Defect found and repaired: "
             "Dataset accessor bound to a snapshot of efth; dd memo.",
        technique="TLA+ mechanism model refining the session spec + TLC interleavings + history replay against fresh objects",
        ref="§4 C18", engine="tlc"),
    "C07": dict(
        text="DaskSched.tla models block tasks on W worker threads calling the C watershed, whose work area is process-global static "
             "state, as a four-step critical section guarded only by the GIL; TLC checks TaskOutputCorrect, BufferShapeConsistent, "
             "AtMostOneInside for every interleaving and shape sequence and that all tasks finish (weak fairness), plus a sensitivity "
             "configuration showing the corruption when the GIL is released. H1/H2 events recorded inside the C wrapper during real "
             "threaded runs (two differently shaped PTM3 computations interleaved on up to 16 workers) are validated by "
             "DaskSchedTrace.tla (no overlapping calls, contiguous buffer, realloc flag = shape change, static area = call's shape). "
             "Chunking half: every operation x 7 chunkings (single, one element per chunk, uneven, spectral dims split) x schedulers "
             "must succeed and equal the in-memory result.",
        note="Trusted: TLC; hook events written while the GIL is held; machine-level data races inside the C routine are out of reach "
             "(and impossible while the GIL is held, which the check establishes). Defect found and repaired: chunk({dim: None}).",
        technique="TLA+ scheduler/critical-section model + TLC interleavings + H2 trace validation + chunking replay",
        ref="§4 C07", engine="tlc"),
    "C08": dict(
        text="Regrid.tla transcribes regrid_spec stage by stage (direction stage: modulo, duplicate removal keeping the first stored "
             "occurrence, wrap bins at +-360, linear interpolation; frequency stage: zero anchor at f=0 and zero fill; one "
             "variance-conserving factor per spectrum with the tail rule and each grid's own widths; rotate = relabel + direction stage) "
             "in exact rational arithmetic. MC_Regrid enumerates source grids (sorted, offset, unsorted, duplicated 0/360 bin, partial "
             "circle) x target grids (same, finer, coarser, shifted, extending both ways) x spectra and checks ShapeIsTarget, "
             "NonNegative, ZeroAboveTop, IdentityOnSameGrid, HsPreserved (exact), WholeBinRotationIsShift, Rotate360IsIdentity; every "
             "state is replayed into regrid_spec / interp / interp_like / rotate against the exact rational value; for real-valued "
             "angles the every-angle invariants are checked on the implementation.",
        note="Trusted: TLC with overflow-safe rationals; exact on the lattice (1e-9); targets inside [0,360); a one-point frequency axis "
             "is not interpolated (C20 table).",
        technique="TLA+ exact-rational transcription of the regridding stages + TLC invariants + replay of every state",
        ref="§4 C08", engine="tlc"),
    "C09": dict(
        text="Split.tla defines PTM4 (sea iff celerity class <= wind-component class, equality included), BBOX (inclusive membership, "
             "omitted limits = grid extremes, complement last, overlapping rectangles and fmin >= fmax rejected), the band split (bins "
             "inside unchanged, linearly interpolated rows at off-grid cutoffs) and PTM5 (cutoff inserted by Regrid with one "
             "variance-preserving factor, zero strictly beyond the cutoff) in exact arithmetic; MC_Split enumerates sparse spectra "
             "(every bin / pair / triple of bins) on 4x3 and 4x4 grids with sorted, offset and unsorted directions x wind patterns x "
             "box sets x cutoffs on and off nodes and checks Ptm4OK, BboxOK, OverlapRejected, BandOK, Ptm5OK; states are replayed into "
             "ptm4, bbox, split, ptm5 and stats(limits) and compared with the exact result by label.",
        note="Trusted: TLC; PTM4 wind patterns realised with per-direction wind aligned with each bin (agefac 1), equality through the "
             "library's own celerity value; finite depth 40 m. Defect found and repaired: bbox default dmax.",
        technique="TLA+ exact transcription of the split rules + TLC invariants + replay of every state",
        ref="§4 C09", engine="tlc"),
    "C16": dict(
        text="Smooth.tla defines smoothing as an exact-rational window mean on the stored (possibly unsorted) direction order, circular on "
             "a full-circle grid, input value where the window does not fit, even windows rejected; MC_Smooth enumerates spectra x 8 "
             "direction grids (sorted, rolled, descending, unsorted, partial, 3-6 directions) x independent windows {1,2,3,5}^2 and checks "
             "WithinWindowMinMax, NonNegative, ConstantPreserved, WindowOneIdentity, CommutesWithDirShift, EvenRejected; every state is "
             "replayed into spec.smooth and smooth_spec (dims, coordinates and their order must be the input's; values exact), and "
             "larger 8/24/32-direction grids with leading dimensions are checked against the circular window mean and shift commutation.",
        note="Trusted: TLC; spacings whole or dyadic degrees (float32 labels inside smooth_spec); windows do not exceed the grid size.",
        technique="TLA+ exact window-mean model + TLC invariants + replay of every state",
        ref="§4 C16", engine="tlc"),
    "C14": dict(
        text="Select.tla defines nearest / inverse-distance / bounding-box selection on abstract positions of the sphere (half-degree "
             "lattice with stations and queries either side of the 0 and 180 meridians): short-way longitude difference, exact squared "
             "distances, inclusive tolerance radius, up-to-max_sites nearest with free ties, the station itself at zero distance, "
             "missing when fewer than two are in range, the box in the query's own convention widened by the tolerance. MC_Select "
             "enumerates station layouts x query points x both conventions for dataset and query independently x tolerances x max_sites "
             "and checks NearestIsMin, ShortWay, IdwWithinTolerance, ToleranceWidens, BBoxContainsEnclosed; every state is replayed "
             "through Dataset.spec.sel (nearest, idw, bbox; list/ndarray queries; with/without precomputed dset_lons/lats): membership, "
             "reported longitudes in the query's convention and the IDW combination of distinct per-station spectra.",
        note="Trusted: TLC. Exactly-180-degree positions and boxes whose widened interval reaches the seam of the query's convention "
             "are not compared (0/360 and -180/180 read alike there); a query entirely inside [0,180] is ambiguous and either reading is "
             "accepted. Two defects found and repaired (short-way distance, mixed-convention bbox).",
        technique="TLA+ selection model on abstract sphere positions + TLC invariants + replay of every state",
        ref="§4 C14", engine="tlc"),
    "C15": dict(
        text="Construct.tla models the algebra the constructors apply to any non-negative shape and spreading table (scaling by "
             "h^2/Hs^2 with the accessor's Hs and tail rule, cartwright's normalisation, outer product); TLC checks on every small "
             "integer table that Hs(Scaled) = h exactly, non-negativity, unit integral of the normalised spreading on a full-circle "
             "uniform grid, product integrates back to the shape, symmetric table has no odd part about its axis; it also enumerates "
             "the parameter lattice whose cases the harness realises on the real constructors, evaluating: scaled = unscaled*h^2/Hs^2, "
             "measured Hs, JONSWAP(gamma=1)=PM, TMA(deep)=JONSWAP, spreading integral, oned(2D)=shape, measured dm/dspr, ascending / "
             "descending / rolled direction storage, scalar and DataArray parameters.",
        note="The transcendental shapes are beyond TLC: for them the spec supplies the case enumeration and the relations, the harness "
             "evaluates them in floating point against the requested parameters. Measured dm/dspr are demanded exactly only for integer "
             "spreading exponents with s+1 < n; under-resolved spreadings are not compared.",
        technique="TLA+ algebra of scaling/normalisation + TLC on integer tables; TLC-enumerated parameter lattice realised on the code",
        ref="§4 C15", engine="tlc"),
    "C12": dict(
        text="Convert.tla is a quantity algebra (rational x power of pi): for WW3, SWAN netCDF, WWM and ERA5 it states the native bin "
             "contribution to the variance (native value, Jacobian, native widths) and the converted one (per Hz per degree with the "
             "converted widths); TLC checks VariancePreserved bin by bin, BinKeepsPhysicalDir (going-to turned by 180 degrees, radians "
             "to degrees incl. 11.25/5.625-degree grids, labels in [0,360)) and DispatchTotalAndRight (the name-based recogniser with its "
             "if-chain order). Each state is realised as an in-memory xarray.Dataset in the native layout (leading sizes, lon/lat with or "
             "without time dimension, wind/depth present or absent) through read_dataset and from_<model>; bins, labels, the variance "
             "in native units and winds from components are compared with the exact expectation; ERA5 (default grid, missing values) "
             "and NDBC (1-D, 2-D integrating back to 1-D) are replayed on top.",
        note="Trusted: TLC; native datasets are built in memory because netCDF files of these conventions cannot be opened offline. "
             "Defect found and repaired: read_dataset's ERA5 branch.",
        technique="TLA+ quantity algebra of the unit/direction conventions + TLC invariants + replay of every state",
        ref="§4 C12", engine="tlc"),
    "C13": dict(
        text="formats/Instruments.tla specifies the unit factor of every format as a quantity algebra (rational x power of pi x power "
             "of rho*g), the direction mappings (bijections on the direction lattice; WW3 going-to = opposite direction, SWAN CDIR = "
             "cartesian), the reconstruction identity of the NDBC spreading on exact 60/90-degree lattices (integrates to the frequency "
             "spectrum; two directions do not) and the record-order contract (any permutation of the records / files is returned once "
             "each, sorted by time); TLC checks these and enumerates format x header variant x 1..3(4) records x every record "
             "permutation x grid sizes x 1-D request x points. Every case is written by independent reference encoders "
             "(harness/instruments.py, written from the formats and vendor samples; every printed token parses back to the same "
             "double), read by the real reader and compared: timestamps, frequencies, directions, positions, densities; for "
             "reconstructing readers sum(efth*dd) and the 1-D request against the file's frequency spectrum. The specification's factor "
             "table is cross-checked against the encoders' expectations; vendor samples are decoded independently. SwanFile.tla models "
             "the SWAN reader operationally (one-line lookahead, keyword tests, direct reads): TLC checks ParseCorrect and the lookahead "
             "discipline over every block content within bounds; the contents are replayed through the real writer and reader and every "
             "recorded read (events from a harness-side wrapper) is validated by SwanFileTrace.tla.",
        note="Trusted: TLC, the reference encoders (their self-consistency is checked: permuting records never changes the sorted "
             "expectation; tokens round-trip). Seven defects repaired (TRIAXYS frequency grid, NDBC history r1/r2 scale, XWaves double date "
             "vectors, record order in four readers, in read_swans and in read_triaxys); open findings: Spotter JSON spectra timestamps, multi-point WW3 station files.",
        technique="TLA+ unit/direction/record-order model + TLC case enumeration realised by independent reference encoders and read by the real readers; operational reader model with trace validation (SwanFileTrace)",
        ref="§4 C13", engine="tlc"),
    "C11": dict(
        text="SWAN ASCII is specified as a record grammar with a writer automaton and a reader automaton (formats/Swan.tla); TLC "
             "checks RoundTrip = Read(Write(ds)) over every assignment of {missing, zero, A, B} to the positions of station lists and "
             "lat x lon grids of unequal sizes / unsorted axes, with the positional (pre-repair) reader kept as a regression whose "
             "expected result is the counterexample. Writer conformance by trace validation: files written by the real to_swan are lexed "
             "into integer records and SwanTrace.tla demands they are exactly Write(ds) (header order, location order, block kinds, "
             "factor on the lattice, every mantissa). Reader conformance by replay of rendered record sequences with permuted location "
             "order. ChunkLoop.tla checks the ntime loops of to_swan / to_octopus (every time exactly once, in order, termination). "
             "JSON, wavespectra netCDF (packed/unpacked), WW3 netCDF, Octopus and Funwave are replayed end to end (plain/gzip, chunked, "
             "zero and missing spectra, unsorted directions, energies spanning orders of magnitude).",
        note="Trusted: TLC, the 90-line lexer/renderer (keywords and numbers only). netCDF only through the scipy engine (NETCDF3); zlib "
             "and zarr cannot be executed offline. Known finding: Octopus chunked writing. Two defects repaired (gridded SWAN reader, packed netCDF).",
        technique="TLA+ record grammar with writer/reader automata + TLC round-trip + writer trace validation + reader replay",
        ref="§4 C11", engine="tlc"),
}

# stages added in rounds 12-13 (appended to the level text of the check)
EXTRA = {
    "C05": " Session.tla's derivation steps (DoDerive / CanDerive / DimsAfter: the session continues on what a selection, arithmetic, a "
           "concatenation or a public transform / partition returned) are enumerated up to two steps; every operation on the derived object "
           "is compared with the operation on a freshly built object holding the same labelled values, and the dimensions the model predicts "
           "with the real ones. The array-level functions (interp_spec, npstats) are replayed on Fortran / strided / transposed / float32 buffers.",
    "C06": " Dataset.tla shapes include several partitions per position (part first / last); every non-spectral dimension of the input "
           "must be a dimension of the result; a blocks-on-threads stage compares every position of a dask-backed dataset computed by 8-16 "
           "threads with the spectrum partitioned on its own.",
    "C07": " Further stages: winds / depth given on fewer dimensions than the chunked spectra (ptm1, ptm2, ptm4, hp01), and many blocks of one "
           "dataset on 16 threads for ptm1 / ptm3 against the in-memory result.",
    "C18": " Mechanisms.tla also models the VALUES of the process-wide attribute table (ATTRTAB copy / live; the live variant is a regression "
           "configuration that must violate Fresh); histories include reader calls on every sample format and HP01 calls, observations include "
           "the metadata (name, attrs, coordinate attrs) of twelve stamped results and HP01 on two same-shaped arrays with different frequency grids.",
    "C12": " MC_Convert also enumerates the native dataset narrowed by a selection to one or two direction bins (keep) and degree axes with small labels.",
    "C09": " Box sets include one-row boxes (dmin = dmax) inside, apart from and next to other boxes, and the row at north (limit 0).",
}

NOT_YET = "check not yet built in this round (see DESIGN.md §4 for the planned TLA+ model); not claimed"


def main():
    props = [json.loads(l)["id"] for l in open(os.path.join(HERE, "properties.jsonl"))]
    try:
        commits = subprocess.run(["git", "-C", "/repo", "log", "--format=%H %s"], stdout=subprocess.PIPE, text=True).stdout
        hook_commits = [l.split()[0] for l in commits.splitlines() if "verif hook" in l]
    except Exception:
        hook_commits = []
    checks = []
    for pid in props:
        if pid not in CHECKS:
            continue
        c = CHECKS[pid]
        checks.append({
            "property_id": pid,
            "quick_cmd": "./check %s --tier quick" % pid,
            "thorough_cmd": "./check %s --tier thorough" % pid,
            "evidence_file": "/verif/evidence/%s.json" % pid,
            "replay_cmd_template": "./check %s --replay {path}" % pid,
            "engine": c.get("engine", "tlc"),
            "level_claimed": {"category": "model_checking", "text": c["text"] + EXTRA.get(pid, ""), "design_ref": c["ref"]},
            "level_note": c["note"],
            "technique": c["technique"],
        })
    man = {
        "version": 1,
        "setup_cmd": "./check --setup",
        "hooks": {
            "guard": "WAVESPECTRA_VERIF",
            "enable": "env WAVESPECTRA_VERIF=1 (+ WAVESPECTRA_VERIF_TRACE=<file> for the C trace events); ./check sets it and "
                      "compiles specpart.c/specpart_wrap.c from /repo's working tree into /verif/.build",
            "baseline_off_cmd": "/verif/baseline_off.sh",
            "source_commits": hook_commits,
            "add_only": True,
        },
        "engines": [
            {"name": "tlc", "path": "/usr/local/bin/tlc", "serves_properties": [c["property_id"] for c in checks],
             "kind_free_text": "TLA+ explicit-state model checker (tla2tools 1.8.0) on /verif/spec/*.tla"},
            {"name": "sanitizer-driver", "path": "/verif/harness/native/driver.c",
             "serves_properties": [p for p in ("C04", "C20") if p in CHECKS],
             "kind_free_text": "specpart.c compiled verbatim with clang ASan+UBSan as the replay target / monitor"},
        ],
        "checks": checks,
        "notes": "All checks: ./check <ID> --tier quick|thorough. Known defects are in /verif/known_findings.jsonl.",
        "not_applicable": [{"property_id": p, "reason": NOT_YET} for p in props if p not in CHECKS],
    }
    with open(os.path.join(HERE, "MANIFEST.json"), "w") as fh:
        json.dump(man, fh, indent=1)
    print("MANIFEST.json: %d checks, %d not claimed" % (len(checks), len(man["not_applicable"])))


if __name__ == "__main__":
    main()
