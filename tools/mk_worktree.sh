#!/bin/sh
# usage: mk_worktree.sh <name>   -> /tmp/wt/<name>, with the C extension built in place
set -e
D=/tmp/wt/$1
mkdir -p /tmp/wt
git -C /repo worktree add -q --detach "$D" HEAD
cd "$D" && /venv/bin/python setup.py build_ext --inplace >/dev/null 2>&1
rm -rf "$D/build"
mkdir -p "$D/_out"
echo "$D"
