#!/bin/sh
# usage: tools/round_l.sh <Cnn> [extra checks...]  - confirm the round-l change of a sub-agent, store it, run its check(s), drop the worktree
id=$1; shift
out=/tmp/wt/l-$id/_out
python3 /verif/tools/seed.py confirm $id-l1 $id $out "see notes.md" > /tmp/wt/confirm-$id.log 2>&1 || { echo "$id NOT CONFIRMED"; tail -5 /tmp/wt/confirm-$id.log; exit 1; }
python3 /verif/tools/seed.py run $id-l1 $id "$@" > /tmp/wt/run-$id-l1.log 2>&1
grep "^==" /tmp/wt/run-$id-l1.log
git -C /repo worktree remove --force /tmp/wt/l-$id
