#!/usr/bin/env python3
"""Confirm a sub-agent's seeded change and store it under /verif/seeded/<name>/.

usage: seed.py confirm <name> <property> <agent_out_dir> "<needs>"    (verifies in a scratch worktree, then stores)
       seed.py run <name> [check ids...]                                (apply to /repo, run quick checks, undo)

confirm: in a fresh worktree of /repo HEAD: demo passes; after `git apply patch.diff` (+ rebuild of the C
extension) demo fails and the 222 stable baseline tests still pass.
"""
import json
import os
import shutil
import subprocess
import sys
import xml.etree.ElementTree as ET

SEEDED = "/verif/seeded"
PY = "/venv/bin/python"


def sh(cmd, cwd=None, env=None, timeout=3600):
    e = dict(os.environ)
    e.pop("WAVESPECTRA_VERIF", None)
    e.pop("WAVESPECTRA_VERIF_TRACE", None)
    if env:
        e.update(env)
    p = subprocess.run(cmd, shell=isinstance(cmd, str), cwd=cwd, env=e, stdout=subprocess.PIPE,
                       stderr=subprocess.STDOUT, text=True, timeout=timeout)
    return p.returncode, p.stdout


def baseline(wt):
    out = "/tmp/wt/junit-%d.xml" % os.getpid()
    sh([PY, "-m", "pytest", "-q", "-p", "no:cacheprovider", "--timeout=900", "--continue-on-collection-errors",
        "--junitxml=" + out], cwd=wt)
    want = set(json.load(open("/root/.vp/BASELINE.json"))["stable_pass"])
    ok = set()
    for tc in ET.parse(out).getroot().iter("testcase"):
        if not any(ch.tag in ("failure", "error", "skipped") for ch in tc):
            ok.add("%s::%s" % (tc.get("classname"), tc.get("name")))
    os.unlink(out)
    return sorted(want - ok)


def confirm(name, prop, outdir, needs):
    wt = "/tmp/wt/confirm-%s" % name
    sh("git -C /repo worktree remove --force %s" % wt)
    rc, o = sh("git -C /repo worktree add -q --detach %s HEAD" % wt)
    assert rc == 0, o
    try:
        build = "cd %s && %s setup.py build_ext --inplace >/dev/null 2>&1; rm -rf build" % (wt, PY)
        sh(build)
        os.makedirs(wt + "/_out", exist_ok=True)
        shutil.copy(os.path.join(outdir, "demo.py"), wt + "/_out/demo.py")
        env = {"PYTHONPATH": wt}
        rc0, o0 = sh([PY, "-W", "ignore", "_out/demo.py"], cwd=wt, env=env)
        rc, o = sh("git apply %s" % os.path.join(outdir, "patch.diff"), cwd=wt)
        if rc != 0:   # the hook commits may have shifted the context: retry with fuzz, then re-export the patch
            rc, o = sh("patch -p1 -F 3 < %s" % os.path.join(outdir, "patch.diff"), cwd=wt)
            assert rc == 0, "patch does not apply: " + o
            sh("find . -name '*.orig' -delete", cwd=wt)
            rc2, newp = sh("git diff -- wavespectra", cwd=wt)
            with open(os.path.join(outdir, "patch.diff"), "w") as fh:
                fh.write(newp)
        sh(build)
        rc1, o1 = sh([PY, "-W", "ignore", "_out/demo.py"], cwd=wt, env=env)
        missing = baseline(wt)
        print("demo clean rc=%d, demo patched rc=%d, baseline tests no longer passing: %d" % (rc0, rc1, len(missing)))
        ok = rc0 == 0 and rc1 != 0 and not missing
        if not ok:
            print(o0[-1500:], "\n-----\n", o1[-1500:], "\n", missing[:10])
            return 1
        d = os.path.join(SEEDED, name)
        os.makedirs(d, exist_ok=True)
        for f in ("patch.diff", "demo.py", "notes.md"):
            if os.path.exists(os.path.join(outdir, f)):
                shutil.copy(os.path.join(outdir, f), os.path.join(d, f))
        meta = {"name": name, "breaks_property": prop, "needs_to_manifest": needs,
                "confirmed": {"demo_unpatched_rc": rc0, "demo_patched_rc": rc1,
                              "baseline_stable_tests_still_passing": True,
                              "how": "tools/seed.py confirm: fresh worktree of /repo HEAD, demo run before/after "
                                     "`git apply patch.diff` (C extension rebuilt), full pytest baseline after"},
                "demo_patched_output_tail": o1[-600:],
                "detected_by": []}
        with open(os.path.join(d, "meta.json"), "w") as fh:
            json.dump(meta, fh, indent=1)
        print("stored", d)
        return 0
    finally:
        sh("git -C /repo worktree remove --force %s" % wt)


def run(name, checks, tier="quick"):
    """apply the change to a scratch worktree of /repo HEAD and run the checks against it (VERIF_REPO), so that /repo itself
    and anything else running against it are not disturbed; the worktree is removed afterwards."""
    d = os.path.join(SEEDED, name)
    meta = json.load(open(os.path.join(d, "meta.json")))
    checks = checks or [meta["breaks_property"]]
    wt = "/tmp/wt/seedrun-%s-%d" % (name, os.getpid())
    os.makedirs("/tmp/wt", exist_ok=True)
    sh("git -C /repo worktree remove --force %s" % wt)
    rc, o = sh("git -C /repo worktree add -q --detach %s HEAD" % wt)
    assert rc == 0, o
    results = {}
    try:
        rc, o = sh("git apply %s" % os.path.join(d, "patch.diff"), cwd=wt)
        assert rc == 0, o
        for c in checks:
            rc, o = sh(["/verif/check", c, "--tier", tier], cwd="/verif",
                       env={"VERIF_EVIDENCE_DIR": "/verif/.build/seed-evidence", "VERIF_REPO": wt})
            viol = [l for l in o.splitlines() if l.startswith("VIOLATION")]
            print("== %s on %s: rc=%d, %d VIOLATION lines" % (c, name, rc, len(viol)))
            for l in viol[:4]:
                print("   ", l[:300])
            if rc not in (0, 1):
                print(o[-1500:])
            results[c] = {"rc": rc, "violations": len(viol), "first": viol[0][:300] if viol else None}
    finally:
        sh("git -C /repo worktree remove --force %s" % wt)
    return results


def equiv(name, outdir, checks, tier="quick"):
    """a behaviour-PRESERVING change written by a sub-agent: store it under /verif/seeded_equiv/<name>, verify that it applies, that
    its demo and the baseline tests pass, then run the checks against it: every one must stay green (an alarm here is a false alarm)."""
    global SEEDED
    d = os.path.join("/verif/seeded_equiv", name)
    os.makedirs(d, exist_ok=True)
    for f in ("patch.diff", "demo.py", "notes.md"):
        if os.path.exists(os.path.join(outdir, f)):
            shutil.copy(os.path.join(outdir, f), os.path.join(d, f))
    wt = "/tmp/wt/equiv-%s" % name
    sh("git -C /repo worktree remove --force %s" % wt)
    rc, o = sh("git -C /repo worktree add -q --detach %s HEAD" % wt)
    assert rc == 0, o
    try:
        rc, o = sh("git apply %s" % os.path.join(d, "patch.diff"), cwd=wt)
        if rc != 0:
            rc, o = sh("patch -p1 -F 3 < %s" % os.path.join(d, "patch.diff"), cwd=wt)
            assert rc == 0, "patch does not apply: " + o
            sh("find . -name '*.orig' -delete", cwd=wt)
            rc2, newp = sh("git diff -- wavespectra", cwd=wt)
            open(os.path.join(d, "patch.diff"), "w").write(newp)
        sh("cd %s && %s setup.py build_ext --inplace >/dev/null 2>&1; rm -rf build" % (wt, PY))
        os.makedirs(wt + "/_out", exist_ok=True)
        rcd = None
        if os.path.exists(os.path.join(d, "demo.py")):
            shutil.copy(os.path.join(d, "demo.py"), wt + "/_out/demo.py")
            rcd, od = sh([PY, "-W", "ignore", "_out/demo.py"], cwd=wt, env={"PYTHONPATH": wt})
        missing = baseline(wt)
        print("equivalent change %s: demo rc=%s, baseline tests no longer passing: %d" % (name, rcd, len(missing)))
    finally:
        sh("git -C /repo worktree remove --force %s" % wt)
    meta = {"name": name, "kind": "behaviour-preserving", "demo_rc": rcd, "baseline_missing": missing[:10], "checks": []}
    SEEDED = "/verif/seeded_equiv"
    json.dump(dict(meta, breaks_property=checks[0]), open(os.path.join(d, "meta.json"), "w"), indent=1)
    res = run(name, checks, tier)
    for c, r in res.items():
        meta["checks"].append({"check": c, "tier": tier, "rc": r["rc"], "violations": r["violations"], "first": r["first"]})
    json.dump(meta, open(os.path.join(d, "meta.json"), "w"), indent=1)
    return 0


if __name__ == "__main__":
    if sys.argv[1] == "equiv":
        sys.exit(equiv(sys.argv[2], sys.argv[3], sys.argv[4:], os.environ.get("SEED_TIER", "quick")))
    if sys.argv[1] == "confirm":
        sys.exit(confirm(*sys.argv[2:6]))
    elif sys.argv[1] == "run":
        tier = os.environ.get("SEED_TIER", "quick")
        res = run(sys.argv[2], sys.argv[3:], tier)
        d = os.path.join(SEEDED, sys.argv[2], "meta.json")
        meta = json.load(open(d))
        for c, r in res.items():
            entry = {"check": c, "tier": tier, "rc": r["rc"], "violations": r["violations"], "first": r["first"]}
            meta["detected_by"] = [e for e in meta.get("detected_by", []) if not (e["check"] == c and e["tier"] == tier)]
            meta["detected_by"].append(entry)
        json.dump(meta, open(d, "w"), indent=1)
