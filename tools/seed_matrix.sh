#!/bin/sh
# runs every seeded change against the quick check of its own property (and related ones given as extra args "name:ID,ID")
cd /verif
for d in seeded/*/; do
  n=$(basename $d)
  p=$(python3 -c "import json;print(json.load(open('$d/meta.json'))['breaks_property'])")
  extra=""
  case $n in C04-a1) extra="C18 C20";; C18-a1) extra="C04 C20";; C20-a1) extra="C04";; C05-a1|C06-a1) extra="C05 C06";; C14-a1|C17-a1) extra="C14 C17";; C16-a1) extra="C05";; C13-a1) extra="C11";; esac
  python3 tools/seed.py run $n $p $extra 2>&1 | grep "^==" 
done
