#!/bin/sh
# usage: tools/seed_sweep.sh "<seeds>" [ids...]  - runs every registered quick check with several seeds; prints only alarms
SEEDS=${1:-"1 2 3"}; shift
IDS=${@:-$(python3 -c "import json;print(' '.join(c['property_id'] for c in json.load(open('MANIFEST.json'))['checks']))")}
export VERIF_EVIDENCE_DIR=$(pwd)/.build/sweep-evidence
./check --setup >/dev/null
for s in $SEEDS; do for id in $IDS; do
  out=$(VERIF_SEED=$s timeout 1500 ./check $id --tier quick 2>&1); rc=$?
  echo "seed=$s $id rc=$rc $(echo "$out" | grep SUMMARY | cut -c1-160)"
  if [ $rc -ne 0 ]; then echo "$out" | grep -E "VIOLATION|MACHINERY" | head -5 | cut -c1-300; fi
done; done
