#!/usr/bin/env python3
"""Prints the seeded-change matrix (DESIGN.md §7.1) from seeded/*/meta.json and seeded/*/notes.md."""
import glob
import json
import os
import re

HERE = os.path.dirname(os.path.dirname(os.path.abspath(__file__)))
rows = []
SUM = json.load(open(os.path.join(HERE, "seeded", "summaries.json")))
for d in sorted(glob.glob(os.path.join(HERE, "seeded", "*"))):
    if not os.path.isdir(d):
        continue
    m = json.load(open(os.path.join(d, "meta.json")))
    patch = open(os.path.join(d, "patch.diff")).read()
    files = sorted(set(re.findall(r"^\+\+\+ b/(\S+)", patch, re.M)))
    det = m.get("detected_by", [])
    hit = ["%s (%d)" % (x["check"], x["violations"]) for x in det if x.get("rc") == 1 and x.get("violations", 0) > 0]
    miss = [x["check"] for x in det if not (x.get("rc") == 1 and x.get("violations", 0) > 0)]
    summary = m.get("summary") or SUM.get(m["name"], "")
    rows.append((m["name"], m["breaks_property"], ", ".join(os.path.basename(f) for f in files), summary, ", ".join(hit) or "—", ", ".join(miss) or "—"))
print("| change | property | file(s) | what it does | detected by (violations, quick tier) | ran clean |")
print("|---|---|---|---|---|---|")
for r in rows:
    print("| %s | %s | %s | %s | %s | %s |" % r)
