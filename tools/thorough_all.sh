#!/bin/sh
# runs every registered thorough check once (evidence to a scratch dir); prints rc, wall time and alarms
IDS=${@:-$(python3 -c "import json;print(' '.join(c['property_id'] for c in json.load(open('MANIFEST.json'))['checks']))")}
export VERIF_EVIDENCE_DIR=$(pwd)/.build/thorough-evidence
./check --setup >/dev/null
for id in $IDS; do
  t0=$(date +%s)
  out=$(timeout 3600 ./check $id --tier thorough 2>&1); rc=$?
  t1=$(date +%s)
  echo "$id rc=$rc wall=$((t1-t0))s $(echo "$out" | grep SUMMARY | cut -c1-170)"
  if [ $rc -ne 0 ]; then echo "$out" | grep -E "VIOLATION|MACHINERY|Error" | head -6 | cut -c1-300; fi
done
